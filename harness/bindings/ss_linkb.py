"""Engine `ss_linkb` — C37 / C38 (HeaderPacketReceiver) and C39 (PacketTransmitter) of the USB3 link layer,
against specs/ss_linkb/{SsRx,SsTx}.tla, driven by the word-level link-partner model hosts/ss_partner.py."""
import os
import time

from .. import tlc
from ..core import use_repo
from ..pipeline import validate_group
from ..hosts import ss_partner as P

ENGINE = "ss_linkb"
SPEC_DIR = "ss_linkb"

META = {
    "C37": {
        "text": "Event-grain TLA+ reference of USB3 header reception [USB3.2 7.2.4.1] (expected sequence number, 4 "
                "buffers, owed LGOODs / LCRDs / LBAD, ignore-until-LRTY, partner-held credits): TLC explores every "
                "interleaving of header arrivals (good, CRC-5/CRC-16 corrupted, wrong sequence), partner LRTY, "
                "protocol-layer consumption and legal link-command emissions and proves credit conservation, "
                "in-order exactly-once delivery, LGOOD numbering and LCRD lettering; the real HeaderPacketReceiver "
                "is driven word by word by a link-partner model with TLC-generated and seeded-random histories and "
                "with header arrivals / consumption / LRTY / request strobes / stalls at every cycle offset around each "
                "of its own link-command transmissions, each run ending in a drain + quiescence check, and "
                "every recorded event (header words, consumed headers, every transmitted link command) is validated "
                "by TLC, which also decides the CRC validity of every logged header / command bit-serially.",
        "note": "Assumes the partner only sends an acceptable header while it holds a credit, answers LBAD with LRTY "
                "only after receiving it, header packets are separated as stated in the evidence assumptions, PHY "
                "stalls are short. Latencies are free; obligations must be discharged by the time the DUT has been "
                "idle for 16 cycles. Trusted: TLC, amaranth.sim, the partner model (stimulus only).",
        "technique": "TLA+ obligation model, TLC exhaustive + batch trace validation of pysim event traces",
        "design_ref": "DESIGN.md §5 C37",
    },
    "C38": {
        "text": "Same reference with link-down / USB-reset / link-up as Env actions enabled in every state (every "
                "crash point, incl. mid LGOOD / LCRD / LBAD / LRTY / keep-alive): after each link-up the first fresh "
                "command must be LGOOD(expected-1) followed by LCRD A..D and the state must be fresh (no buffered "
                "header offered, no stale LBAD/LRTY, not ignoring). The real receiver is disabled / reset at EVERY "
                "cycle offset around every link-command transmission of a set of base scenarios (found by a probe "
                "run), plus TLC-generated and random histories; all recorded traces are validated by TLC.",
        "note": "Assumes a down period lasts >= 40 cycles, PHY stalls <= 3 cycles per word (so in-flight commands "
                "drain while the link is down), no header/LRTY word within 8 cycles before the link drops or while "
                "it is down; usb_reset may strobe while enable is low, as it falls, or while it is still high (restart "
                "point). Commands that complete while the link is down are not constrained.",
        "technique": "TLA+ obligation model with crash points, TLC exhaustive + exhaustive cycle-offset replay + trace validation",
        "design_ref": "DESIGN.md §5 C38, Appendix A",
    },
}

MIN_DOWN = 40
MAX_STALL = 3
QUIET_CYCLES = 16


class _Phase:
    """Wall time per phase, recorded in the evidence notes."""

    def __init__(self, rep):
        self.rep, self.t, self.parts = rep, time.time(), []

    def mark(self, name):
        now = time.time()
        self.parts.append("%s %.1fs" % (name, now - self.t))
        self.t = now

    def done(self):
        self.rep.notes.append("wall per phase: " + ", ".join(self.parts))


def _cfg(name):
    with open(os.path.join(tlc.SPECS, SPEC_DIR, name)) as f:
        return f.read()


# =====================================================================================================
# Receiver bench
# =====================================================================================================
class RxBench:
    """HeaderPacketReceiver + a LinkCommandDetector that produces `retry_received` (as PacketTransmitter does
    in USB3LinkLayer), driven word by word; records the event trace described in SsRxTrace.tla.

    A script is a list of ops executed in order:
      ("up",) ("down", reset, rst_len) ("reset", n) ("wait", n) ("quiet",)
      ("hdr", kind, d, opts)     kind good|bad5|bad16, d = sequence offset; waits for a credit if it would be accepted
      ("lrty", corrupt)          partner LRTY (waits until the DUT's LBAD went out if one is owed)
      ("consume", n)             assert queue.ready until n headers were taken (or timeout)
      ("autoconsume", p)         from now on queue.ready is asserted with probability p per cycle
      ("retry_req",) ("ka_req",)
    `crash=(cycle, reset, rst_len, tail)`: at absolute cycle `cycle` the link is dropped, the rest of the script
    is abandoned and `tail` is run instead.
    """

    def __init__(self, buffer_count=4, downstream_facing=False):
        self.buffer_count, self.downstream_facing = buffer_count, downstream_facing
        use_repo()
        from amaranth import Elaboratable, Module, ClockDomain
        from amaranth.sim import Simulator
        from luna.gateware.usb.usb3.link.receiver import HeaderPacketReceiver
        from luna.gateware.usb.usb3.link.command import LinkCommandDetector
        from luna.gateware.usb.stream import USBRawSuperSpeedStream

        class RxDut(Elaboratable):
            def __init__(self):
                self.rx = HeaderPacketReceiver(buffer_count=buffer_count, downstream_facing=downstream_facing)
                self.cd = ClockDomain("ss")
                self.det = LinkCommandDetector()
                self.sink = USBRawSuperSpeedStream()

            def elaborate(self, platform):
                m = Module()
                m.domains.ss = self.cd              # explicit, so that the domain reset can be driven
                m.submodules.rx = self.rx
                m.submodules.det = self.det
                m.d.comb += [
                    self.rx.sink.tap(self.sink),
                    self.det.sink.tap(self.sink),
                    # exactly what PacketTransmitter does with an LRTY [transmitter.py "Link Partner Retrying Send"]
                    self.rx.retry_received.eq(self.det.new_command & (self.det.command == P.LRTY)),
                ]
                return m

        self.top = RxDut()
        self.dut = self.top.rx
        self.sim = Simulator(self.top)
        self.sim.add_clock(8e-9, domain="ss")
        self._first = True
        self._job = None
        self._out = None
        self.sim.add_testbench(self._bench)
        self.cycles = 0

    def run(self, script, rng, crash=None, stall_p=0.0, bubble_p=0.0, timeline=None):
        """timeline: {cycle: [op]} extra stimuli at absolute cycles (offset sweeps): ("hdr", kind, d) whose first
        word goes out at that cycle (after an idle word), ("lrty",), ("pulse", "retry_req"|"ka_req"),
        ("qready", n) queue.ready for n cycles, ("stall", n) source.ready low for n cycles."""
        self._job = (script, rng, crash, stall_p, bubble_p, timeline or {})
        if not self._first:
            self.sim.reset()
        self._first = False
        self.sim.run()
        return self._out

    async def _bench(self, ctx):
        script, rng, crash, stall_p, bubble_p, timeline = self._job
        dut, top = self.dut, self.top
        ev = []                       # the trace
        info = {"tx": [], "sinkbusy": [], "skipped": 0}
        parser = P.TxParser()
        st = {"cycle": 0, "enabled": False, "idle": 0, "stall": 0, "auto": 0.0, "want": 0,
              # partner-side mirror used only to keep the stimulus inside the Env assumptions
              "exp": 0, "ignore": False, "lbad_owed": False, "credits": 0, "pend_rst": False,
              "crashed": False, "last_word": -100, "hp_t0": None}
        words = []                    # partner words still to be put on the sink: (data, ctrl, tag)

        def log(rec):
            rec["t"] = st["cycle"]
            ev.append(rec)

        def q_header():
            h = dut.queue.header
            dw = [ctx.get(h.dw0), ctx.get(h.dw1), ctx.get(h.dw2)]
            lcw = (ctx.get(h.sequence_number) | (ctx.get(h.dw3_reserved) << 3) | (ctx.get(h.hub_depth) << 6)
                   | (ctx.get(h.delayed) << 9) | (ctx.get(h.deferred) << 10))
            out = []
            for w in dw:
                out += P.limbs(w)
            return out + [lcw]

        def queue_hdr(kind, d, opts, separator=False):
            """Put a header packet into the partner's word FIFO (None if the Env does not allow it now)."""
            if not st["enabled"]:
                return None
            if kind == "good" and d == 0 and not st["ignore"] and st["credits"] - st.get("inflight_good", 0) <= 0:
                return None
            dw = [rng.getrandbits(32) for _ in range(3)]
            if opts.get("dw0") is not None:
                dw[0] = opts["dw0"]
            seq = (st["exp"] + st.get("inflight_good", 0) + d) % 8
            pkt = P.header_packet(dw[0], dw[1], dw[2], seq, delayed=opts.get("dl", rng.getrandbits(1)),
                                  deferred=opts.get("df", 0), hub_depth=opts.get("hub", 0),
                                  bad_crc5=(kind == "bad5"), bad_crc16=(kind == "bad16"),
                                  crc5_xor=1 << rng.randrange(5), crc16_xor=1 << rng.randrange(16))
            lim = []
            for w, _ in pkt[1:]:
                lim += P.limbs(w)
            counted = kind == "good" and d == 0 and not st["ignore"]
            if separator:
                words.append((0, 0, None))
            for i, (w, c) in enumerate(pkt):
                words.append((w, c, {"e": "hdr", "w": lim, "_g": counted} if i == 4 else None))
            if counted:
                st["inflight_good"] = st.get("inflight_good", 0) + 1
            return True

        def queue_lrty(corrupt):
            lc = P.link_command(P.LRTY, 0, bad_crc=(corrupt == "crc"), replica_mismatch=(corrupt == "replica"))
            lo, hi = P.limbs(lc[1][0])
            words.append((lc[0][0], lc[0][1], None))
            words.append((lc[1][0], lc[1][1], {"e": "lc_rx", "lo": lo, "hi": hi, "ctrl": lc[1][1]}))

        async def cycle(pulse=None):
            """One clock cycle: drive, sample, log, tick."""
            c = st["cycle"]
            for op in timeline.get(c, ()):
                if op[0] == "hdr":
                    if queue_hdr(op[1], op[2], {}, separator=True) is None:
                        info["skipped"] += 1
                elif op[0] == "lrty":
                    if st["enabled"] and not st["lbad_owed"] and not words:
                        queue_lrty(None)
                    else:
                        info["skipped"] += 1
                elif op[0] == "pulse" and st["enabled"] and pulse is None:
                    pulse = op[1]
                elif op[0] == "qready":
                    st["force_q"] = op[1]
                elif op[0] == "stall":
                    st["force_stall"] = min(op[1], MAX_STALL)
            # --- partner word / idle
            if words and not (bubble_p and rng.random() < bubble_p):
                data, ctrl, tag = words.pop(0)
                ctx.set(top.sink.valid, 1)
                ctx.set(top.sink.data, data)
                ctx.set(top.sink.ctrl, ctrl)
                info["sinkbusy"].append(c)
                st["last_word"] = c
                if (data, ctrl) == P.HPSTART:
                    st["hp_t0"] = c
                if tag is not None and tag["e"] == "hdr":
                    tag["t0"] = st["hp_t0"]
                    if tag.pop("_g", False):
                        st["inflight_good"] -= 1
            else:
                tag = None
                if words:                       # bubble: a not-valid word inside a packet
                    ctx.set(top.sink.valid, 0)
                    info["sinkbusy"].append(c)
                else:
                    ctx.set(top.sink.valid, 1)
                    ctx.set(top.sink.data, 0)
                    ctx.set(top.sink.ctrl, 0)
            # --- PHY ready (bounded stalls)
            if st.get("force_stall", 0) > 0:
                st["force_stall"] -= 1
                ctx.set(dut.source.ready, 0)
            elif stall_p and st["stall"] < MAX_STALL and rng.random() < stall_p:
                st["stall"] += 1
                ctx.set(dut.source.ready, 0)
            else:
                st["stall"] = 0
                ctx.set(dut.source.ready, 1)
            # --- protocol layer ready
            rdy = 1 if (st["want"] > 0 or (st["auto"] and rng.random() < st["auto"])) else 0
            if st.get("force_q", 0) > 0:
                st["force_q"] -= 1
                rdy = 1
            ctx.set(dut.queue.ready, rdy)
            # --- strobes
            ctx.set(dut.retry_required, 1 if pulse == "retry_req" else 0)
            ctx.set(dut.keepalive_required, 1 if pulse == "ka_req" else 0)
            # --- input events of this cycle
            if tag is not None:
                log(tag)
                self._mirror(st, tag)
                st["idle"] = 0
            if pulse in ("retry_req", "ka_req"):
                log({"e": pulse})
                st["idle"] = 0
            # --- outputs
            v, r = ctx.get(dut.source.valid), ctx.get(dut.source.ready)
            d, k = ctx.get(dut.source.data), ctx.get(dut.source.ctrl)
            for x in parser.feed(c, v, r, d, k):
                if x[0] == "lc_start":
                    log({"e": "txs"})
                    info["tx"].append([c, None, None])
                elif x[0] == "lc":
                    lo, hi = P.limbs(x[2])
                    log({"e": "txe", "lo": lo, "hi": hi, "ctrl": x[3]})
                    if info["tx"]:
                        info["tx"][-1][1] = c
                        info["tx"][-1][2] = x[2]
                    pc = P.parse_link_command_word(x[2])
                    if st["enabled"] and pc["ok"]:
                        if pc["cmd"] == P.LCRD:
                            st["credits"] += 1
                        elif pc["cmd"] == P.LBAD:
                            st["lbad_owed"] = False
                else:
                    log({"e": "tx_other", "kind": x[0]})
            if v:
                st["idle"] = 0
            else:
                st["idle"] += 1
            if ctx.get(dut.queue.valid) and rdy:
                log({"e": "consume", "w": q_header()})
                st["idle"] = 0
                if st["want"] > 0:
                    st["want"] -= 1
            await ctx.tick("ss")
            st["cycle"] = c + 1
            if crash and not st["crashed"] and st["cycle"] >= crash[0]:
                raise _Crash()

        def link_down(reset):
            ctx.set(dut.enable, 0)
            st["enabled"] = False
            st["pend_rst"] = bool(reset)
            log({"e": "down", "reset": bool(reset)})
            st["idle"] = 0

        async def do_down(reset, rst_len, margin=True):
            if not st["enabled"]:
                return
            while margin and st["cycle"] - st["last_word"] < 9:     # Env: no partner word shortly before
                await cycle()
            link_down(reset)
            if reset:
                ctx.set(dut.usb_reset, 1)
                for _ in range(max(1, rst_len)):
                    await cycle()
                ctx.set(dut.usb_reset, 0)

        async def do_domain_reset(n):
            ctx.set(top.cd.rst, 1)
            st["auto"] = 0.0
            await cycle()                       # the registers take their reset values at the end of this cycle
            ev.append({"e": "dreset", "t": st["cycle"]})
            parser.reset()
            st["idle"] = 0
            if st["enabled"]:
                st["exp"] = 0
            else:
                st["pend_rst"] = True
            st.update(ignore=False, lbad_owed=False, credits=0, inflight_good=0)
            for _ in range(max(0, n - 1)):
                await cycle()
            ctx.set(top.cd.rst, 0)

        async def do_reset_up(rst_len, down_after):
            """usb_reset strobes for rst_len cycles while enable is (still) high; optionally enable falls
            `down_after` cycles after the first cycle of the strobe."""
            if not st["enabled"]:
                return
            r0 = st["cycle"]
            st["auto"] = 0.0
            ctx.set(dut.usb_reset, 1)
            n = 0
            while n < max(rst_len, 2) or (down_after is not None and n <= down_after):
                if n == rst_len:
                    ctx.set(dut.usb_reset, 0)
                if down_after is not None and n == down_after:
                    link_down(False)
                await cycle()
                n += 1
                if n == 2:
                    # restart point, placed after the outputs of the cycle following the strobe's first cycle:
                    # a command the dispatcher committed to before the strobe has been presented by then
                    ev.append({"e": "reset_up", "t": r0})
                    st["idle"] = 0
                    st["exp"] = 0
                    st.update(ignore=False, lbad_owed=False, credits=0, inflight_good=0)
            ctx.set(dut.usb_reset, 0)

        async def run_ops(ops):
            for op in ops:
                k = op[0]
                if k == "up":
                    if st["enabled"]:
                        continue
                    ctx.set(dut.enable, 1)
                    st["enabled"] = True
                    if st["pend_rst"]:
                        st["exp"] = 0
                    st.update(ignore=False, lbad_owed=False, credits=0, pend_rst=False)
                    log({"e": "up"})
                    st["idle"] = 0
                    await cycle()
                elif k == "down":
                    await do_down(op[1], op[2])
                    await cycle()
                elif k == "domain_reset":
                    # ResetSignal("ss") for op[1] cycles (Env: no partner word shortly before / after)
                    while st["cycle"] - st["last_word"] < 9 or words:
                        await cycle()
                    await do_domain_reset(op[1])
                    for _ in range(12):
                        await cycle()
                elif k == "reset_up":
                    while st["cycle"] - st["last_word"] < 9 or words:     # Env: no partner word shortly before
                        await cycle()
                    await do_reset_up(op[1], op[2] if len(op) > 2 else None)
                    for _ in range(12):       # Env: no request strobes / partner traffic right after a reset
                        await cycle()
                elif k == "reset":
                    if st["enabled"]:
                        continue
                    ctx.set(dut.usb_reset, 1)
                    st["pend_rst"] = True
                    log({"e": "reset"})
                    for _ in range(max(1, op[1])):
                        await cycle()
                    ctx.set(dut.usb_reset, 0)
                elif k == "wait":
                    for _ in range(op[1]):
                        await cycle()
                elif k == "quiet":
                    n = 0
                    while (st["idle"] < QUIET_CYCLES or words) and n < 400:
                        await cycle()
                        n += 1
                    log({"e": "quiet", "qv": bool(ctx.get(dut.queue.valid))})
                elif k == "hdr":
                    kind, d = op[1], op[2]
                    opts = op[3] if len(op) > 3 else {}
                    if not st["enabled"]:
                        info["skipped"] += 1
                        continue
                    acceptable = kind == "good" and d == 0 and not st["ignore"]
                    n = 0
                    while acceptable and st["credits"] <= 0 and n < 80:
                        await cycle()
                        n += 1
                    if acceptable and st["credits"] <= 0:
                        info["skipped"] += 1
                        continue
                    if queue_hdr(kind, d, opts) is None:
                        info["skipped"] += 1
                        continue
                    while words:
                        await cycle()
                    for _ in range(opts.get("gap", 1)):
                        await cycle()
                elif k == "lrty":
                    if not st["enabled"]:
                        info["skipped"] += 1
                        continue
                    n = 0
                    while st["lbad_owed"] and n < 80:
                        await cycle()
                        n += 1
                    if st["lbad_owed"]:
                        info["skipped"] += 1
                        continue
                    queue_lrty(op[1] if len(op) > 1 else None)
                    while words:
                        await cycle()
                    await cycle()
                elif k == "consume":
                    st["want"] = op[1]
                    n = 0
                    while st["want"] > 0 and n < 40:
                        await cycle()
                        n += 1
                    st["want"] = 0
                elif k == "autoconsume":
                    st["auto"] = op[1]
                elif k in ("retry_req", "ka_req"):
                    if st["enabled"]:
                        await cycle(pulse=k)
                else:
                    raise ValueError("unknown op %r" % (op,))

        ctx.set(dut.enable, 0)
        ctx.set(dut.usb_reset, 0)
        try:
            await run_ops(script)
        except _Crash:
            st["crashed"] = True
            words.clear()
            st["want"] = 0
            _, reset, rst_len, tail = crash[:4]
            if reset == "up":
                await do_reset_up(rst_len, crash[4] if len(crash) > 4 else None)
            elif reset == "domain":
                await do_domain_reset(rst_len)
            else:
                await do_down(reset, rst_len, margin=False)
            await run_ops(tail)
        self.cycles += st["cycle"]
        info["cycles"] = st["cycle"]
        self._out = (ev, info)

    @staticmethod
    def _mirror(st, tag):
        """Partner-side bookkeeping (what a real partner knows from what it sent): stimulus legality only."""
        if tag["e"] == "hdr":
            w = tag["w"]
            dw = [w[0] | (w[1] << 16), w[2] | (w[3] << 16), w[4] | (w[5] << 16)]
            dw3 = w[6] | (w[7] << 16)
            f = P.parse_dw3(dw3)
            good = dw3 == P.header_dw3(dw[0], dw[1], dw[2], f["seq"], delayed=f["dl"], deferred=f["deferred"],
                                       hub_depth=f["hub_depth"])
            if st["ignore"]:
                return
            if not good:
                st["ignore"] = True
                st["lbad_owed"] = True
            elif f["seq"] == st["exp"]:
                st["exp"] = (st["exp"] + 1) % 8
                st["credits"] -= 1
                tag["acc"] = True          # partner's view: this one should be accepted (classification aid only)
        elif tag["e"] == "lc_rx":
            pc = P.parse_link_command_word(tag["lo"] | (tag["hi"] << 16))
            if pc["ok"] and tag["ctrl"] == 0 and pc["cmd"] == P.LRTY:
                st["ignore"] = False


class _Crash(Exception):
    pass


# =====================================================================================================
# Receiver: stimulus generation
# =====================================================================================================
def rx_random_script(rng, n, downs=False, b2b=False):
    """Random partner / protocol-layer history.  `downs`: link-down / up episodes at quiet points.
    `b2b`: allow back-to-back header packets (gap 0) -- only used for witness stimuli."""
    gaps = [0, 0, 1, 2, 5] if b2b else [1, 1, 2, 3, 6]
    s = [("up",)]
    if rng.random() < 0.5:
        s.append(("autoconsume", rng.choice([0.02, 0.1, 0.5, 1.0])))
    for _ in range(n):
        r = rng.random()
        if r < 0.42:
            s.append(("hdr", "good", 0, {"gap": rng.choice(gaps)}))
        elif r < 0.52:
            s.append(("hdr", rng.choice(["bad5", "bad16"]), rng.choice([0, 0, 1]), {"gap": rng.choice(gaps)}))
        elif r < 0.57:
            s.append(("hdr", "good", rng.choice([1, 2, 7]), {"gap": rng.choice(gaps)}))
        elif r < 0.67:
            s.append(("lrty", rng.choice([None, None, None, "crc", "replica"])))
        elif r < 0.79:
            s.append(("consume", rng.randint(1, 3)))
        elif r < 0.83:
            s.append(("retry_req",))
        elif r < 0.87:
            s.append(("ka_req",))
        elif r < 0.92:
            s.append(("wait", rng.randint(1, 12)))
        elif downs and r < 0.97:
            reset = rng.random() < 0.4
            s += [("quiet",), ("down", reset, rng.choice([1, 1, 2, 5])), ("wait", MIN_DOWN + rng.randint(0, 10))]
            if rng.random() < 0.3:
                s.append(("reset", rng.choice([1, 2, 4])))
                s.append(("wait", rng.randint(1, 5)))
            s.append(("up",))
        else:
            s.append(("quiet",))
    s += [("lrty",), ("consume", 4), ("quiet",)]
    return s


def rx_script_from_behaviour(beh, rng, quiet_before_down):
    """Env projection of a TLC behaviour of MCSsRx (spec -> code): the Env actions in order, DUT actions
    become short waits (the real DUT decides when it transmits)."""
    s = []
    for _act, stv in beh[1:]:
        e = stv["ev"]
        k = e["e"]
        if k == "hdr":
            s.append(("hdr", e["kind"], e["d"], {"gap": rng.choice([1, 1, 2, 4])}))
        elif k == "lrty_rx":
            s.append(("lrty",))
        elif k == "consume":
            s.append(("consume", 1))
        elif k in ("retry_req", "ka_req"):
            s.append((k,))
        elif k == "down":
            if quiet_before_down:
                s.append(("quiet",))
            s.append(("down", bool(e["reset"]), rng.choice([1, 1, 3])))
            s.append(("wait", MIN_DOWN))
        elif k == "reset":
            s.append(("reset", rng.choice([1, 2])))
            s.append(("wait", 2))
        elif k == "up":
            s.append(("up",))
        elif k == "reset_up":
            if quiet_before_down:
                s.append(("quiet",))
            s.append(("reset_up", rng.choice([1, 1, 2, 4])))
        elif k == "dreset":
            s.append(("domain_reset", rng.choice([1, 1, 3])))
        elif k == "quiet":
            s.append(("quiet",))
        elif k in ("txs", "txe", "txe_stale"):
            s.append(("wait", rng.choice([0, 1, 3])))
    s.append(("quiet",))
    return s


RX_TAIL = [("up",), ("quiet",), ("hdr", "good", 0, {"gap": 2}), ("consume", 1), ("quiet",)]


def rx_base_scenarios():
    """Base histories whose every link-command transmission is then interrupted at every cycle offset."""
    a = [("up",), ("hdr", "good", 0, {"gap": 2}), ("hdr", "good", 0, {"gap": 2}), ("consume", 2), ("wait", 14),
         ("hdr", "bad16", 0, {"gap": 3}), ("wait", 12), ("lrty",), ("retry_req",), ("wait", 10), ("ka_req",),
         ("quiet",)]
    b = [("up",), ("autoconsume", 1.0), ("wait", 22), ("hdr", "good", 0, {"gap": 1}), ("hdr", "good", 0, {"gap": 1}),
         ("hdr", "good", 0, {"gap": 1}), ("wait", 25), ("ka_req",), ("retry_req",), ("hdr", "bad5", 0, {"gap": 2}),
         ("quiet",)]
    return [("A", a, 0.0), ("A-stall", a, 0.45), ("B", b, 0.0), ("B-stall", b, 0.3)]


def rx_crash_points(info, every):
    """Cycles at which to drop the link: every cycle from 3 before a command is presented to 2 after it
    completed, plus every `every`-th other cycle; never within 8 cycles after a partner word (Env)."""
    busy = set()
    for c in info["sinkbusy"]:
        busy.update(range(c, c + 9))
    pts = set()
    for s, e, _w in info["tx"]:
        if e is None:
            continue
        pts.update(range(s - 3, e + 3))
    pts.update(range(1, info["cycles"], every))
    return sorted(c for c in pts if c >= 1 and c < info["cycles"] and c not in busy)


def in_command(tx, c):
    """The DUT's dispatcher is busy with a link command in cycle c (decided the cycle before it reaches the
    generator, i.e. 1 cycle before LCSTART is presented, until the command word is accepted)."""
    return any(e is not None and s - 1 <= c <= e for s, e, _w in tx)


def lgood_unsent(trace, c):
    """Headers the partner considers accepted whose LGOOD had not completely gone out by cycle c (current epoch)."""
    n = 0
    adv = False
    for r in trace:
        if r["t"] > c:
            break
        if r["e"] == "up":
            n, adv = 0, True
        elif r["e"] == "hdr" and r.get("acc"):
            n += 1
        elif r["e"] == "txe" and ((r["lo"] >> 7) & 0xF) == P.LGOOD:
            if adv:
                adv = False
            else:
                n -= 1
    return max(n, 0)


def rx_prepare(items):
    """Replace header words by an index into a shared table (so TLC computes each CRC once)."""
    table, index, out = [], {}, []
    for trace, meta in items:
        t2 = []
        for r in trace:
            if r["e"] == "hdr":
                key = tuple(r["w"])
                if key not in index:
                    table.append(list(key))
                    index[key] = len(table)
                r = {"e": "hdr", "h": index[key], "t": r["t"], "t0": r.get("t0"), "acc": r.get("acc", False)}
            t2.append(r)
        out.append((t2, meta))
    return out, table


def rx_classify(trace, matched, status, meta):
    """Normalised cause of a rejection, from the recorded trace."""
    k = matched if status != "ok" else matched + 1
    pre = trace[:k]
    pattern = "other"
    if status.startswith("env_"):
        raise tlc.TLCError("stimulus left the Env assumptions (%s) at step %d: %s" % (status, k, pre[-3:]))
    # last link-down before the failing record, and USB-reset strobes after it
    down_i = max([i for i, r in enumerate(pre) if r["e"] == "down"], default=None)
    if down_i is not None:
        tx, cur = [], None
        for r in trace:
            if r["e"] == "txs":
                cur = [r["t"], None, None]
                tx.append(cur)
            elif r["e"] == "txe" and cur is not None:
                cur[1] = r["t"]
        times = [pre[down_i]["t"]] + [r["t"] for r in pre[down_i:] if r["e"] == "reset"]
        if any(in_command(tx, t) for t in times):
            pattern = "link_down_during_link_command"
        elif lgood_unsent(trace, pre[down_i]["t"] - 1) > 0:
            pattern = "link_down_with_unsent_lgood"
    if pattern == "other":
        hd = [r for r in pre if r["e"] == "hdr"]
        if any(b.get("t0") is not None and b["t0"] == a["t"] + 1 for a, b in zip(hd, hd[1:])):
            pattern = "back_to_back_header"
    group = "other"
    if status in ("quiet_adv_lgood_missing", "adv_lgood_first", "lgood_seq", "lgood_not_owed", "lcrd_not_owed",
                  "lcrd_letter", "quiet_lcrd_missing", "stale_command_after_up", "quiet_queue_valid",
                  "consume_nothing_buffered", "lbad_not_owed", "lrty_not_owed", "keepalive_not_owed"):
        group = "readvertisement"
    return {"clause": status, "pattern": pattern, "group": group}


# =====================================================================================================
# Configuration coverage
# =====================================================================================================
# USB3 fixes the number of header buffers / credits at four (LCRD A..D), so the properties define no behaviour for
# buffer_count != 4: only buffer_count = 4 is elaborated.  HeaderPacketReceiver(downstream_facing): keep-alive LUP
# (default) / LDN.  PacketTransmitter(ss_clock_frequency): 5 ms credit timeout = 625 001 cycles at the default
# 125 MHz; 1 MHz / 60 MHz (never reached in a run) and 20 kHz (101 cycles, reached by the directed scenarios).
RX_ALT_CONFIGS = [(4, True)]
TX_ALT_CONFIGS = [(4, 1e6), (4, 60e6)]
TX_TIMEOUT_FREQ = 20e3


def _rotate(lst, seed, n):
    k = seed % len(lst)
    return (lst[k:] + lst[:k])[:n]


# =====================================================================================================
# Receiver: checks
# =====================================================================================================
RX_MC = {  # (property, tier) -> list of (NBuf, MaxAcc, MaxEpochs, Deltas, WithReqs)
    ("C37", "quick"): [(4, 5, 1, "{0, 1}", "FALSE")],
    ("C37", "thorough"): [(4, 6, 1, "{0, 1, 7}", "FALSE"), (2, 4, 1, "{0, 1}", "TRUE")],        # 25 k + 17 k states
    ("C38", "quick"): [(2, 2, 2, "{0, 1}", "TRUE")],
    ("C38", "thorough"): [(2, 3, 2, "{0, 1}", "TRUE"), (4, 3, 2, "{0}", "TRUE")],             # 111 k + 132 k states
}


def _rx_model_check(rep):
    for nbuf, maxacc, maxep, deltas, reqs in RX_MC[(rep.id, rep.tier)]:
        cfg = tlc.render_cfg(_cfg("MCSsRx.cfg.tmpl"), {"NBuf": nbuf, "MaxAcc": maxacc, "MaxEpochs": maxep,
                                                       "Deltas": deltas, "WithReqs": reqs})
        res = tlc.model_check(SPEC_DIR, "MCSsRx", cfg, workers=8, timeout=1500,
                              allow_uncovered=("MRetryReq", "MKaReq", "MResetUp", "MDReset") if reqs == "FALSE" else ())
        rep.add_mc("MCSsRx NBuf=%d MaxAcc=%d MaxEpochs=%d Deltas=%s WithReqs=%s" % (nbuf, maxacc, maxep, deltas, reqs),
                   res, {"NBuf": nbuf, "MaxAcc": maxacc, "MaxEpochs": maxep, "Deltas": deltas, "WithReqs": reqs})


def _rx_nontriv(rep, trace):
    ign = False
    for r in trace:
        e = r["e"]
        if e == "txe":
            pc = P.parse_link_command_word(r["lo"] | (r["hi"] << 16))
            rep.nontriv(("txe", pc["cmd"], pc["sub"]))
        elif e == "hdr":
            w = r["w"]
            rep.nontriv(("hdr", w[7] % 8, r.get("t0") is not None and False))
        elif e in ("consume", "down", "up", "reset", "lc_rx", "retry_req", "ka_req"):
            rep.nontriv((e, r.get("reset", None)))


def _rx_validate(rep, items, what_prefix, nbuf=4, kacmd=8):
    """items: [(trace, meta)] -> TLC verdicts via validate_group (header table passed in HDR_FILE)."""
    import json
    if not items:
        return 0
    prepared, table = rx_prepare(items)
    with tlc.scratch("ss-linkb-") as d:
        hf = os.path.join(d, "hdrs.json")
        with open(hf, "w") as f:
            json.dump(table, f)
        cfg = tlc.render_cfg(_cfg("SsRxTrace.cfg.tmpl"), {"NBuf": nbuf, "KaCmd": kacmd})
        return validate_group(rep, SPEC_DIR, "SsRxTrace", cfg, prepared, classify=rx_classify,
                              what_prefix=what_prefix, env={"HDR_FILE": hf})


def _rx_assumptions(rep):
    rep.assume("the partner sends a header that would be accepted only while it holds a credit (LCRDs received "
               "minus headers accepted); headers and partner link commands arrive only while enable is high")
    rep.assume("the partner sends LRTY only after the DUT's LBAD went out (or unsolicited when none is owed)")
    rep.assume("PHY stalls (source.ready low) last at most %d cycles per word" % MAX_STALL)
    rep.assume("an obligation (LGOOD / LCRD / LBAD / LRTY / keep-alive) must have been transmitted by the time the "
               "DUT's source has been idle for %d cycles; no other latency is constrained" % QUIET_CYCLES)


def check_C37(rep):
    quick = rep.tier == "quick"
    rep.rule = ("events of real HeaderPacketReceiver runs validated by TLC against SsRx.tla; non-trivial = a header "
                "arrival, consumption or transmitted link command; distinct by (event, sequence number / command, subtype)")
    _rx_assumptions(rep)
    rep.assume("clean stimuli separate header packets by at least one word (see finding C37-back-to-back-header); "
               "witness stimuli send them back to back")
    ph = _Phase(rep)
    _rx_model_check(rep)
    ph.mark("model-check")

    bench = RxBench()
    items = []
    # (A) spec -> code: Env projections of TLC-simulated behaviours (single U0 epoch)
    sim_cfg = _cfg("MCSsRx_sim.cfg.tmpl").replace("MaxEpochs = 1000", "MaxEpochs = 1")
    behs = tlc.simulate(SPEC_DIR, "MCSsRx", sim_cfg, num=40 if quick else 300, depth=60, seed=rep.seed * 11 + 3)
    for i, b in enumerate(behs):
        script = [op for op in rx_script_from_behaviour(b, rep.rng, True) if op[0] not in ("down", "reset", "reset_up", "domain_reset")]
        tr, info = bench.run(script, rep.rng, stall_p=rep.rng.choice([0, 0, 0.3]), bubble_p=rep.rng.choice([0, 0.1]))
        items.append((tr, {"origin": "tlc-simulate", "n": i}))
    # (B) code -> spec: seeded-random histories beyond the model's bounds
    for i in range(70 if quick else 700):
        script = rx_random_script(rep.rng, 24 if quick else 40)
        tr, info = bench.run(script, rep.rng, stall_p=rep.rng.choice([0, 0, 0.2, 0.5]),
                             bubble_p=rep.rng.choice([0, 0, 0.1]))
        items.append((tr, {"origin": "random", "n": i}))
    # directed: sequence wrap 7 -> 0 with all four buffers in use, retry after corruption of each CRC
    wrap = [("up",)] + [("hdr", "good", 0, {"gap": 1}), ("consume", 1)] * 6 + \
           [("hdr", "good", 0, {"gap": 1})] * 4 + [("quiet",), ("consume", 4), ("quiet",)] + \
           [("hdr", "bad5", 0, {"gap": 1}), ("hdr", "good", 0, {"gap": 1}), ("quiet",), ("lrty",),
            ("hdr", "good", 0, {"gap": 1}), ("hdr", "bad16", 0, {"gap": 1}), ("lrty", "crc"),
            ("hdr", "good", 0, {"gap": 1}), ("lrty",), ("hdr", "good", 0, {"gap": 1}), ("consume", 4), ("quiet",)]
    for sp in (0.0, 0.4):
        tr, info = bench.run(wrap, rep.rng, stall_p=sp)
        items.append((tr, {"origin": "directed-wrap", "stall_p": sp}))
    # witness stimuli for the back-to-back finding (expected KNOWN-FINDING while it is open)
    for i, first in enumerate([("hdr", "good", 0, {"gap": 0}), ("hdr", "good", 1, {"gap": 0}),
                               ("hdr", "good", 0, {"gap": 0})]):
        script = [("up",), ("quiet",)] + [("hdr", "good", 0, {"gap": 2})] * i + \
                 [first, ("hdr", "good", 0, {"gap": 2}), ("quiet",), ("consume", 4), ("quiet",)]
        tr, info = bench.run(script, rep.rng)
        items.append((tr, {"origin": "witness-back-to-back", "n": i}))
    # systematic one-cycle alignments: partner / protocol-layer events around every DUT link command
    items += rx_event_sweeps(bench, rep, quick)
    # other constructor configurations (one per quick run, rotated by seed; all in the thorough tier)
    alt_groups = []
    cfgs = _rotate(RX_ALT_CONFIGS[:3], rep.seed, 1) if quick else list(RX_ALT_CONFIGS)
    for nb, df in cfgs:
        b2 = RxBench(buffer_count=nb, downstream_facing=df)
        g = []
        fill = [("up",), ("quiet",)] + [("hdr", "good", 0, {"gap": 1})] * (nb + 2) + [("quiet",), ("consume", nb),
                ("quiet",)] + [("hdr", "good", 0, {"gap": 1}), ("consume", 1)] * (2 * nb + 9) + [("ka_req",), ("quiet",)]
        tr, info = b2.run(fill, rep.rng)           # consumer stalled until ALL buffers are full, then wrap
        g.append((tr, {"origin": "config-fill-all-buffers", "buffer_count": nb, "downstream_facing": df}))
        for i in range((4 if nb & (nb - 1) else 12) if quick else 40):
            tr, info = b2.run(rx_random_script(rep.rng, 24), rep.rng, stall_p=rep.rng.choice([0, 0.3]))
            g.append((tr, {"origin": "config-random", "buffer_count": nb, "downstream_facing": df, "n": i}))
        for tr, _ in g:
            _rx_nontriv(rep, tr)
        rep.nontriv(("config", nb, df))
        rep.add_eval(b2.cycles)
        alt_groups.append((nb, 11 if df else 8, g))
    for tr, meta in items:
        _rx_nontriv(rep, tr)
    rep.add_eval(bench.cycles)
    rep.sample({"origin": items[0][1], "first_events": items[0][0][:10]})
    rep.sample({"origin": items[-1][1], "events": items[-1][0][:14]})
    ph.mark("simulate+drive (%d traces, %d cycles)" % (len(items), bench.cycles))
    _rx_validate(rep, items, "HeaderPacketReceiver ")
    for nb, ka, g in alt_groups:
        _rx_validate(rep, g, "HeaderPacketReceiver(buffer_count=%d, keepalive=%d) " % (nb, ka), nbuf=nb, kacmd=ka)
    ph.mark("trace-validation")
    ph.done()


def check_C38(rep):
    quick = rep.tier == "quick"
    rep.rule = ("real HeaderPacketReceiver runs with link-down / USB-reset / link-up, validated by TLC against "
                "SsRx.tla; non-trivial = a crash point (base scenario, cycle relative to the link command in "
                "flight, reset kind) or a transmitted command / header event; distinct by that tuple")
    _rx_assumptions(rep)
    rep.assume("a down period lasts at least %d cycles; no partner word within 8 cycles before enable falls / usb_reset "
               "strobes or while enable is low" % MIN_DOWN)
    rep.assume("usb_reset may strobe (1..6 cycles) while enable is low, from the cycle it falls, or while enable is still "
               "high (alone or followed by enable falling 1..3 cycles later); with enable high it is a restart point: a "
               "link command presented at most one cycle after the strobe's first cycle (already committed by the "
               "dispatcher) may finish, every later command must belong to the fresh advertisement LGOOD(7), LCRD A..D; "
               "no retry / keep-alive request and no partner word within 12 cycles after such a strobe")
    rep.assume("commands that complete while enable is low are not constrained; after enable rose every completed "
               "command must be a fresh one")
    rep.assume("clean stimuli drop the link / reset only while the DUT is not busy with a link command and no LGOOD "
               "for a received header is still owed (findings C38-link-down-during-link-command, "
               "C38-link-down-with-unsent-lgood); witness stimuli do it at every cycle offset of every command")
    ph = _Phase(rep)
    _rx_model_check(rep)
    ph.mark("model-check")

    bench = RxBench()
    clean, witness = [], []
    # (1) every cycle offset around every link-command transmission of the base scenarios
    for name, script, stall_p in rx_base_scenarios():
        for variant in range(3):
            seed = rep.seed * 1000 + variant
            import random
            tr0, info0 = bench.run(script, random.Random(seed), stall_p=stall_p)
            clean.append((tr0, {"origin": "base", "scenario": name, "variant": variant}))
            # quick tier: all crash points for variant 0; for the other stall patterns only the (rare) points where
            # the dispatcher is idle while an LGOOD is still owed (witnesses of C38-link-down-with-unsent-lgood)
            only_unsent = quick and variant > 0
            if only_unsent and stall_p == 0.0:
                continue
            for c in rx_crash_points(info0, every=5 if quick else 2):
                if only_unsent and (in_command(info0["tx"], c) or lgood_unsent(tr0, c - 1) == 0):
                    continue
                kinds = [(False, 0), (True, 1)] if quick else [(False, 0), (True, 1), (True, 4)]
                if quick and not in_command(info0["tx"], c):
                    kinds = [kinds[c % 2]]
                if lgood_unsent(tr0, c - 1) > 0 and not in_command(info0["tx"], c):
                    kinds = [(False, 0)] + [k for k in kinds if k[0]]
                for reset, rl in kinds:
                    tail = [("wait", MIN_DOWN + (c % 7))] + RX_TAIL
                    tr, info = bench.run(script, random.Random(seed), crash=(c, reset, rl, tail), stall_p=stall_p)
                    busy = in_command(info0["tx"], c) or lgood_unsent(tr0, c - 1) > 0
                    off = min((c - s for s, e, _ in info0["tx"] if e is not None and s - 3 <= c <= e + 2),
                              default=None)
                    meta = {"origin": "crash-sweep", "scenario": name, "variant": variant, "cycle": c,
                            "reset": reset, "rst_len": rl, "in_command": busy}
                    (witness if busy else clean).append((tr, meta))
                    cmd = next((P.parse_link_command_word(w)["cmd"] for s, e, w in info0["tx"]
                                if e is not None and s - 3 <= c <= e + 2), None)
                    rep.nontriv(("crash", name, cmd, off, reset, rl))
    # (1b) usb_reset strobing while enable is still high (first cycle of a warm reset seen in U0), alone or
    #      followed by enable falling k cycles later, at EVERY cycle of the base scenarios -- this includes the
    #      single dispatch cycles with an LCRD / LRTY / keep-alive / LBAD pending
    modes = [(1, None), (1, 1), (3, None), (1, 3), (2, 2), (6, None)]
    for name, script, stall_p in rx_base_scenarios():
        if quick and name not in ("A", "B-stall"):
            continue
        import random
        seed = rep.seed * 1000 + 7
        tr0, info0 = bench.run(script, random.Random(seed), stall_p=stall_p)
        for c in rx_crash_points(info0, every=1):
            for mi, (rl, da) in enumerate(modes):
                if quick and mi != c % 4:
                    continue
                tail = ([("wait", MIN_DOWN), ("up",)] if da is not None else []) + RX_TAIL[1:]
                tr, info = bench.run(script, random.Random(seed), crash=(c, "up", rl, tail, da), stall_p=stall_p)
                clean.append((tr, {"origin": "reset-while-up-sweep", "scenario": name, "cycle": c, "rst_len": rl,
                                   "down_after": da}))
                rep.nontriv(("reset-up", name, c, rl, da))
    # (1c) the `ss` clock-domain reset (ResetSignal) at every cycle of a base scenario, enable high or already low
    for name, script, stall_p in rx_base_scenarios():
        if name not in (("A",) if quick else ("A", "B-stall")):
            continue
        import random
        seed = rep.seed * 1000 + 11
        tr0, info0 = bench.run(script, random.Random(seed), stall_p=stall_p)
        for c in rx_crash_points(info0, every=1):
            if quick and c % 2:
                continue
            n = 1 + (c % 3)
            tr, info = bench.run(script, random.Random(seed), crash=(c, "domain", n, RX_TAIL[1:]), stall_p=stall_p)
            clean.append((tr, {"origin": "domain-reset-sweep", "scenario": name, "cycle": c, "rst_len": n}))
            rep.nontriv(("domain-reset", name, c, n))
    clean.append((bench.run([("up",), ("quiet",), ("hdr", "good", 0, {"gap": 2}), ("quiet",), ("down", False, 0),
                             ("wait", 10), ("domain_reset", 2), ("wait", MIN_DOWN), ("up",)] + RX_TAIL[1:], rep.rng)[0],
                  {"origin": "domain-reset-while-down"}))
    # (1d) another constructor configuration (rotated by seed; all in the thorough tier): link-down / reset sweep
    alt_groups = []
    pow2 = [c for c in RX_ALT_CONFIGS if not c[0] & (c[0] - 1)]      # (the non-power-of-two finding belongs to C37)
    for nb, df in (_rotate(pow2[:3], rep.seed + 1, 1) if quick else pow2):
        b2 = RxBench(buffer_count=nb, downstream_facing=df)
        g = []
        import random
        name, script, stall_p = rx_base_scenarios()[0]
        seed = rep.seed * 1000 + 13
        tr0, info0 = b2.run(script, random.Random(seed), stall_p=stall_p)
        g.append((tr0, {"origin": "config-base", "buffer_count": nb, "downstream_facing": df}))
        for c in rx_crash_points(info0, every=4 if quick else 2):
            mode = c % 3
            if mode == 0:
                cr = (c, bool(c % 2), 1, [("wait", MIN_DOWN)] + RX_TAIL)
            elif mode == 1:
                cr = (c, "up", 1 + (c % 2), RX_TAIL[1:], None)
            else:
                cr = (c, "domain", 1, RX_TAIL[1:])
            tr, info = b2.run(script, random.Random(seed), crash=cr, stall_p=stall_p)
            g.append((tr, {"origin": "config-crash-sweep", "buffer_count": nb, "downstream_facing": df, "cycle": c,
                           "mode": str(cr[1])}))
        for tr, _ in g:
            _rx_nontriv(rep, tr)
        rep.nontriv(("config", nb, df))
        rep.add_eval(b2.cycles)
        alt_groups.append((nb, 11 if df else 8, g))
    # (2) TLC-simulated behaviours with down/reset/up: once with the DUT left to go idle before each link-down
    #     (clean) and once exactly as generated (link-down wherever the behaviour has it)
    behs = tlc.simulate(SPEC_DIR, "MCSsRx", _cfg("MCSsRx_sim.cfg.tmpl"), num=40 if quick else 300, depth=70,
                        seed=rep.seed * 13 + 5)
    for i, b in enumerate(behs):
        for qb in (True, False):
            script = rx_script_from_behaviour(b, rep.rng, qb)
            tr, info = bench.run(script, rep.rng, stall_p=rep.rng.choice([0, 0.3]))
            (clean if qb else witness).append((tr, {"origin": "tlc-simulate", "n": i, "quiet_before_down": qb}))
    # (3) seeded-random histories with link-down episodes at idle points
    for i in range(40 if quick else 400):
        script = rx_random_script(rep.rng, 30, downs=True)
        tr, info = bench.run(script, rep.rng, stall_p=rep.rng.choice([0, 0, 0.3]), bubble_p=rep.rng.choice([0, 0.1]))
        clean.append((tr, {"origin": "random", "n": i}))
    for tr, meta in clean + witness:
        _rx_nontriv(rep, tr)
    rep.add_eval(bench.cycles)
    rep.sample({"origin": clean[0][1], "first_events": clean[0][0][:8]})
    if witness:
        rep.sample({"origin": witness[0][1], "events": witness[0][0][:16]})
    rep.notes.append("clean traces: %d, witness-class traces: %d" % (len(clean), len(witness)))
    ph.mark("simulate+drive (%d traces, %d cycles)" % (len(clean) + len(witness), bench.cycles))
    _rx_validate(rep, clean + witness, "HeaderPacketReceiver ")
    for nb, ka, g in alt_groups:
        _rx_validate(rep, g, "HeaderPacketReceiver(buffer_count=%d, keepalive=%d) " % (nb, ka), nbuf=nb, kacmd=ka)
    ph.mark("trace-validation")
    ph.done()


CHECKS = {"C37": check_C37, "C38": check_C38}


# =====================================================================================================
# Transmitter bench (C39)
# =====================================================================================================
class TxBench:
    """PacketTransmitter driven word by word by the link-partner model; records the event trace of SsTxTrace.tla.

    Script ops:
      ("up",) ("down",) ("wait", n) ("quiet",)
      ("lc", cmd, sub, corrupt)       partner link command (sub may be "ok" = the value the partner owes, or int)
      ("offer", opts)                 the protocol layer offers a header and holds it until accepted (or timeout)
      ("offer_nowait", opts)          ... offers it and goes on (it stays offered until accepted)
    `lrty_pending` is driven as HeaderPacketReceiver does in USB3LinkLayer: it rises the cycle after the DUT's
    retry_required strobe and falls when the (emulated) LRTY has been sent, which happens only while the
    transmitter does not hold the PHY (the layer's arbiter serialises the two sources).
    """

    def __init__(self, buffer_count=4, ss_clock_frequency=None):
        use_repo()
        from amaranth import Elaboratable, Module, ClockDomain
        from amaranth.sim import Simulator
        from luna.gateware.usb.usb3.link.transmitter import PacketTransmitter
        kw = {} if ss_clock_frequency is None else {"ss_clock_frequency": ss_clock_frequency}
        self.nbuf = buffer_count
        self.dut = dut = PacketTransmitter(buffer_count=buffer_count, **kw)
        # what the documentation promises: 5 ms [USB3.2 7.2.4.1.13] at the given clock
        self.timeout_cycles = int(5e-3 * (ss_clock_frequency or 125e6) + 1)
        self.cd = cd = ClockDomain("ss")

        class Top(Elaboratable):
            def elaborate(self, platform):
                m = Module()
                m.domains.ss = cd               # explicit, so that the domain reset can be driven
                m.submodules.dut = dut
                return m

        self.sim = Simulator(Top())
        self.sim.add_clock(8e-9, domain="ss")
        self._first = True
        self._job = None
        self._out = None
        self.sim.add_testbench(self._bench)
        self.cycles = 0

    def run(self, script, rng, stall_p=0.0, bubble_p=0.0, lrty_delay=(3, 12), timeline=None, clean=True):
        """clean=True keeps the stimulus away from the triggers of the two open C39 findings: the queue offer is
        withdrawn for the one cycle in which retry_required strobes, and a further LBAD is only sent while no
        header packet is in flight."""
        self._job = (script, rng, stall_p, bubble_p, lrty_delay, timeline or {}, clean)
        if not self._first:
            self.sim.reset()
        self._first = False
        self.sim.run()
        return self._out

    async def _bench(self, ctx):
        script, rng, stall_p, bubble_p, lrty_delay, timeline, clean = self._job
        dut = self.dut
        ev = []
        info = {"skipped": 0, "lbad_t": [], "hp": [], "acc_t": []}
        parser = P.TxParser()
        st = {"cycle": 0, "enabled": False, "idle": 0, "stall": 0,
              "offer": None,                # header currently offered on queue (dict) or None
              "lrty": None,                 # None | ["wait", n] | ["send", n]   emulated receiver side
              # partner mirror (stimulus legality only)
              "bringup": False, "next_ack": 0, "sent_unacked": [], "letter": 0, "held": 0, "given": 0,
              "p_ignoring": False, "nbuf": self.nbuf}
        words = []

        def log(rec):
            rec["t"] = st["cycle"]
            ev.append(rec)
            st["idle"] = 0

        def hdr_limbs(o):
            lcw = (o.get("seq_in", 0) & 7) | ((o.get("hub", 0) & 7) << 6) | ((o.get("dl_in", 0) & 1) << 9) \
                | ((o.get("df", 0) & 1) << 10)
            out = []
            for w in o["dw"]:
                out += P.limbs(w)
            return out + [lcw]

        async def cycle():
            c = st["cycle"]
            # timeline hooks: absolute-cycle stimuli (used by the offset sweeps)
            for op in timeline.get(c, ()):
                apply_now(op)
            # partner word
            tag = None
            if words and not (bubble_p and rng.random() < bubble_p):
                data, ctrl, tag = words.pop(0)
                ctx.set(dut.sink.valid, 1)
                ctx.set(dut.sink.data, data)
                ctx.set(dut.sink.ctrl, ctrl)
            elif words:
                ctx.set(dut.sink.valid, 0)
            else:
                ctx.set(dut.sink.valid, 1)
                ctx.set(dut.sink.data, 0)
                ctx.set(dut.sink.ctrl, 0)
            # emulated receiver: LRTY
            lr = st["lrty"]
            sending_lrty = lr is not None and lr[0] == "send"
            # PHY ready
            mask_stall = False
            if st.get("mask"):
                # exhaustive stall positions: bit i of the mask = one stall cycle right before word i (0 = HPSTART)
                # of every header packet is accepted
                idx = len(parser.words) + 1 if parser.state == "hp" else 0
                if (st["mask"] >> idx) & 1 and st.get("mask_done") != (len(info["hp"]), idx):
                    st["mask_done"] = (len(info["hp"]), idx)
                    mask_stall = True
            if sending_lrty or mask_stall:
                ctx.set(dut.source.ready, 0)
            elif stall_p and st["stall"] < MAX_STALL and rng.random() < stall_p:
                st["stall"] += 1
                ctx.set(dut.source.ready, 0)
            else:
                st["stall"] = 0
                ctx.set(dut.source.ready, 1)
            # queue
            o = st["offer"]
            if clean and st.get("lbad_just_arrived"):
                o = None                     # (clean) no acceptance in the cycle retry_required strobes
            st["lbad_just_arrived"] = (tag is not None and tag["e"] == "lc_rx" and
                                       P.parse_link_command_word(tag["lo"] | (tag["hi"] << 16))["cmd"] == P.LBAD)
            if o is not None:
                ctx.set(dut.queue.valid, 1)
                h = dut.queue.header
                ctx.set(h.dw0, o["dw"][0]); ctx.set(h.dw1, o["dw"][1]); ctx.set(h.dw2, o["dw"][2])
                ctx.set(h.sequence_number, o.get("seq_in", 0)); ctx.set(h.hub_depth, o.get("hub", 0))
                ctx.set(h.delayed, o.get("dl_in", 0)); ctx.set(h.deferred, o.get("df", 0))
            else:
                ctx.set(dut.queue.valid, 0)
            # ---- input events
            if tag is not None:
                log(tag)
                self._mirror(st, tag, info)
            # ---- outputs
            if ctx.get(dut.retry_required):
                log({"e": "retry_req"})
                if st["lrty"] is None:
                    st["lrty"] = ["rise", 0]
            v, r = ctx.get(dut.source.valid), ctx.get(dut.source.ready)
            d, k = ctx.get(dut.source.data), ctx.get(dut.source.ctrl)
            for x in parser.feed(c, v, r, d, k):
                if x[0] == "hp_first":
                    log({"e": "hps"})
                    info["hp"].append([c, None])
                elif x[0] == "hp":
                    lim = []
                    for w in x[2]:
                        lim += P.limbs(w)
                    log({"e": "hpe", "w": lim, "ctrl": max(x[3])})
                    if info["hp"]:
                        info["hp"][-1][1] = c
                    f = P.parse_dw3(x[2][3])
                    if not st["p_ignoring"] and f["seq"] not in st["sent_unacked"]:
                        st["sent_unacked"].append(f["seq"])     # the partner received it
                elif x[0] in ("lc_start", "lc"):
                    log({"e": "tx_other", "kind": x[0]})
                elif x[0] == "hp_start":
                    info.setdefault("hp_presented", []).append(c)
            if v:
                st["idle"] = 0
            else:
                st["idle"] += 1
            if ctx.get(dut.recovery_required):
                log({"e": "recov"})
            if o is not None and ctx.get(dut.queue.ready):
                log({"e": "acc", "w": hdr_limbs(o)})
                info["acc_t"].append(c)
                st["offer"] = None
            await ctx.tick("ss")
            st["cycle"] = c + 1
            # ---- receiver emulation state machine (acts for the next cycle)
            lr = st["lrty"]
            if lr is not None:
                if lr[0] == "rise":
                    ctx.set(dut.lrty_pending, 1)
                    st["lrty"] = ["wait", rng.randint(*lrty_delay)]
                elif lr[0] == "wait":
                    lr[1] -= 1
                    if lr[1] <= 0 and not v:
                        st["lrty"] = ["send", 2]
                elif lr[0] == "send":
                    lr[1] -= 1
                    if lr[1] <= 0:
                        ctx.set(dut.lrty_pending, 0)
                        log({"e": "lrty_done"})
                        st["lrty"] = None
                        st["p_ignoring"] = False                # the partner saw our LRTY

        def send_lc(cmd, sub, corrupt=None):
            lc = P.link_command(cmd, sub, bad_crc=(corrupt == "crc"), replica_mismatch=(corrupt == "replica"),
                                ctrl_in_payload=(corrupt == "ctrl"))
            lo, hi = P.limbs(lc[1][0])
            words.append((lc[0][0], lc[0][1], None))
            words.append((lc[1][0], lc[1][1], {"e": "lc_rx", "lo": lo, "hi": hi, "ctrl": lc[1][1]}))

        def new_offer(opts):
            dw0 = (rng.getrandbits(32) & ~0xF) | rng.choice([0, 4, 4, 4, 12])     # never a DATA header
            if opts.get("data"):
                dw0 = (dw0 & ~0xF) | 8
            return {"dw": [dw0, rng.getrandbits(32), rng.getrandbits(32)], "seq_in": rng.getrandbits(3),
                    "hub": rng.getrandbits(3), "dl_in": 0, "df": rng.getrandbits(1)}

        def apply_now(op):
            if op[0] == "lc":
                if clean and op[1] == P.LBAD and info["lbad_t"] and (st["idle"] < 4 or st["lrty"] is not None):
                    info["skipped"] += 1     # (clean) no further LBAD while a header packet is in flight
                    return
                sub = self._resolve_sub(st, op[1], op[2])
                if sub is None:
                    info["skipped"] += 1
                    return
                send_lc(op[1], sub, op[3] if len(op) > 3 else None)
            elif op[0] == "offer_nowait":
                if st["offer"] is None:
                    st["offer"] = new_offer(op[1] if len(op) > 1 else {})
            elif op[0] == "stallmask":
                st["mask"] = op[1]

        async def run_ops(ops):
            for op in ops:
                k = op[0]
                if k == "up":
                    ctx.set(dut.enable, 1)
                    st["enabled"] = True
                    log({"e": "up"})
                    await cycle()
                elif k == "down":
                    ctx.set(dut.enable, 0)
                    st.update(enabled=False, bringup=False, sent_unacked=[], letter=0, held=0, given=0,
                              p_ignoring=False)
                    st["offer"] = None
                    log({"e": "down"})
                    await cycle()
                elif k == "domain_reset":
                    while words:
                        await cycle()
                    ctx.set(self.cd.rst, 1)
                    await cycle()
                    log({"e": "dreset"})
                    parser.reset()
                    ctx.set(dut.lrty_pending, 0)
                    st.update(bringup=False, sent_unacked=[], letter=0, held=0, given=0, p_ignoring=False,
                              lrty=None, offer=None)
                    for _ in range(max(0, op[1] - 1)):
                        await cycle()
                    ctx.set(self.cd.rst, 0)
                    await cycle()
                elif k == "wait":
                    for _ in range(op[1]):
                        await cycle()
                elif k == "quiet":
                    n = 0
                    while (st["idle"] < QUIET_CYCLES or words or st["lrty"] is not None) and n < 400:
                        await cycle()
                        n += 1
                    log({"e": "quiet", "qr": bool(ctx.get(dut.queue.ready))})
                elif k == "lc":
                    if not st["enabled"]:
                        info["skipped"] += 1
                        continue
                    apply_now(op)
                    while words:
                        await cycle()
                    for _ in range(op[4] if len(op) > 4 else 1):
                        await cycle()
                elif k == "offer":
                    st["offer"] = new_offer(op[1] if len(op) > 1 else {})
                    n = 0
                    while st["offer"] is not None and n < (op[2] if len(op) > 2 else 30):
                        await cycle()
                        n += 1
                    if st["offer"] is not None:
                        st["offer"] = None          # withdrawn (never accepted)
                        info["skipped"] += 1
                elif k == "offer_nowait":
                    apply_now(op)
                    await cycle()
                else:
                    raise ValueError("unknown op %r" % (op,))

        ctx.set(dut.enable, 0)
        ctx.set(dut.lrty_pending, 0)
        await run_ops(script)
        self.cycles += st["cycle"]
        info["cycles"] = st["cycle"]
        self._out = (ev, info)

    @staticmethod
    def _resolve_sub(st, cmd, sub):
        """'ok' -> the number/letter a well-behaved partner would send now (None if it has nothing to send)."""
        if isinstance(sub, tuple) and sub[1] % (8 if cmd == P.LGOOD else st["nbuf"]) == 0:
            sub = "ok"                        # (not a mismatch in this configuration)
        if isinstance(sub, tuple):            # ("rel", d): d away from what the DUT expects (d != 0: mismatch)
            base = st["next_ack"] if cmd == P.LGOOD else st["letter"]
            return (base + sub[1]) % (8 if cmd == P.LGOOD else st["nbuf"])
        if sub != "ok":
            return sub
        if cmd == P.LGOOD:
            if not st["bringup"]:
                return st.get("adv", 7)
            return st["sent_unacked"][0] if st["sent_unacked"] and not st["p_ignoring"] else None
        if cmd == P.LBAD:
            # an LBAD answers a (corrupted) header the partner received and has not acknowledged
            return 0 if st["bringup"] and st["sent_unacked"] and not st["p_ignoring"] else None
        if cmd == P.LCRD:
            if not st["bringup"] or st["given"] - st["held"] >= st["nbuf"]:
                return None
            return st["letter"]
        return 0

    @staticmethod
    def _mirror(st, tag, info):
        if tag["e"] != "lc_rx":
            return
        pc = P.parse_link_command_word(tag["lo"] | (tag["hi"] << 16))
        if not (pc["ok"] and tag["ctrl"] == 0):
            return
        if pc["cmd"] == P.LGOOD:
            if not st["bringup"]:
                st["bringup"] = True
                st["next_ack"] = (pc["sub"] + 1) % 8
            elif st["sent_unacked"] and pc["sub"] == st["sent_unacked"][0]:
                st["sent_unacked"].pop(0)
                st["next_ack"] = (st["next_ack"] + 1) % 8
                st["held"] += 1            # the partner now holds this header in a buffer it may free later
        elif pc["cmd"] == P.LCRD:
            if pc["sub"] == st["letter"]:
                st["letter"] = (st["letter"] + 1) % st["nbuf"]
                st["given"] += 1
        elif pc["cmd"] == P.LBAD:
            info["lbad_t"].append(tag["t"])
            st["p_ignoring"] = True
            st["sent_unacked"] = []


# =====================================================================================================
# Transmitter: stimulus generation and check
# =====================================================================================================
def tx_bringup(rng, ncred=4, adv=None):
    s = [("up",), ("lc", P.LGOOD, rng.randrange(8) if adv is None else adv)]
    s += [("lc", P.LCRD, "ok")] * ncred
    return s


def tx_random_script(rng, n, downs=False):
    s = tx_bringup(rng, rng.choice([1, 2, 4, 4, 4]))
    for _ in range(n):
        r = rng.random()
        if r < 0.36:
            s.append(("offer", {}, rng.choice([3, 30])))
        elif r < 0.40:
            s.append(("offer", {"data": True}, 30))
        elif r < 0.58:
            s.append(("lc", P.LGOOD, "ok", None, rng.choice([0, 1, 3])))
        elif r < 0.72:
            s.append(("lc", P.LCRD, "ok", None, rng.choice([0, 1, 3])))
        elif r < 0.80:
            s.append(("lc", P.LBAD, "ok", None, rng.choice([0, 1, 5, 20])))
        elif r < 0.83:
            s.append(("lc", P.LGOOD, ("rel", rng.choice([1, 2, 7])), None, 2))
        elif r < 0.86:
            s.append(("lc", P.LCRD, ("rel", rng.choice([1, 2, 3])), None, 2))
        elif r < 0.89:
            s.append(("lc", rng.choice([P.LGOOD, P.LCRD, P.LBAD]), "ok", rng.choice(["crc", "replica", "ctrl"]), 2))
        elif r < 0.91:
            s.append(("lc", P.LRTY, 0))
        elif r < 0.95:
            s.append(("wait", rng.randint(1, 15)))
        elif downs and r < 0.975:
            s += [("quiet",), ("down",), ("wait", rng.randint(2, 20))] + tx_bringup(rng, rng.choice([2, 4]))
        else:
            s.append(("quiet",))
    s += [("quiet",)] + [("lc", P.LGOOD, "ok")] * 4 + [("quiet",)]
    return s


def tx_script_from_behaviour(beh, rng):
    """Env projection of a TLC behaviour of MCSsTx (numbers relative to what the DUT expects)."""
    s = []
    prev = beh[0][1]
    for _act, stv in beh[1:]:
        e = stv["ev"]
        k = e["e"]
        if k == "up":
            s.append(("up",))
        elif k == "dreset":
            s += [("domain_reset", rng.choice([1, 1, 3])), ("wait", 2)]
        elif k == "down":
            s += [("quiet",), ("down",), ("wait", 3)]
        elif k == "lgood":
            if not prev["bringup"]:
                s.append(("lc", P.LGOOD, e["n"]))
            else:
                s.append(("lc", P.LGOOD, ("rel", (e["n"] - prev["nextAck"]) % 8), None, rng.choice([0, 1, 2])))
        elif k == "lcrd":
            s.append(("lc", P.LCRD, ("rel", (e["x"] - prev["letter"]) % 4), None, rng.choice([0, 1, 2])))
        elif k == "lbad":
            s.append(("lc", P.LBAD, "ok", None, rng.choice([0, 1, 4])))
        elif k == "acc":
            s.append(("offer", {}, 30))
        elif k == "quiet":
            s.append(("quiet",))
        elif k in ("hps", "hpe", "retry_req", "recov", "lrty_done"):
            s.append(("wait", rng.choice([0, 1, 4])))
        prev = stv
    s.append(("quiet",))
    return s


def tx_sweeps(bench, rep, quick):
    """Systematic one-cycle alignments: a partner / protocol-layer event at every cycle offset around the DUT's
    own activity (queue acceptance, HPSTART presentation, last header word) found by a probe run."""
    import random
    out = []
    base = [("up",), ("lc", P.LGOOD, 3), ("lc", P.LCRD, "ok"), ("lc", P.LCRD, "ok"), ("lc", P.LCRD, "ok"),
            ("wait", 4), ("offer", {}, 30), ("wait", 2), ("offer", {}, 30), ("wait", 40),
            ("quiet",), ("lc", P.LGOOD, "ok"), ("lc", P.LGOOD, "ok"), ("lc", P.LGOOD, "ok"), ("lc", P.LCRD, "ok"),
            ("offer", {}, 30), ("quiet",), ("lc", P.LGOOD, "ok"), ("lc", P.LGOOD, "ok"), ("quiet",)]
    for stall_p, seed in ((0.0, 1), (0.4, 2)) if quick else ((0.0, 1), (0.4, 2), (0.25, 3), (0.5, 4)):
        seed = rep.seed * 100 + seed
        tr0, info0 = bench.run(base, random.Random(seed), stall_p=stall_p)
        out.append((tr0, {"origin": "sweep-base", "stall_p": stall_p}))
        anchors = []
        for a in info0["acc_t"][:2]:
            anchors.append(("acc", a))
        for hs, he in info0["hp"][:2]:
            anchors.append(("hps", hs))
            anchors.append(("hpe", he))
        events = [("lc", P.LBAD, "ok"), ("lc", P.LGOOD, "ok"), ("lc", P.LCRD, "ok"), ("offer_nowait", {})]
        for name, t in anchors:
            for d in range(-4, 6):
                for evx in events:
                    c = t + d - (1 if evx[0] == "lc" else 0)      # a link command *arrives* with its 2nd word
                    if c < 18:
                        continue
                    tr, info = bench.run(base, random.Random(seed), stall_p=stall_p, timeline={c: [evx]}, clean=False)
                    out.append((tr, {"origin": "sweep", "anchor": name, "offset": d, "event": str(evx[:2]),
                                     "stall_p": stall_p}))
                    rep.nontriv(("sweep", name, d, str(evx[:2]), stall_p))
    # (A) queue acceptance at every offset around the cycle retry_required strobes
    # (B) a second LBAD at every offset around the retransmitted header packets
    pre = [("up",), ("lc", P.LGOOD, 6), ("lc", P.LCRD, "ok"), ("lc", P.LCRD, "ok"), ("lc", P.LCRD, "ok"),
           ("lc", P.LCRD, "ok"), ("offer", {}, 30), ("offer", {}, 30), ("wait", 24)]
    post = [("wait", 60), ("quiet",), ("lc", P.LGOOD, "ok"), ("lc", P.LGOOD, "ok"), ("lc", P.LGOOD, "ok"),
            ("lc", P.LGOOD, "ok"), ("quiet",)]
    base2 = pre + [("lc", P.LBAD, "ok")] + post
    # every stall pattern over the five words of a header packet (first transmissions and retransmissions)
    for mask in range(1, 32):
        tr, info = bench.run(base2, random.Random(rep.seed + 9), timeline={1: [("stallmask", mask)]})
        out.append((tr, {"origin": "stall-mask", "mask": mask}))
        rep.nontriv(("stall-mask", mask))
    for stall_p, seed in ((0.0, 5), (0.4, 6)):
        seed = rep.seed * 100 + seed
        tr0, info0 = bench.run(base2, random.Random(seed), stall_p=stall_p)
        out.append((tr0, {"origin": "sweep-base2", "stall_p": stall_p}))
        t_lbad = info0["lbad_t"][0]
        for d in range(-3, 6):
            for n in (1, 2):
                tl = {t_lbad + d: [("offer_nowait", {})]}
                if n == 2:
                    tl[t_lbad + d + 1] = [("offer_nowait", {})]
                tr, info = bench.run(base2, random.Random(seed), stall_p=stall_p, timeline=tl, clean=False)
                out.append((tr, {"origin": "sweep-accept-vs-retry", "offset": d, "offers": n, "stall_p": stall_p}))
                rep.nontriv(("sweep-acc-retry", d, n, stall_p))
        retx = [hp for hp in info0["hp"] if hp[0] > t_lbad]
        for hs, he in retx[:2]:
            for c in sorted(set(range(hs - 4, hs + 3)) | set(range((he or hs) - 2, (he or hs) + 4))):
                tr, info = bench.run(base2, random.Random(seed), stall_p=stall_p,
                                     timeline={c - 1: [("lc", P.LBAD, "ok")]}, clean=False)
                out.append((tr, {"origin": "sweep-lbad-vs-retransmission", "cycle": c, "hps": hs, "hpe": he,
                                 "stall_p": stall_p}))
                rep.nontriv(("sweep-lbad-retx", c - hs, stall_p))
    return out


def tx_classify(trace, matched, status, meta):
    k = matched if status != "ok" else matched + 1
    pre = trace[:k]
    pattern = "other"
    if status.startswith("env_"):
        raise tlc.TLCError("stimulus left the Env assumptions (%s) at step %d: %s" % (status, k, pre[-3:]))
    acc_t = [r["t"] for r in pre if r["e"] == "acc"]
    rr_t = [r["t"] for r in pre if r["e"] == "retry_req"]
    if any(a == r for a in acc_t for r in rr_t):
        pattern = "header_accepted_in_retry_cycle"
    else:
        # a retry_required strobe while a header packet of an earlier retry was in flight
        open_hp, retries, last_rr = False, 0, -9
        for r in pre:
            if r["e"] == "hps":
                open_hp = True
            elif r["e"] == "hpe":
                open_hp = False
            elif r["e"] == "down":
                retries = 0
            elif r["e"] == "retry_req":
                if open_hp and retries > 0:
                    pattern = "lbad_during_retransmission"
                retries += 1
                last_rr = r["t"]
            if r["e"] == "hps" and retries > 1 and r["t"] == last_rr + 1:
                pattern = "lbad_during_retransmission"     # latched in the cycle the strobe arrived
    return {"clause": status, "pattern": pattern}


def _tx_nontriv(rep, trace):
    for r in trace:
        e = r["e"]
        if e == "hpe":
            f = P.parse_dw3(r["w"][6] | (r["w"][7] << 16))
            rep.nontriv(("hpe", f["seq"], f["dl"]))
        elif e == "lc_rx":
            pc = P.parse_link_command_word(r["lo"] | (r["hi"] << 16))
            rep.nontriv(("lc_rx", pc["cmd"], pc["sub"], pc["ok"]))
        elif e in ("acc", "retry_req", "recov", "lrty_done", "down"):
            rep.nontriv((e,))


TX_MC = {"quick": [(4, 5, 2, "{0, 1}")],
         "thorough": [(2, 3, 2, "{0, 1, 2}"), (4, 6, 2, "{0, 1}")]}                               # 6 k + 108 k states

META["C39"] = {
    "text": "Event-grain TLA+ reference of USB3 header transmission [USB3.2 7.2.4.1] (credits, next sequence number, "
            "queue of unacknowledged headers, send pointer, retry window, void window between LBAD and our LRTY): TLC "
            "explores every interleaving of partner LGOOD/LCRD (matching and mismatching), LBAD, LRTY completion, queue "
            "acceptances, header transmissions and link-down and proves credit, numbering, retirement and ordering "
            "theorems; the real PacketTransmitter is driven word by word (TLC-generated, seeded-random and systematic "
            "one-cycle-offset histories) and every acceptance, transmitted header (decoded and CRC-checked by TLC), "
            "retry / recovery strobe and queue.ready is validated by TLC.",
    "note": "Assumes lrty_pending behaves as HeaderPacketReceiver drives it in USB3LinkLayer (rises the cycle after "
            "retry_required, falls after the LRTY, which the arbiter never sends while the transmitter holds the PHY), "
            "the partner acknowledges only completely transmitted headers and never over-credits; header packets "
            "started between an LBAD and our LRTY are void (ignored by the partner) and only required to be copies "
            "of unacknowledged headers. Data payloads are not examined (C36/C40).",
    "technique": "TLA+ obligation model, TLC exhaustive + offset sweeps + batch trace validation of pysim event traces",
    "design_ref": "DESIGN.md §5 C39",
}


def check_C39(rep):
    quick = rep.tier == "quick"
    rep.rule = ("events of real PacketTransmitter runs validated by TLC against SsTx.tla; non-trivial = a transmitted "
                "header (sequence, DL), a partner link command (command, number, validity), an acceptance, a retry / "
                "recovery strobe, or a sweep point (anchor, offset, event, stall pattern)")
    rep.assume("lrty_pending rises the cycle after retry_required and falls 3..12 cycles later, never while a header "
               "packet is being transmitted (USB3LinkLayer's arbiter); PHY stalls last at most %d cycles per word" % MAX_STALL)
    rep.assume("a matching LGOOD only acknowledges a completely transmitted header; matching LCRDs never exceed "
               "4 credits + occupied buffers; mismatching LGOOD/LCRD may arrive at any time and must raise recovery_required")
    rep.assume("header packets started between the arrival of an LBAD and the completion of our LRTY are void: they "
               "must be copies of unacknowledged headers, nothing else is demanded of them")
    rep.assume("everything accepted must have been transmitted (and, after an LBAD, retransmitted) by the time the "
               "source has been idle for %d cycles; no other latency is constrained" % QUIET_CYCLES)
    ph = _Phase(rep)
    for nbuf, maxacc, maxep, nums in TX_MC[rep.tier]:
        cfg = tlc.render_cfg(_cfg("MCSsTx.cfg.tmpl"), {"NBuf": nbuf, "MaxAccepted": maxacc, "MaxEpochs": maxep,
                                                       "Numbers": nums})
        res = tlc.model_check(SPEC_DIR, "MCSsTx", cfg, workers=8, timeout=1500)
        rep.add_mc("MCSsTx NBuf=%d MaxAccepted=%d MaxEpochs=%d Numbers=%s" % (nbuf, maxacc, maxep, nums), res,
                   {"NBuf": nbuf, "MaxAccepted": maxacc, "MaxEpochs": maxep, "Numbers": nums})

    ph.mark("model-check")
    bench = TxBench()
    items = []
    sim_cfg = tlc.render_cfg(_cfg("MCSsTx.cfg.tmpl"), {"NBuf": 4, "MaxAccepted": 1000, "MaxEpochs": 1000,
                                                       "Numbers": "{0, 0, 0, 0, 1, 2}"})
    sim_cfg = "\n".join(l for l in sim_cfg.splitlines() if not l.startswith(("PROPERTY", "VIEW", "CONSTRAINT")))
    behs = tlc.simulate(SPEC_DIR, "MCSsTx", sim_cfg, num=40 if quick else 300, depth=70, seed=rep.seed * 17 + 1)
    for i, b in enumerate(behs):
        tr, info = bench.run(tx_script_from_behaviour(b, rep.rng), rep.rng, stall_p=rep.rng.choice([0, 0.3]))
        items.append((tr, {"origin": "tlc-simulate", "n": i}))
    for i in range(70 if quick else 700):
        tr, info = bench.run(tx_random_script(rep.rng, 30 if quick else 50, downs=(i % 3 == 0)), rep.rng,
                             stall_p=rep.rng.choice([0, 0, 0.2, 0.5]), bubble_p=rep.rng.choice([0, 0, 0.1]),
                             lrty_delay=rep.rng.choice([(3, 4), (3, 12), (10, 30)]))
        items.append((tr, {"origin": "random", "n": i}))
    items += tx_sweeps(bench, rep, quick)
    # the `ss` clock-domain reset mid-operation (idle, header queued, header in flight, during a retry)
    for i in range(10 if quick else 60):
        n = 4 + i % 9
        script = tx_bringup(rep.rng, 4) + [("offer", {}, 30), ("offer", {}, 30), ("wait", n)] + \
            ([("lc", P.LBAD, "ok"), ("wait", i % 7)] if i % 2 else []) + [("domain_reset", 1 + i % 3), ("wait", 3)] + \
            tx_bringup(rep.rng, 2)[1:] + [("offer", {}, 30), ("quiet",), ("lc", P.LGOOD, "ok"), ("quiet",)]
        tr, info = bench.run(script, rep.rng, stall_p=rep.rng.choice([0, 0.4]))
        items.append((tr, {"origin": "domain-reset", "n": i}))
        rep.nontriv(("domain-reset", n, i % 2, 1 + i % 3))
    # other constructor configurations: buffer_count and ss_clock_frequency (credit timeout in cycles)
    alt_groups = []
    cfgs = _rotate(TX_ALT_CONFIGS[:3], rep.seed, 1) if quick else list(TX_ALT_CONFIGS)
    for nb, freq in cfgs:
        b2 = TxBench(buffer_count=nb, ss_clock_frequency=freq)
        g = []
        fill = tx_bringup(rep.rng, nb) + [("offer", {}, 30)] * (nb + 1) + [("quiet",)] + \
            [("lc", P.LGOOD, "ok"), ("lc", P.LCRD, "ok"), ("offer", {}, 30)] * (2 * nb + 9) + \
            [("lc", P.LBAD, "ok"), ("quiet",)] + [("lc", P.LGOOD, "ok")] * nb + [("quiet",)]
        g.append((b2.run(fill, rep.rng)[0], {"origin": "config-use-all-credits-and-wrap", "buffer_count": nb,
                                             "ss_clock_frequency": freq}))
        for i in range((4 if nb & (nb - 1) else 12) if quick else 40):
            tr, info = b2.run(tx_random_script(rep.rng, 30, downs=(i % 3 == 0)), rep.rng,
                              stall_p=rep.rng.choice([0, 0.3]))
            g.append((tr, {"origin": "config-random", "buffer_count": nb, "ss_clock_frequency": freq, "n": i}))
        for tr, _ in g:
            _tx_nontriv(rep, tr)
        rep.nontriv(("config", nb, freq))
        rep.add_eval(b2.cycles)
        alt_groups.append((nb, b2.timeout_cycles, g))
    # the credit timer at a clock where it is reached: 20 kHz -> 101 cycles
    b3 = TxBench(ss_clock_frequency=TX_TIMEOUT_FREQ)
    T = b3.timeout_cycles
    g = []
    for i, (w1, w2) in enumerate([(T + 12, 0), (T // 2, T + 12), (T - 30, 0), (T + 12, 5)] if quick else
                                 [(T + 12, 0), (T // 2, T + 12), (T - 30, 0), (T + 12, 5), (T // 3, T + 12), (T - 8, 0),
                                  (T + 2, 0), (10, T + 12)]):
        script = tx_bringup(rep.rng, 4) + [("offer", {}, 30), ("offer", {}, 30), ("wait", w1), ("lc", P.LGOOD, "ok")] + \
            ([("wait", w2)] if w2 else []) + [("lc", P.LGOOD, "ok"), ("quiet",), ("down",), ("wait", 4)] + \
            tx_bringup(rep.rng, 2) + [("offer", {}, 30), ("wait", 20), ("down",), ("wait", T + 20)] + \
            tx_bringup(rep.rng, 2) + [("quiet",)]
        tr, info = b3.run(script, rep.rng, stall_p=0.3 if i % 2 else 0.0)
        g.append((tr, {"origin": "credit-timeout", "ss_clock_frequency": TX_TIMEOUT_FREQ, "timeout_cycles": T,
                       "waits": (w1, w2)}))
        rep.nontriv(("credit-timeout", w1, w2))
    for tr, _ in g:
        _tx_nontriv(rep, tr)
    rep.add_eval(b3.cycles)
    alt_groups.append((4, T, g))
    for tr, _ in items:
        _tx_nontriv(rep, tr)
    rep.add_eval(bench.cycles)
    rep.sample({"origin": items[0][1], "first_events": items[0][0][:12]})
    cfg = tlc.render_cfg(_cfg("SsTxTrace.cfg.tmpl"), {"NBuf": 4, "Timeout": 0})
    ph.mark("simulate+drive (%d traces, %d cycles)" % (len(items), bench.cycles))
    validate_group(rep, SPEC_DIR, "SsTxTrace", cfg, items, classify=tx_classify, what_prefix="PacketTransmitter ",
                   chunk=2000)
    for nb, tmo, g in alt_groups:
        cfg = tlc.render_cfg(_cfg("SsTxTrace.cfg.tmpl"), {"NBuf": nb, "Timeout": tmo})
        validate_group(rep, SPEC_DIR, "SsTxTrace", cfg, g, classify=tx_classify,
                       what_prefix="PacketTransmitter(buffer_count=%d, credit timeout %d cycles) " % (nb, tmo), chunk=2000)
    ph.mark("trace-validation")
    ph.done()


CHECKS["C39"] = check_C39


def rx_event_sweeps(bench, rep, quick):
    """Partner / protocol-layer events at every cycle offset around each of the DUT's own link-command
    transmissions (probe run), each followed by a drain + quiescence check."""
    import random
    out = []
    base = [("up",), ("wait", 24), ("hdr", "good", 0, {"gap": 2}), ("wait", 10), ("consume", 1), ("wait", 12),
            ("hdr", "bad16", 0, {"gap": 2}), ("wait", 10), ("lrty",), ("wait", 3), ("hdr", "good", 0, {"gap": 2}),
            ("wait", 10), ("retry_req",), ("wait", 8), ("ka_req",), ("wait", 8),
            ("quiet",), ("consume", 4), ("quiet",)]
    events = [("hdr", "good", 0), ("hdr", "bad5", 0), ("qready", 1), ("pulse", "retry_req"), ("pulse", "ka_req"),
              ("stall", 2), ("lrty",)]
    for stall_p, sd in ((0.0, 1),) if quick else ((0.0, 1), (0.35, 2)):
        seed = rep.seed * 77 + sd
        tr0, info0 = bench.run(base, random.Random(seed), stall_p=stall_p)
        out.append((tr0, {"origin": "event-sweep-base", "stall_p": stall_p}))
        for s, e, w in info0["tx"]:
            if e is None:
                continue
            cmd = P.parse_link_command_word(w)
            for c in range(s - 3, e + 3) if not quick else range(s - 2, e + 2):
                for evx in events:
                    if quick and evx[0] in ("stall", "lrty", "pulse") and (c - s) % 2:
                        continue
                    # a header *arrives* with its 5th word (plus the separating idle word)
                    at = c - 5 if evx[0] == "hdr" else (c - 1 if evx[0] == "lrty" else c)
                    if at < 2:
                        continue
                    tr, info = bench.run(base, random.Random(seed), stall_p=stall_p, timeline={at: [evx]})
                    out.append((tr, {"origin": "event-sweep", "event": str(evx), "cmd": P.LC_NAMES.get(cmd["cmd"]),
                                     "sub": cmd["sub"], "offset": c - s, "stall_p": stall_p}))
                    rep.nontriv(("event-sweep", str(evx), cmd["cmd"], cmd["sub"], c - s, stall_p))
    return out
