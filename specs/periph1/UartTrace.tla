----------------------------- MODULE UartTrace -----------------------------
(***************************************************************************)
(* Trace validation for Uart.  A trace is                                  *)
(*   [cfg |-> [D, W], steps |-> << [n, v, d, rdy, tx, idle], ... >>]       *)
(* event-compressed from power-on: each record stands for n consecutive    *)
(* clock cycles with identical stream inputs (v = valid, d = payload as    *)
(* 16-bit limbs) and identical observed outputs (rdy = stream.ready, tx,   *)
(* idle); cycles with v /\ rdy are never merged (n = 1).                   *)
(***************************************************************************)
EXTENDS Uart, TLC, TLCExt, Json, IOUtils

Logs == JsonDeserialize(IOEnv.TRACE_FILE)

VARIABLES tid, l, status
tvars == <<vars, tid, l, status>>

ASSUME \A i \in 1..Len(Logs) : TLCSet(i, <<0, "ok">>)

TInit == /\ tid \in 1..Len(Logs)
         /\ l = 1
         /\ status = "ok"
         /\ InitCfg(Logs[tid].cfg.D, Logs[tid].cfg.W)

TNext == /\ status = "ok"
         /\ l <= Len(Logs[tid].steps)
         /\ LET r == Logs[tid].steps[l]
                o == Outcome(r.n, r.v, r.d, r.rdy, r.tx) IN
              \* `idle` is documented as "a new transmission can be started": an idle transmitter accepts
              /\ status' = (IF o.err # "ok" THEN o.err
                            ELSE IF r.idle /\ ~r.rdy THEN "idle_but_not_ready" ELSE "ok")
              /\ IF o.err = "ok" THEN RunR(r.n, r.v, r.d, r.rdy, r.tx, o) ELSE UNCHANGED vars
         /\ l' = l + 1
         /\ UNCHANGED tid

TSpec == TInit /\ [][TNext]_tvars

TraceProp == OrderPreserved /\ FrameExact /\ IdlesHigh /\ SchedOK

\* at the end of a trace nothing may be left unsent (the harness lets the line drain)
Drained == (l = Len(Logs[tid].steps) + 1 /\ status = "ok") => (pend = <<>> /\ bits = <<>>)

Progress == TLCSet(tid, <<l - 1, IF ~TraceProp THEN "prop_invariant"
                                 ELSE IF ~Drained THEN "not_drained" ELSE status>>)

Verdicts == JsonSerialize(IOEnv.VERDICT_FILE, [i \in 1..Len(Logs) |-> TLCGet(i)])
=============================================================================
