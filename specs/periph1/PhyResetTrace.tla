--------------------------- MODULE PhyResetTrace ---------------------------
(***************************************************************************)
(* Trace validation for PhyReset.  A trace is                              *)
(*   [cfg |-> [R, S, por], steps |-> << [t, x, r, s], ... >>]              *)
(* one record per clock cycle from power-on: t = trigger input, x = reset   *)
(* of the clock domain asserted in that cycle, r / s =                     *)
(* phy_reset / phy_stop observed in that cycle.  The observed outputs name *)
(* the phase of the cycle; it must be one the reference allows.            *)
(***************************************************************************)
EXTENDS PhyReset, Sequences, TLC, TLCExt, Json, IOUtils

Logs == JsonDeserialize(IOEnv.TRACE_FILE)

VARIABLES tid, l, status
tvars == <<vars, tid, l, status>>

ASSUME \A i \in 1..Len(Logs) : TLCSet(i, <<0, "ok">>)

PhaseOf(rec) == IF rec.r /\ rec.s THEN "reset"
                ELSE IF rec.s THEN "stop"
                ELSE IF ~rec.r THEN "idle"
                ELSE "reset_without_stop"

\* Name of the clause that forbids showing phase p now.
Failing(p) ==
    IF p \in Allowed THEN "ok"
    ELSE IF p = "reset_without_stop" THEN "stop_not_asserted_during_reset"
    ELSE IF rst THEN (IF por THEN "no_power_on_reset_after_domain_reset" ELSE "not_idle_after_domain_reset")
    ELSE IF ph = "boot" THEN (IF por THEN "no_power_on_reset" ELSE "unrequested_power_on_reset")
    ELSE IF ph = "reset" THEN (IF cnt < R THEN "reset_too_short"
                               ELSE IF p = "reset" THEN "reset_too_long" ELSE "stop_missing")
    ELSE IF ph = "stop" THEN (IF cnt < S THEN "stop_too_short" ELSE "stop_too_long")
    ELSE IF p = "reset" THEN "spurious_reset"
    ELSE IF p = "stop" THEN "spurious_stop"
    ELSE "trigger_ignored"

TInit == /\ tid \in 1..Len(Logs)
         /\ l = 1
         /\ status = "ok"
         /\ InitCfg(Logs[tid].cfg.R, Logs[tid].cfg.S, Logs[tid].cfg.por)

TNext == /\ status = "ok"
         /\ l <= Len(Logs[tid].steps)
         /\ LET rec == Logs[tid].steps[l]
                p   == PhaseOf(rec) IN
              /\ status' = Failing(p)
              /\ IF p \in Allowed THEN Step(rec.t, rec.x, p) ELSE UNCHANGED vars
         /\ l' = l + 1
         /\ UNCHANGED tid

TSpec == TInit /\ [][TNext]_tvars

TraceProp == StopCoversReset /\ ResetNeverLonger /\ StopNeverLonger

Progress == TLCSet(tid, <<l - 1, IF TraceProp THEN status ELSE "prop_invariant">>)

Verdicts == JsonSerialize(IOEnv.VERDICT_FILE, [i \in 1..Len(Logs) |-> TLCGet(i)])
=============================================================================
