-------------------------- MODULE MCIdleHandshake --------------------------
(* Bounded instance of IdleHandshake: every enable / word-class schedule; the *)
(* property restated over the full (bounded) history of the behaviour.        *)
EXTENDS IdleHandshake, TLC

CONSTANT MaxCycles
VARIABLES h, in, hist
vars == <<h, in, hist>>

IdleW    == W(<<0, 0, 0, 0>>, 0)
Words == { IdleW,                                         \* valid logical idle
           [IdleW EXCEPT !.v = FALSE],                    \* not valid, shows zeroes
           W(<<0, 0, 0, 0>>, 8) }                         \* valid, but a K symbol (value 0): not logical idle
Init == h = HsInit /\ in = [en |-> FALSE, iw |-> NoWord, cpl |-> FALSE, rst |-> FALSE] /\ hist = <<>>

Cycle(en, w) ==
    \E cpl \in {TRUE, FALSE} :
       LET r == [en |-> en, iw |-> w, cpl |-> cpl, rst |-> FALSE] IN
       /\ HsFailing(h, r) = "ok"
       /\ h' = HsNext(h, r)
       /\ in' = r
       /\ hist' = Append(hist, r)
Enabled  == Len(hist) < MaxCycles /\ \E w \in Words : Cycle(TRUE, w)
Disabled == Len(hist) < MaxCycles /\ \E w \in Words : Cycle(FALSE, w)
Next == Enabled \/ Disabled
Spec == Init /\ [][Next]_vars

-----------------------------------------------------------------------------
(* Prop: whenever `complete` is shown in the newest cycle n,                  *)
(*  - the handler has been enabled in cycles s..n for some s <= n - 4 (16 symbols sent), and *)
(*  - some cycle j in s..n and an earlier cycle i < j carry valid idle words with only       *)
(*    not-valid words in between (8 consecutive idle symbols received by cycle j).           *)
N == Len(hist)
EnabledSince(s0) == \A k \in s0..N : hist[k].en
CompleteOnlyWhenEarned ==
    (N > 0 /\ hist[N].cpl) =>
       \E s0 \in 1..N :
          /\ EnabledSince(s0) /\ N - s0 >= TxCyclesNeeded
          /\ \E j \in s0..N : \E i \in 1..(j - 1) :
                /\ IsIdleWord(hist[i].iw) /\ IsIdleWord(hist[j].iw)
                /\ \A k \in (i + 1)..(j - 1) : ~hist[k].iw.v
=============================================================================
