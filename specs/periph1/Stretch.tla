------------------------------ MODULE Stretch ------------------------------
(***************************************************************************)
(* Reference specification of luna.gateware.utils.cdc.stretch_strobe_signal *)
(* (property C55), written from the function's doc-string and the property. *)
(*                                                                         *)
(* Grain: one step = one clock cycle.                                      *)
(*   Env  : the strobe input of the cycle (any value in any cycle) and the  *)
(*          reset of the clock domain (any cycle, any length): it wipes the *)
(*          memory of earlier strobes (ghost `hist` is cut there too).      *)
(*   Ref  : a hold-off counter `rem` ("cycles the output still has to stay *)
(*          high, this one included"), re-armed by every strobe.           *)
(*   Prop : the property as a statement over the *history* of strobes      *)
(*          (ghost `hist`): the output is high exactly in the N cycles     *)
(*          that start at a strobe (one cycle later when delayed).         *)
(*                                                                         *)
(* Freedom: when a delay is *allowed* the stretched pulse may start in the *)
(* strobe's own cycle or one cycle later (the same choice for the whole    *)
(* life of one instance).  OutFor(d) is the output for delay d.            *)
(***************************************************************************)
EXTENDS Naturals, Sequences

CONSTANT MaxN         \* largest stretch length considered

VARIABLES n,          \* configuration: to_cycles
          allowDelay, \* configuration: allow_delay
          rem,        \* Ref: cycles (this one included) the undelayed output must stay high
          out0,       \* Ref: undelayed output of the cycle just taken
          out1,       \* Ref: delayed output of the cycle just taken (= out0 one cycle earlier)
          strobe,     \* Env: input applied in the cycle just taken
          rst,        \* Env: the clock domain's reset was asserted in the cycle just taken
          hist        \* ghost: the last MaxN+1 inputs, newest first

vars == <<n, allowDelay, rem, out0, out1, strobe, rst, hist>>

Min(a, b) == IF a < b THEN a ELSE b

Configs == (1..MaxN) \X BOOLEAN

InitCfg(nn, ad) ==
    /\ n = nn /\ allowDelay = ad
    /\ rem = 0 /\ out0 = FALSE /\ out1 = FALSE
    /\ strobe = FALSE /\ rst = FALSE /\ hist = <<>>

Init == \E c \in Configs : InitCfg(c[1], c[2])

\* One clock cycle with strobe input s and domain-reset input x.  A domain reset asserted in a cycle
\* wipes the stretcher's memory at the end of that cycle: the next cycle only sees its own strobe.
Step(s, x) ==
    LET base == IF rst THEN 0 ELSE rem
        r    == IF s THEN n ELSE IF base > 0 THEN base - 1 ELSE 0
    IN /\ strobe' = s
       /\ rst' = x
       /\ rem' = r
       /\ out0' = (r > 0)
       /\ out1' = (~rst /\ out0)
       /\ hist' = <<s>> \o (IF rst THEN <<>> ELSE SubSeq(hist, 1, Min(Len(hist), MaxN)))
       /\ UNCHANGED <<n, allowDelay>>

Next == \E s \in BOOLEAN, x \in BOOLEAN : Step(s, x)

Spec == Init /\ [][Next]_vars

\* the delays the configuration permits, and the output under delay d
Delays == IF allowDelay THEN {0, 1} ELSE {0}
OutFor(d) == IF d = 0 THEN out0 ELSE out1

-----------------------------------------------------------------------------
(* Prop *)
TypeOK == /\ n \in 1..MaxN /\ allowDelay \in BOOLEAN /\ rem \in 0..n
          /\ out0 \in BOOLEAN /\ out1 \in BOOLEAN /\ strobe \in BOOLEAN
          /\ Len(hist) <= MaxN + 1

\* A strobe k-1 cycles ago (k = 1: this cycle).
StrobeAgo(k) == k <= Len(hist) /\ hist[k]

\* High in every cycle within n cycles after a strobe, low otherwise.
WindowUndelayed == out0 = (\E k \in 1..n : StrobeAgo(k))
\* ... starting one cycle later when delayed.
WindowDelayed   == out1 = (\E k \in 2..(n + 1) : StrobeAgo(k))

\* A strobe during a stretched pulse restarts the full length (no re-trigger is dropped).
RetriggerRestarts == [][strobe' => rem' = n]_vars
\* Without a strobe the pulse ends after exactly n cycles: the hold-off only counts down.
CountsDown == [][~strobe' => rem' = (IF rem > 0 /\ ~rst THEN rem - 1 ELSE 0)]_vars
=============================================================================
