------------------------------- MODULE UlpiTx -------------------------------
(***************************************************************************)
(* C23 — ULPI transmit translation (UTMITranslator transmit path).         *)
(*                                                                         *)
(* Grain: one step = one ULPI clock cycle.                                 *)
(*   Env  : (a) the UTMI-side transmitter: raises tx_valid with the first  *)
(*          byte, holds tx_valid/tx_data until the cycle after tx_ready    *)
(*          was high, drops tx_valid in the cycle after the last byte was  *)
(*          accepted; op_mode is constant over a transmission.             *)
(*          (b) the ULPI PHY: asserts NXT (with DIR low) only while it is  *)
(*          owed a byte — after it saw a command byte, until STP — with    *)
(*          any throttling; may raise DIR at any time except inside the    *)
(*          data phase of a transmit (then the link must retry).           *)
(*   Ref  : the link's transmit state (idle / cmd / data, or `other` while *)
(*          a register command occupies the bus) and, per cycle, the set   *)
(*          of allowed outputs (data.o, data.oe, stp, tx_ready):           *)
(*            cmd  : data.o = 0x40 | PID nibble (op_mode # 2) or 0x40      *)
(*                   (NOPID, op_mode = 2) held until NXT; tx_ready = NXT   *)
(*                   only in PID mode (the PID byte travels in the TXCMD); *)
(*            data : data.o = the current UTMI byte, tx_ready = NXT;       *)
(*                   when tx_valid is low: STP with 0x00 (0xFF if NOPID);  *)
(*            always: data.oe = ~DIR; no STP / tx_ready outside those.     *)
(*          The only freedom is the start latency (<= MaxStart idle-bus    *)
(*          cycles between tx_valid and the TXCMD).                        *)
(*   Prop : ghosts utmiAcc / phyAcc (bytes accepted from UTMI / by the     *)
(*          PHY in this packet): on STP the PHY has received exactly       *)
(*          Encode(UTMI packet, op_mode).                                  *)
(***************************************************************************)
EXTENDS UlpiCommon

CONSTANTS MaxStart,     \* idle-bus cycles the link may take to present the TXCMD
          Startup       \* the link leaves the bus alone for this many cycles after reset (records with RESETB)

VARIABLES pdir,     \* DIR of the previous cycle
          ts,       \* link transmit state: "idle" | "cmd" | "data" | "other"
          pphase,   \* Env: PHY protocol phase after the last cycle: "idle" | "wait" | "txd" | "rwd" | "rws"
          hold,     \* Env: previous cycle's UTMI side [v, d, r, m] (tx_valid, tx_data, tx_ready, op_mode)
          utmiAcc,  \* ghost: UTMI bytes accepted in the packet in progress
          phyAcc,   \* ghost: bytes the PHY accepted in the packet in progress (TXCMD first)
          startAge, \* consecutive idle-bus cycles with tx_valid high and no TXCMD yet
          sinceRst, \* cycles since reset, saturating at Startup
          npkts,    \* completed transmissions
          lastDone, \* ghost: [u, p, m] of the last completed transmission
          tin, tout, tchk

xvars == <<pdir, ts, pphase, hold, utmiAcc, phyAcc, startAge, sinceRst, npkts, lastDone, tin, tout, tchk>>

B(x) == IF x THEN 1 ELSE 0

NoPid(m) == m = OpModeNoBitStuff
ExpectedCmd(i) == IF NoPid(i.opm) THEN TxCmdNoPid ELSE TxCmdPid(i.txd)

\* what the PHY must have received for a UTMI packet u sent in op_mode m
Encode(u, m) == IF NoPid(m) THEN <<TxCmdNoPid>> \o u
                ELSE IF u = <<>> THEN <<>> ELSE <<TxCmdPid(u[1])>> \o Tail(u)

-----------------------------------------------------------------------------
(* Env legality of the inputs i = [dir, nxt, txv, txd, opm] of a cycle *)
LegalPhy(i) ==
    /\ (i.dir = 0 /\ pdir = 1) => i.nxt = 0
    /\ (i.dir = 0 /\ i.nxt = 1) => pphase \in {"wait", "txd", "rwd"}
    /\ (i.dir = 1 /\ pdir = 0) => pphase # "txd"             \* no DIR inside a transmit's data phase
LegalUtmi(i) ==
    /\ (hold.v = 1 /\ hold.r = 0) => (i.txv = 1 /\ i.txd = hold.d)      \* hold until accepted
    /\ (hold.v = 1 \/ ts \in {"cmd", "data"}) => i.opm = hold.m         \* op_mode constant over a transmission
    /\ (hold.v = 0 /\ i.txv = 1) => ts \in {"idle", "other"}
LegalIn(i) == LegalPhy(i) /\ LegalUtmi(i)

-----------------------------------------------------------------------------
(* Ref: first violated clause for outputs o = [do, oe, stp, txr] given inputs i *)
Failing(i, o) ==
    IF o.oe # 1 - i.dir THEN "oe_not_inverse_of_dir"
    ELSE IF sinceRst < Startup /\ i.dir = 0 /\ (CmdKind(o.do) = 1 \/ o.txr = 1) THEN "tx_before_phy_ready"
    ELSE IF ts \in {"idle", "other"} /\ i.txv = 1 /\ o.txr = 1 /\ ~(ts = "idle" /\ i.dir = 0 /\ pdir = 0 /\ CmdKind(o.do) = 1)
         THEN "tx_ready_without_phy"
    ELSE IF ts = "idle" THEN
        (IF o.stp = 1 THEN "stp_spurious"
         ELSE IF i.dir = 1 \/ pdir = 1 THEN "ok"       \* PHY owns the bus / turn-around cycle: data.o is not sampled
         ELSE IF CmdKind(o.do) = 1 THEN
             (IF i.txv = 0 THEN "txcmd_without_request"
              ELSE IF o.do # ExpectedCmd(i) THEN "txcmd_value"
              ELSE IF o.txr # B(i.nxt = 1 /\ ~NoPid(i.opm)) THEN "tx_ready_vs_nxt"
              ELSE "ok")
         ELSE IF CmdKind(o.do) = 0 /\ i.txv = 1 /\ pdir = 0 /\ startAge >= MaxStart THEN "tx_never_started"
         ELSE "ok")
    ELSE IF ts = "cmd" THEN
        (IF i.dir = 1 THEN (IF o.txr = 1 THEN "tx_ready_without_phy" ELSE IF o.stp = 1 THEN "stp_spurious" ELSE "ok")
         ELSE IF o.do # ExpectedCmd(i) THEN "txcmd_not_held"
         ELSE IF o.stp = 1 THEN "stp_early"
         ELSE IF o.txr # B(i.nxt = 1 /\ ~NoPid(i.opm)) THEN "tx_ready_vs_nxt"
         ELSE "ok")
    ELSE IF ts = "data" THEN
        (IF i.txv = 1 THEN
             (IF o.do # i.txd THEN "tx_data_not_presented"
              ELSE IF o.stp = 1 THEN "stp_early"
              ELSE IF o.txr # i.nxt THEN "tx_ready_vs_nxt"
              ELSE "ok")
         ELSE IF o.stp # 1 THEN "stp_missing"
         ELSE IF o.do # (IF NoPid(i.opm) THEN 255 ELSE 0) THEN "stp_data"
         ELSE "ok")
    ELSE "ok"

NoTIn  == [dir |-> 0, nxt |-> 0, txv |-> 0, txd |-> 0, opm |-> 0]
NoTOut == [do |-> 0, oe |-> 1, stp |-> 0, txr |-> 0]

TxInit == /\ pdir = 0 /\ ts = "idle" /\ pphase = "idle"
          /\ hold = [v |-> 0, d |-> 0, r |-> 0, m |-> 0]
          /\ utmiAcc = <<>> /\ phyAcc = <<>> /\ startAge = 0 /\ sinceRst = 0 /\ npkts = 0
          /\ lastDone = [u |-> <<>>, p |-> <<>>, m |-> 0]
          /\ tin = NoTIn /\ tout = NoTOut /\ tchk = "ok"

(* One clock cycle. *)
TxStep(i, o) ==
    LET owns   == i.dir = 0
        isCmd1 == ts = "idle" /\ owns /\ pdir = 0 /\ CmdKind(o.do) = 1            \* TXCMD presented (first cycle)
        inCmd  == (ts = "cmd" /\ owns) \/ isCmd1
        cmdAcc == inCmd /\ i.nxt = 1
        inData == ts = "data"
        datAcc == inData /\ i.txv = 1 /\ i.nxt = 1
        ends   == inData /\ i.txv = 0
        ts1    == IF i.dir = 1 THEN "idle"
                  ELSE IF ts = "idle" THEN
                        (IF pdir = 1 THEN "idle"
                         ELSE IF CmdKind(o.do) = 1 THEN (IF i.nxt = 1 THEN "data" ELSE "cmd")
                         ELSE IF CmdKind(o.do) >= 2 THEN "other" ELSE "idle")
                  ELSE IF ts = "cmd" THEN (IF i.nxt = 1 THEN "data" ELSE "cmd")
                  ELSE IF ts = "data" THEN (IF ends THEN "idle" ELSE "data")
                  ELSE (IF o.stp = 1 THEN "idle" ELSE "other")
        pp1    == IF i.dir = 1 THEN "idle"
                  ELSE IF pphase = "idle" THEN
                        (IF pdir = 0 /\ o.oe = 1 /\ CmdKind(o.do) # 0 THEN "wait" ELSE "idle")
                  ELSE IF pphase = "wait" THEN
                        (IF i.nxt = 1 THEN
                            (IF CmdKind(o.do) = 1 THEN (IF o.stp = 1 THEN "idle" ELSE "txd")
                             ELSE IF CmdKind(o.do) = 2 THEN "rwd" ELSE "idle")
                         ELSE IF CmdKind(o.do) = 0 THEN "idle" ELSE "wait")
                  ELSE IF pphase = "txd" THEN (IF o.stp = 1 THEN "idle" ELSE "txd")
                  ELSE IF pphase = "rwd" THEN (IF i.nxt = 1 THEN "rws" ELSE "rwd")
                  ELSE "idle"
    IN /\ tchk' = Failing(i, o)
       /\ tin' = i /\ tout' = o
       /\ pdir' = i.dir
       /\ ts' = ts1
       /\ pphase' = pp1
       /\ hold' = [v |-> i.txv, d |-> i.txd, r |-> o.txr, m |-> i.opm]
       /\ utmiAcc' = IF ends \/ i.dir = 1 THEN <<>>
                     ELSE IF cmdAcc THEN (IF NoPid(i.opm) THEN <<>> ELSE <<i.txd>>)
                     ELSE IF datAcc THEN Append(utmiAcc, i.txd) ELSE utmiAcc
       /\ phyAcc' = IF ends \/ i.dir = 1 THEN <<>>
                    ELSE IF cmdAcc THEN <<o.do>>
                    ELSE IF datAcc THEN Append(phyAcc, o.do) ELSE phyAcc
       /\ startAge' = IF ts = "idle" /\ owns /\ pdir = 0 /\ i.txv = 1 /\ CmdKind(o.do) = 0 THEN startAge + 1 ELSE 0
       /\ sinceRst' = Min(sinceRst + 1, Startup)
       /\ npkts' = IF ends THEN npkts + 1 ELSE npkts
       /\ lastDone' = IF ends THEN [u |-> utmiAcc, p |-> phyAcc, m |-> i.opm] ELSE lastDone

-----------------------------------------------------------------------------
(* Prop *)
\* every completed transmission reached the PHY as TXCMD + remaining bytes, unchanged
PacketDelivered == lastDone.p = Encode(lastDone.u, lastDone.m)
\* while a packet is in flight the PHY has exactly the encoding of what UTMI handed over
InFlightConsistent == ts = "data" => phyAcc = Encode(utmiAcc, hold.m)
TxRefAllowed == tchk = "ok"
=============================================================================
