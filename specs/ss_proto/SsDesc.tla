------------------------------- MODULE SsDesc -------------------------------
(***************************************************************************)
(* C48 (second half) -- SuperSpeed GET_DESCRIPTOR responses                *)
(* (luna.gateware.usb.usb3.application.descriptor.GetDescriptorHandler)    *)
(*                                                                         *)
(* Written from the property and the handler's doc-string: a request       *)
(* (start strobe) with wValue = type<<8 | index and wLength is answered    *)
(* with the first min(wLength, len) bytes of that descriptor on the 32-bit *)
(* tx stream (little endian, `first` on the first beat, `last` on the last,*)
(* only the last beat partial) and tx_length = min(wLength, len) valid when*)
(* the stream becomes valid; a wValue with no descriptor pulses `stall`.   *)
(* wLength = 0 asks for nothing: no beat, no stall.                        *)
(*                                                                         *)
(* Grain: one step = one clock cycle.                                      *)
(*   Env : start strobes only while no response is in progress, wValue /   *)
(*         wLength held while it is, arbitrary tx.ready.                   *)
(*   Ref : `resp` -- what is still owed (remaining bytes / a stall).  The  *)
(*         first beat (or the stall) may come up to MaxLat cycles after    *)
(*         the request and beats may be up to MaxLat cycles apart (named   *)
(*         freedom); a beat counts when valid and ready coincide.          *)
(*   Prop: delivered \o remaining = the required prefix at all times; one  *)
(*         stall per unknown request.                                      *)
(***************************************************************************)
EXTENDS Naturals, Sequences

CONSTANTS MaxLat

VARIABLES tbl,        \* the device's descriptors: sequence of [key, bytes]  (key = type * 256 + index)
          resp,       \* [kind, value, length, rem, total, started, age]
          in, out,
          got,        \* ghost: bytes delivered for the response in progress
          nUnknown, nStall     \* ghost counters

dvars == <<tbl, resp, in, out, got, nUnknown, nStall>>

Min(a, b) == IF a < b THEN a ELSE b
None == [kind |-> "none", value |-> 0, length |-> 0, rem |-> <<>>, total |-> 0, started |-> FALSE, age |-> 0]

Known(v)  == \E k \in 1..Len(tbl) : tbl[k].key = v
DescOf(v) == tbl[CHOOSE k \in 1..Len(tbl) : tbl[k].key = v].bytes
Required(v, L) == SubSeq(DescOf(v), 1, Min(L, Len(DescOf(v))))

NewResp(v, L) == IF ~Known(v) THEN [None EXCEPT !.kind = "stall", !.value = v, !.length = L]
                 ELSE IF L = 0 THEN None
                 ELSE [kind |-> "data", value |-> v, length |-> L, rem |-> Required(v, L),
                       total |-> Len(Required(v, L)), started |-> FALSE, age |-> 0]

WordBytes(lo, hi, n) == SubSeq(<<lo % 256, lo \div 256, hi % 256, hi \div 256>>, 1, n)

-----------------------------------------------------------------------------
(* i = [start, value, length, rdy]                                               *)
(* o = [n, first, last, lo, hi, txlen, stall]   n = valid bytes 0..4 (9 = the    *)
(*      valid mask was not one of 0000 0001 0011 0111 1111)                      *)
RespA(i) == IF i.start THEN NewResp(i.value, i.length) ELSE resp

Failing(i, o) ==
  LET ra == RespA(i) IN
     IF i.start /\ resp.kind # "none" THEN "env_start_while_busy"
     ELSE IF resp.kind = "data" /\ (i.value # resp.value \/ i.length # resp.length) THEN "env_request_changed"
     ELSE IF o.stall /\ ra.kind # "stall" THEN "spurious_stall"
     ELSE IF ~o.stall /\ ra.kind = "stall" /\ ra.age >= MaxLat THEN "stall_missing"
     ELSE IF o.n > 0 /\ ra.kind # "data" THEN "beat_without_request"
     ELSE IF o.n = 9 THEN "tx_valid_mask"
     ELSE IF o.n > 0 /\ o.n # Min(4, Len(ra.rem)) THEN "tx_valid_count"
     ELSE IF o.n > 0 /\ WordBytes(o.lo, o.hi, o.n) # SubSeq(ra.rem, 1, o.n) THEN "tx_data"
     ELSE IF o.n > 0 /\ o.first # ~ra.started THEN "tx_first"
     ELSE IF o.n > 0 /\ o.last # (Len(ra.rem) <= 4) THEN "tx_last"
     ELSE IF o.n > 0 /\ ~ra.started /\ o.txlen # ra.total THEN "tx_length"
     ELSE IF o.n = 0 /\ ra.kind = "data" /\ ra.age >= MaxLat THEN "response_stalled"
     ELSE "ok"

Step(i, o) ==
  LET ra   == RespA(i)
      beat == o.n > 0 /\ i.rdy
      rem2 == IF beat THEN SubSeq(ra.rem, o.n + 1, Len(ra.rem)) ELSE ra.rem
  IN /\ in' = i /\ out' = o /\ UNCHANGED tbl
     /\ resp' = IF ra.kind = "stall" THEN (IF o.stall THEN None ELSE [ra EXCEPT !.age = @ + 1])
                ELSE IF ra.kind = "data" THEN
                     (IF beat /\ rem2 = <<>> THEN None
                      ELSE [ra EXCEPT !.rem = rem2, !.started = @ \/ beat, !.age = IF o.n > 0 THEN 0 ELSE @ + 1])
                ELSE None
     /\ got' = IF beat THEN (IF i.start \/ ~resp.started THEN <<>> ELSE got) \o WordBytes(o.lo, o.hi, o.n)
               ELSE IF i.start THEN <<>> ELSE got
     /\ nUnknown' = IF i.start /\ ~Known(i.value) THEN nUnknown + 1 ELSE nUnknown
     /\ nStall' = IF o.stall THEN nStall + 1 ELSE nStall

InitWith(t) == /\ tbl = t /\ resp = None
               /\ in = [start |-> FALSE, value |-> 0, length |-> 0, rdy |-> FALSE]
               /\ out = [n |-> 0, first |-> FALSE, last |-> FALSE, lo |-> 0, hi |-> 0, txlen |-> 0, stall |-> FALSE]
               /\ got = <<>> /\ nUnknown = 0 /\ nStall = 0

-----------------------------------------------------------------------------
(* Prop *)
\* What has been delivered plus what is still owed is exactly the first min(wLength, len) bytes.
DeliveredIsRequiredPrefix ==
    resp.kind = "data" => /\ (IF resp.started THEN got ELSE <<>>) \o resp.rem = Required(resp.value, resp.length)
                          /\ resp.total = Min(resp.length, Len(DescOf(resp.value)))
\* One stall per request for an unknown descriptor, none otherwise.
StallIffUnknown == nUnknown = nStall + (IF resp.kind = "stall" THEN 1 ELSE 0)
BoundedLatency == resp.age <= MaxLat
=============================================================================
