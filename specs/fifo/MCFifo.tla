------------------------------ MODULE MCFifo ------------------------------
(* Bounded instance of Fifo for exhaustive TLC exploration. *)
EXTENDS Fifo, TLC

CONSTANT MaxCommitted      \* bound on the ghost log (keeps the state space finite)

Bounded == Len(everW) <= MaxCommitted /\ Len(everW) + Len(wbuf) <= MaxCommitted + Depth

\* Non-vacuity witnesses: each must be *violated* (reachable) for the model to be meaningful;
\* they are checked by a separate config (MCFifo_reach.cfg) whose failure is the expected result.
=============================================================================
