-------------------------------- MODULE EpOut --------------------------------
(***************************************************************************)
(* Reference behaviour of one USB2 bulk/interrupt OUT endpoint delivering  *)
(* a byte stream (properties C13, C14; component of C12).                  *)
(*                                                                         *)
(* Written from the property statement, the doc-string of                  *)
(* USBStreamOutEndpoint and USB 2.0 ch. 8.5.1/8.5.2/8.6 (PING, bulk OUT,   *)
(* data-toggle synchronisation) -- not from the ack/nak equations.         *)
(*                                                                         *)
(* Grain: one step = one packet on the bus (token / host data / device     *)
(* handshake) or one beat taken by the consumer of the output stream.      *)
(*                                                                         *)
(* Reference state record `s` (operators on records; composed in EpDev):   *)
(*   exp    data toggle expected next (0 = DATA0)                          *)
(*   q      accepted (ACKed) bytes not yet taken by the consumer, each     *)
(*          [b |-> byte, f |-> first, l |-> last]                          *)
(*   tent   bytes of a CRC-good, in-sequence packet that has been received *)
(*          and not answered yet; the endpoint may already hand them to    *)
(*          the consumer, but then it has to ACK                           *)
(*   taken  some byte of `tent` has been taken by the consumer             *)
(*   act    a transfer is in progress (last accepted packet was full size) *)
(*   ph     "idle" | "out" (OUT token seen) | "ping" | "data" (packet      *)
(*          received, handshake pending)                                   *)
(*   spTok  free space (Depth - Len(q)) at the time of the token           *)
(*   dpid, dok, dpl   toggle / CRC-good / payload of the pending packet    *)
(* Ghost (Prop only):                                                      *)
(*   acc    payload bytes of every newly accepted packet, in order         *)
(*   accL   their packet lengths                                           *)
(*   del    bytes taken by the consumer, with their marks                  *)
(*                                                                         *)
(* Freedom left by the property (Ref is a relation): with less than MaxPkt *)
(* free at token time the endpoint may NAK *or* ACK a packet that fits;    *)
(* with at least MaxPkt free it must ACK.                                  *)
(***************************************************************************)
EXTENDS Naturals, Sequences, FiniteSets

OutInit == [exp |-> 0, q |-> <<>>, tent |-> <<>>, taken |-> FALSE, act |-> FALSE,
            ph |-> "idle", spTok |-> 0, dpid |-> 0, dok |-> TRUE, dpl |-> <<>>,
            acc |-> <<>>, accL |-> <<>>, del |-> <<>>]

\* stream entries of a packet: `first` iff it starts a transfer, `last` iff it ends a short packet
OutEntries(pl, active, M) ==
    [i \in 1..Len(pl) |-> [b |-> pl[i], f |-> (i = 1 /\ ~active), l |-> (i = Len(pl) /\ Len(pl) < M)]]

OutSpace(s, D) == D - Len(s.q)

-----------------------------------------------------------------------------
(* Env steps *)
OutAbort(s) == [s EXCEPT !.ph = "idle", !.tent = <<>>, !.taken = FALSE]

OutTok(s, D, kind) == [s EXCEPT !.ph = kind, !.spTok = OutSpace(s, D), !.tent = <<>>, !.taken = FALSE]

\* host data packet (toggle pid, payload pl, ok = CRC intact) after an OUT token for this endpoint
OutData(s, M, pid, pl, ok) ==
    IF s.ph # "out" THEN s
    ELSE [s EXCEPT !.ph = "data", !.dpid = pid, !.dok = ok, !.dpl = pl, !.taken = FALSE,
                   !.tent = IF ok /\ pid = s.exp THEN OutEntries(pl, s.act, M) ELSE <<>>]

-----------------------------------------------------------------------------
(* Consumer takes a beat [b, f, l] from the output stream. *)
OutPopStatus(s, x) ==
    LET all == s.q \o s.tent IN
    IF all = <<>> THEN "out_delivers_unaccepted_data"
    ELSE IF x.b # all[1].b THEN "out_stream_payload"
    ELSE IF x.f # all[1].f THEN "out_stream_first"
    ELSE IF x.l # all[1].l THEN "out_stream_last"
    ELSE "ok"
OutPop(s, x) ==
    IF s.q # <<>> THEN [s EXCEPT !.q = Tail(@), !.del = Append(@, x)]
    ELSE [s EXCEPT !.tent = Tail(@), !.taken = TRUE, !.del = Append(@, x)]

-----------------------------------------------------------------------------
(* The endpoint's handshake k \in {"ack", "nak", "none", ...}. *)
OutRespStatus(s, M, D, k) ==
  IF s.ph = "ping" THEN
       IF k = "ack" THEN (IF OutSpace(s, D) >= M THEN "ok" ELSE "out_ping_ack_without_room")
       ELSE IF k = "nak" THEN (IF s.spTok < M THEN "ok" ELSE "out_ping_nak_with_room")
       ELSE IF k = "none" THEN "out_no_response_to_ping"
       ELSE "out_unexpected_response"
  ELSE IF s.ph = "out" THEN (IF k = "none" THEN "ok" ELSE "out_unsolicited_response")
  ELSE IF s.ph # "data" THEN (IF k = "none" THEN "ok" ELSE "out_unsolicited_response")
  ELSE IF ~s.dok THEN (IF k = "none" THEN "ok" ELSE "out_handshake_for_corrupted_packet")
  ELSE IF k = "none" THEN "out_no_handshake_for_good_packet"
  ELSE IF k \notin {"ack", "nak"} THEN "out_unexpected_response"
  ELSE IF s.dpid = s.exp THEN                       \* new data
       IF k = "ack" THEN (IF Len(s.q) + Len(s.tent) > D THEN "out_ack_without_room" ELSE "ok")
       ELSE IF s.taken THEN "out_delivered_but_nak"
       ELSE IF s.spTok >= M THEN "out_nak_with_room"
       ELSE "ok"
  ELSE                                              \* repeated toggle: ACK, deliver nothing
       IF k = "ack" THEN "ok"
       ELSE IF s.spTok >= M THEN "out_nak_with_room" ELSE "ok"

OutResp(s, M, k) ==
    IF s.ph = "data" /\ s.dok /\ s.dpid = s.exp /\ k = "ack"
    THEN [s EXCEPT !.q = @ \o s.tent, !.tent = <<>>, !.taken = FALSE, !.ph = "idle",
                   !.exp = 1 - @, !.act = (Len(s.dpl) = M),
                   !.acc = @ \o s.dpl, !.accL = Append(@, Len(s.dpl))]
    ELSE [s EXCEPT !.tent = <<>>, !.taken = FALSE, !.ph = "idle"]

\* handshakes the reference allows in the current phase (used by the exhaustive model)
OutAllowed(s, M, D) == {k \in {"ack", "nak", "none"} : OutRespStatus(s, M, D, k) = "ok"}

\* CLEAR_FEATURE(ENDPOINT_HALT) naming this endpoint completed
OutClear(s) == [s EXCEPT !.exp = 0]

\* end of an observation: with the consumer ready for long enough nothing accepted may remain
OutDrainedStatus(s) == IF s.q = <<>> THEN "ok" ELSE "out_accepted_data_not_delivered"

-----------------------------------------------------------------------------
(* Prop: statements of C13 over the ghost variables.                        *)
OutBytes(es) == [i \in 1..Len(es) |-> es[i].b]

\* exactly once, in order: what the consumer took, followed by what is still held, is what was ACKed
OutExactlyOnce(s) ==
    IF s.ph = "data" /\ s.taken
    THEN s.q = <<>> /\ OutBytes(s.del) \o OutBytes(s.tent) = s.acc \o s.dpl
    ELSE OutBytes(s.del) \o OutBytes(s.q) = s.acc

\* marks, stated independently of OutEntries: walking over the accepted packet lengths
RECURSIVE OutMarks(_, _, _)
OutMarks(lens, M, active) ==
    IF lens = <<>> THEN <<>>
    ELSE LET n == lens[1] IN
         [i \in 1..n |-> [f |-> (i = 1 /\ ~active), l |-> (i = n /\ n < M)]]
            \o OutMarks(Tail(lens), M, n = M)
OutMarksOK(s, M) ==
    LET want == OutMarks(s.accL, M, FALSE)
        have == [i \in 1..Len(s.del) |-> [f |-> s.del[i].f, l |-> s.del[i].l]]
    IN  \/ s.ph = "data" /\ s.taken
        \/ (Len(have) <= Len(want) /\ have = SubSeq(want, 1, Len(have)))

OutRoom(s, D) == Len(s.q) <= D
OutInv(s, M, D) == OutExactlyOnce(s) /\ OutMarksOK(s, M) /\ OutRoom(s, D)
=============================================================================
