---------------------------- MODULE MCLinkLayer ----------------------------
(* Bounded instance of LinkLayer: every interleaving of partner events (training, resets at any point, recovery,   *)
(* header packets good / bad, link commands matching / mismatching), protocol-layer events, time ticks and the DUT  *)
(* reactions the reference allows.  Discrete time: events are instantaneous (dt = 0), `MTick` advances one cycle.   *)
(* Header contents are abstracted to the sequence number the header was accepted with.                              *)
EXTENDS LinkLayer, TLC

CONSTANTS MaxRx,        \* headers accepted from the partner per U0 epoch
          MaxTx,        \* headers accepted from the protocol layer per U0 epoch
          MaxEpochs,    \* entries to U0
          MaxRst,       \* warm resets
          Kinds,        \* header kinds offered by the partner
          Deltas,       \* sequence-number offsets of arriving headers
          Numbers,      \* LGOOD numbers / LCRD letters of the partner relative to the expected ones
          WithHot,      \* the partner may ask for a hot reset
          WithRetry     \* the partner may send LBAD / LRTY

VARIABLES epochs, rsts
mvars == <<vars, epochs, rsts>>

MCInit == Init /\ epochs = 0 /\ rsts = 0

R0(e) == [e |-> e, dt |-> 0]
Keep == UNCHANGED <<epochs, rsts>>

(* ---- Env: partner / PHY ------------------------------------------------ *)
MRst    == /\ \E on \in BOOLEAN : Step([e |-> "rst", dt |-> 0, on |-> on])
           /\ rsts' = (IF ev'.on THEN rsts + 1 ELSE rsts) /\ UNCHANGED epochs
MDet    == Keep /\ lk.ph = "EI" /\ ~lk.det /\ Step(R0("det"))
MLfps   == Keep /\ lk.ph = "LFPS" /\ ~lk.lfps /\ Step(R0("lfps"))
\* a partner that follows the training order: TS1 while we poll (loosened LFPS) or to ask for recovery, TS2 (possibly
\* with the Hot Reset bit) while we send TS1 / TS2, idle after its TS2 -- the trace specification accepts any order
MTs     == Keep /\ \E k \in {"ts1", "ts2"}, h \in (IF WithHot THEN BOOLEAN ELSE {FALSE}) :
                      /\ (h => k = "ts2")
                      /\ (k = "ts1" => ((lk.up /\ lk.ts1Req = 0) \/ (lk.ph = "LFPS" /\ ~lk.lfps)))
                      /\ (k = "ts2" => (~lk.up /\ lk.ph \in {"TS1", "TS2"} /\ (~lk.pTs2 \/ (h /\ ~lk.pHot))))
                      /\ Step([e |-> "ts", dt |-> 0, k |-> k, hot |-> h, nscr |-> FALSE])
MPidle  == Keep /\ ~lk.up /\ ~lk.pIdling /\ lk.pTs2 /\ Step(R0("pidle"))
MHdr    == Keep /\ \E kd \in Kinds, d \in Deltas :
                      Step([e |-> "hdr", dt |-> 0, kind |-> kd, d |-> d, c |-> r_expSeq])
MLgood  == Keep /\ \E d \in Numbers : Step([e |-> "lc", dt |-> 0, valid |-> TRUE, cmd |-> LGOOD, sub |-> (t_nextAck + d) % 8])
MLcrd   == Keep /\ \E d \in Numbers : Step([e |-> "lc", dt |-> 0, valid |-> TRUE, cmd |-> LCRD, sub |-> (t_letter + d) % NBuf])
MLbad   == Keep /\ WithRetry /\ Step([e |-> "lc", dt |-> 0, valid |-> TRUE, cmd |-> LBAD, sub |-> 0])
MLrty   == Keep /\ WithRetry /\ r_ignore /\ Step([e |-> "lc", dt |-> 0, valid |-> TRUE, cmd |-> LRTY, sub |-> 0])
\* (the partner's keep-alive, valid or corrupted: only the recovery timer cares)
MLother == Keep /\ lk.up /\ R + RecSlack < TCap
                /\ \E v \in BOOLEAN : Step([e |-> "lc", dt |-> 0, valid |-> v, cmd |-> LDN, sub |-> 0])
(* ---- Env: protocol layer ------------------------------------------------ *)
MAcc     == Keep /\ Step([e |-> "acc", dt |-> 0, c |-> t_txSeq])
MConsume == Keep /\ r_buf # <<>> /\ Step([e |-> "consume", dt |-> 0, c |-> Head(r_buf).c])
(* ---- Dut ---------------------------------------------------------------- *)
MUp     == Step(R0("up")) /\ epochs' = epochs + 1 /\ UNCHANGED rsts
MDown   == Keep /\ Step(R0("down"))
\* the transmitter follows the order of the training state machine [USB3.2 7.5]
PhaseNext(p) == CASE p = "NONE" -> {"EI"}
                  [] p = "EI"   -> {"LFPS"}
                  [] p = "LFPS" -> {"TSEQ", "EI"}
                  [] p = "TSEQ" -> {"TS1", "EI"}
                  [] p = "TS1"  -> {"TS2", "EI"}
                  [] p = "TS2"  -> {"LI", "EI"}
                  [] p = "LI"   -> {"TS1", "TS2", "EI"}
                  [] OTHER -> {"EI"}
\* ... and advances as a correct training state machine would (its time-outs and exact conditions are C41's)
MTxph   == Keep /\ \E p \in PhaseNext(lk.ph), h \in (IF WithHot THEN BOOLEAN ELSE {FALSE}) :
                      /\ (h => p = "TS2" /\ lk.ph = "LI" /\ lk.pHot)
                      /\ (p = "TS2" /\ lk.ph = "LI" => h)          \* Idle -> TS2 is the hot-reset path
                      /\ (p = "EI" => (lk.rst \/ lk.ph = "NONE"))
                      /\ (p = "LFPS" => (lk.det /\ ~lk.rst))
                      /\ (p = "TSEQ" => lk.lfps)
                      /\ (p = "TS1" /\ lk.ph = "LI" => ~lk.up /\ lk.sDown <= DownSlack)     \* Recovery.Active
                      /\ (p = "LI" => lk.pTs2)
                      /\ Step([e |-> "txph", dt |-> 0, ph |-> p, hot |-> h])
MTxs    == Keep /\ Step([e |-> "txs", dt |-> 0, ns |-> 0])
\* (candidates: what is owed, and its neighbours -- anything else is rejected by Judge anyway)
MTxe    == Keep /\ \E c \in {LGOOD, LCRD, LRTY, LBAD, LUP} :
                   \E s \in (IF c = LGOOD THEN (IF r_acks = <<>> THEN {0} ELSE {Head(r_acks), (Head(r_acks) + 1) % 8})
                             ELSE IF c = LCRD THEN {r_nextCred, (r_nextCred + 1) % NBuf} ELSE {0}) :
                      Step([e |-> "txe", dt |-> 0, valid |-> TRUE, cmd |-> c, sub |-> s, cs |-> 0, sk |-> 0])
MHps    == Keep /\ Step([e |-> "hps", dt |-> 0, ns |-> 0])
MHpe    == Keep /\
           \/ t_cur.k = "real" /\ \E dl \in BOOLEAN :
                 Step([e |-> "hpe", dt |-> 0, ok |-> TRUE, s |-> t_cur.s, dl |-> dl, c |-> t_cur.c, cs |-> 0, sk |-> 0,
                       dph |-> FALSE])
           \/ t_cur.k = "void" /\ \E i \in 1..Len(t_unacked), dl \in BOOLEAN :
                 Step([e |-> "hpe", dt |-> 0, ok |-> TRUE, s |-> t_unacked[i].s, dl |-> dl, c |-> t_unacked[i].c,
                       cs |-> 0, sk |-> 0, dph |-> FALSE])
           \/ t_cur.k = "stale" /\ Step([e |-> "hpe", dt |-> 0, ok |-> TRUE, s |-> 0, dl |-> FALSE, c |-> 0,
                                         cs |-> 0, sk |-> 0, dph |-> FALSE])
MQuiet  == Keep /\ Step([e |-> "quiet", dt |-> 0, ns |-> 0, qv |-> lk.up /\ r_buf # <<>>,
                         qr |-> lk.up /\ Tx!ReadyExpected])
(* ---- time and internal steps --------------------------------------------- *)
MTick   == Keep /\ Step([e |-> "tick", dt |-> 1])
MTau    == Keep /\ Tau
MKaReq  == Keep /\ KaReq(0)

MCNext == MRst \/ MDet \/ MLfps \/ MTs \/ MPidle \/ MHdr \/ MLgood \/ MLcrd \/ MLbad \/ MLrty \/ MLother
          \/ MAcc \/ MConsume \/ MUp \/ MDown \/ MTxph \/ MTxs \/ MTxe \/ MHps \/ MHpe \/ MQuiet
          \/ MTick \/ MTau \/ MKaReq

MCSpec == MCInit /\ [][MCNext]_mvars

\* `ev` (and the event labels of the two halves) only name the last event: hidden from the fingerprint
MCView == <<r_enabled, r_expSeq, r_pendRst, r_buf, r_acks, r_advPending, r_credOwed, r_nextCred, r_adv, r_ignore,
            r_lbadOwed, r_lrtyOwed, r_lrtyMay, r_kaOwed, r_kaMay, r_cur, r_gAcc, r_gDel, r_gGood, r_gAdv, r_gCred,
            r_gRecov,
            t_enabled, t_bringup, t_credits, t_letter, t_txSeq, t_nextAck, t_unacked, t_rp, t_resend, t_dn,
            t_lbadSeen, t_limbo, t_recovOwed, t_cur, t_gCredRx, t_gAccepted, lk, todo, epochs, rsts>>

Bounded == /\ Len(r_gAcc) <= MaxRx /\ t_gAccepted <= MaxTx /\ epochs <= MaxEpochs /\ rsts <= MaxRst

(* Theorems that mention the last event (action properties) *)
\* C41: a warm reset takes the link down: `up` never follows while the reset lasts, and U0 is left within RstSlack
ResetWins == [][(ev'.e = "up") => ~lk.rst]_mvars
\* C38: every entry to U0 makes both halves fresh
FreshOnUp == [][(ev'.e = "up") =>
                 /\ r_buf' = <<>> /\ ~r_ignore' /\ ~r_lbadOwed' /\ r_advPending' /\ r_credOwed' = NBuf /\ r_adv' = 0
                 /\ t_unacked' = <<>> /\ ~t_bringup' /\ t_credits' = 0]_mvars
\* C38: a warm or hot reset restarts the header sequence numbers of the next epoch
ResetRestartsNumbers == [][(ev'.e = "up" /\ r_pendRst) => (r_expSeq' = 0 /\ r_gAdv' = 7)]_mvars
\* C44: the link leaves U0 spontaneously only after R cycles without reception
DownHasCause == [][(ev'.e = "down") =>
                    (lk.rst \/ lk.sRst <= RstSlack \/ lk.ts1Req > 0 \/ t_recovOwed \/ r_gRecov \/ ~lk.rarmed \/ lk.rs >= R)]_mvars
=============================================================================
