------------------------------ MODULE MCCrcFn ------------------------------
(***************************************************************************)
(* TLC evaluates the bit-serial definitions: exhaustively for the CRC5     *)
(* networks (all 2^11 inputs), on an affine basis for the wide networks,   *)
(* checks the standards' own facts about them on every evaluated point,    *)
(* and exports the expected images (POSTCONDITION) for the harness.        *)
(***************************************************************************)
EXTENDS CrcFn, TLC, Json, IOUtils

CONSTANT Kinds                \* the networks evaluated in this run (subset of FnKinds)

VARIABLES k, j, out           \* network, index of the point (CrcFn!Point), image of that point
vars == <<k, j, out>>

\* The points of a network are evaluated in chains of ChainLen consecutive points (independent
\* chains let TLC's workers share the evaluation): Init starts one chain at every multiple of ChainLen.
ChainLen == 64
Init == /\ k \in Kinds
        /\ j \in {jj \in 1..PointCount(k) : jj % ChainLen = 1}
        /\ out = FnDef(k, Point(k, j).s, Point(k, j).d)

Eval(jj) == /\ jj <= PointCount(k) /\ jj % ChainLen # 1
            /\ k' = k /\ j' = jj
            /\ out' = FnDef(k, Point(k, jj).s, Point(k, jj).d)

EvalCrc5 == k \in Crc5Kinds /\ Eval(j + 1)
EvalNext == k \in NextKinds /\ Eval(j + 1)
Next == EvalCrc5 \/ EvalNext
Spec == Init /\ [][Next]_vars

Pt == Point(k, j)

-----------------------------------------------------------------------------
(* Prop: evaluated on every point *)

TypeOK == WellTyped(k, Pt.s, Pt.d, out)

\* every 11-bit value followed by its CRC5 field leaves the standard's residual, and the integer
\* view used by the packet specifications (Usb2Crc5 / Usb2TokenOk) agrees with the bit view
Crc5Residual ==
    k \in Crc5Kinds =>
        /\ CrcRun(Ones(5), Pt.d \o out, Poly5) = Residual5
        /\ LET w == ValLSB(Pt.d) + 2048 * ValLSB(out) IN Usb2TokenOk(w % 256, w \div 256)

\* a check field with any single bit flipped is not accepted (so "accepted iff the field is correct"
\* is not weakened to a wider acceptance set by the definition itself)
\* (evaluated on every 4th input: 5 more CRC runs per point)
Crc5SingleFlipRejected ==
    (k \in Crc5Kinds /\ j % 4 = 1) => \A b \in 1..5 : CrcRun(Ones(5), Pt.d \o Flip(out, b), Poly5) # Residual5

\* for fixed data exactly one of the 32 possible fields is accepted (every 64th input)
Crc5ExactlyOneFieldAccepted ==
    (k \in Crc5Kinds /\ j % ChainLen = 1) =>
        \A f \in [1..5 -> Bit] : (CrcRun(Ones(5), Pt.d \o f, Poly5) = Residual5) <=> (f = out)

\* the wide networks are linear: the zero vector maps to zero, a unit data vector's image does not
\* depend on ... (full linearity of the one-bit shift is the ASSUME ShiftLinear below)
ZeroMapsToZero ==
    (k \in NextKinds /\ j = 1) => out = ZeroVec(OutWidth(k))

\* the trailing-byte variants are prefixes of the word step: consuming 4 bytes at once equals
\* consuming 3, 2 or 1 bytes and then the rest one byte at a time
TailConsistency ==
    k = "usb3_crc32_4B" =>
        \A n \in 1..3 :
            LET kn  == CASE n = 1 -> "usb3_crc32_1B" [] n = 2 -> "usb3_crc32_2B" [] n = 3 -> "usb3_crc32_3B"
                mid == FnDef(kn, Pt.s, SubSeq(Pt.d, 1, 8 * n))
                RECURSIVE Rest(_, _)
                Rest(s, i) == IF i > 4 THEN s
                              ELSE Rest(FnDef("usb3_crc32_1B", s, SubSeq(Pt.d, 8 * i - 7, 8 * i)), i + 1)
            IN Rest(mid, n + 1) = out

-----------------------------------------------------------------------------
(* Facts about the definitions that do not depend on the point *)

\* residuals printed in the standards
ASSUME ResidualOf(Poly5)  = Residual5
ASSUME ResidualOf(Poly16) = Residual16
ASSUME ResidualOf(Poly32) = Residual32

\* the one-bit shift is GF(2)-linear in (register, data bit) -- checked for every register width
\* up to 4, every polynomial, every pair of arguments.  CrcShift is defined uniformly in the width,
\* and CrcRun is a composition of shifts, so every "next state" definition is linear and every CRC
\* field definition affine: agreement with an affine network on an affine basis is agreement everywhere.
BitVecs(n) == [1..n -> Bit]
ShiftLinear ==
    \A n \in 1..4 : \A p \in BitVecs(n) : \A r1 \in BitVecs(n) : \A r2 \in BitVecs(n) :
        \A b1 \in Bit : \A b2 \in Bit :
            CrcShift(XorBits(r1, r2), Xor(b1, b2), p) = XorBits(CrcShift(r1, b1, p), CrcShift(r2, b2, p))
ASSUME ShiftLinear

\* packets recorded in the repository's tests / the usb.org CRC white paper (crcdes.pdf)
ASSUME Usb2TokenOk(58, 61)                                   \* OUT addr 0x3A ep 0xA : E1 3A 3D  (tests/test_usb2_packet.py)
ASSUME Usb2Crc16(<<0, 5, 8, 0, 0, 0, 0, 0>>) = 235 + 256 * 188      \* ... EB BC
ASSUME Usb2Crc16(<<>>) = 0                                          \* ZLP: 00 00
ASSUME Usb3Crc32Bytes(<<18, 1, 0, 2>>) = <<19, 75, 152, 52>>          \* 0x34984B13 (tests/test_usb3_crc.py; the value that test reads is the CRC after its first word)
ASSUME Usb3Crc32Bytes(<<18, 1, 0, 3,  0, 0, 0, 9,  254, 19, 0, 82,  0, 1, 1, 2,  3, 1>>) = <<135, 164, 10, 84>>   \* 0x540AA487

-----------------------------------------------------------------------------
Export == JsonSerialize(IOEnv.IMAGES_FILE, [kk \in Kinds |-> ImagesOf(kk)])
=============================================================================
