---------------------------- MODULE StretchTrace ----------------------------
(***************************************************************************)
(* Trace validation for Stretch.  A trace is                               *)
(*   [cfg |-> [n, allow_delay], steps |-> << [s, x, o], ... >>]            *)
(* one record per clock cycle: s = strobe input, x = reset of the clock    *)
(* domain asserted in the cycle, o = output                                *)
(* observed in the same cycle (after the input settled, before the edge).  *)
(* `cands` is the set of delays still consistent with everything observed  *)
(* (subset construction: the validation stays deterministic).              *)
(***************************************************************************)
EXTENDS Stretch, TLC, TLCExt, Json, IOUtils

Logs == JsonDeserialize(IOEnv.TRACE_FILE)

VARIABLES tid, l, status, cands
tvars == <<vars, tid, l, status, cands>>

ASSUME \A i \in 1..Len(Logs) : TLCSet(i, <<0, "ok">>)

TInit == /\ tid \in 1..Len(Logs)
         /\ l = 1
         /\ status = "ok"
         /\ InitCfg(Logs[tid].cfg.n, Logs[tid].cfg.allow_delay)
         /\ cands = (IF Logs[tid].cfg.allow_delay THEN {0, 1} ELSE {0})

TNext == /\ status = "ok"
         /\ l <= Len(Logs[tid].steps)
         /\ LET r == Logs[tid].steps[l] IN
              /\ Step(r.s, r.x)
              /\ LET ok == {d \in cands : OutFor(d)' = r.o} IN
                   /\ cands' = (IF ok = {} THEN cands ELSE ok)
                   /\ status' = (IF ok = {} THEN "output" ELSE "ok")
         /\ l' = l + 1
         /\ UNCHANGED tid

TSpec == TInit /\ [][TNext]_tvars

TraceProp == TypeOK /\ WindowUndelayed /\ WindowDelayed

Progress == TLCSet(tid, <<l - 1, IF TraceProp THEN status ELSE "prop_invariant">>)

Verdicts == JsonSerialize(IOEnv.VERDICT_FILE, [i \in 1..Len(Logs) |-> TLCGet(i)])
=============================================================================
