------------------------------ MODULE MCFsPhy ------------------------------
(* Bounded instance of FsPhy for exhaustive exploration, and the vector     *)
(* service: TLC writes the test vectors (bytes, predicted line symbols and  *)
(* every stuff-violation variant) that the binding replays into the real    *)
(* PHY.                                                                     *)
EXTENDS FsPhy, TLC, TLCExt, Json, IOUtils

VectorRecord(b) ==
    [bytes  |-> b,
     syms   |-> Encode(b),
     nstuff |-> NumStuffed(b),
     bad    |-> [k \in 1..NumStuffed(b) |-> EncodeStuffViolation(b, k)]]

RECURSIVE SeqOfSet(_)
SeqOfSet(S) == IF S = {} THEN <<>> ELSE LET x == CHOOSE y \in S : TRUE IN <<x>> \o SeqOfSet(S \ {x})

\* POSTCONDITION of the exhaustive run: every vector of the explored set with its prediction
\* (TLCGet keeps the formula from being constant-level, which TLC rejects for a POSTCONDITION)
DumpVectors == LET vs == SeqOfSet(Vectors) IN
               /\ TLCGet("distinct") >= 0
               /\ JsonSerialize(IOEnv.VECTOR_FILE, [i \in 1..Len(vs) |-> VectorRecord(vs[i])])
=============================================================================
