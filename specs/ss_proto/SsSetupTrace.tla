---------------------------- MODULE SsSetupTrace ----------------------------
(***************************************************************************)
(* Trace validation for SsSetup.  Per-cycle records                        *)
(*  [n, first, last, lo, hi, setup, good, bad          -- inputs            *)
(*   rcv, dir, type, rcp, req, val, idx, len]          -- outputs observed  *)
(***************************************************************************)
EXTENDS SsSetup, TLC, TLCExt, Json, IOUtils

Logs == JsonDeserialize(IOEnv.TRACE_FILE)

VARIABLES tid, l, status
tvars == <<svars, tid, l, status>>

ASSUME \A i \in 1..Len(Logs) : TLCSet(i, <<0, "ok">>)

InOf(r)  == [n |-> r.n, first |-> r.first, last |-> r.last, lo |-> r.lo, hi |-> r.hi,
             setup |-> r.setup, good |-> r.good, bad |-> r.bad]
OutOf(r) == [rcv |-> r.rcv, f |-> [dir |-> r.dir, type |-> r.type, rcp |-> r.rcp, req |-> r.req,
                                   val |-> r.val, idx |-> r.idx, len |-> r.len]]

TInit == Init /\ tid \in 1..Len(Logs) /\ l = 1 /\ status = "ok"

TNext == /\ status = "ok"
         /\ l <= Len(Logs[tid])
         /\ LET r == Logs[tid][l]
                f == Failing(InOf(r), OutOf(r)) IN
              /\ status' = f
              /\ IF f = "ok" THEN Step(InOf(r), OutOf(r)) ELSE UNCHANGED svars
         /\ l' = l + 1
         /\ UNCHANGED tid

TSpec == TInit /\ [][TNext]_tvars

TraceProp == ReportsAreTheGoodSetups /\ BoundedLatency
Verdict == IF status # "ok" THEN status ELSE IF TraceProp THEN "ok" ELSE "prop_invariant"
\* (an invariant failure stops the trace there, so that later steps cannot overwrite it)
Progress == TLCSet(tid, <<l - 1, Verdict>>) /\ Verdict = "ok"
Verdicts == JsonSerialize(IOEnv.VERDICT_FILE, [i \in 1..Len(Logs) |-> TLCGet(i)])
=============================================================================
