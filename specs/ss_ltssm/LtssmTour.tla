------------------------------ MODULE LtssmTour ------------------------------
(***************************************************************************)
(* Transition tour of the reference machine of Ltssm (spec -> code).       *)
(*                                                                         *)
(* TLC explores the reference machine alone (no monitors) at the constants *)
(* of the real, scaled-clock controller.  Env: single cycles with one      *)
(* strobe set, a lone reset cycle, a change of the LFPS burst count, and a *)
(* leap to the time-out of the current substate.  `path` is the stimulus   *)
(* that led to a state; it is hidden by the VIEW, so breadth-first search  *)
(* keeps a shortest stimulus per reference state.  The first time an edge  *)
(* (substate, substate', cause) of the FSM graph is taken, its stimulus is *)
(* stored in a TLC register; the POSTCONDITION writes all of them out.     *)
(* The binding replays every stimulus into the real controller and checks  *)
(* that the set of edges found equals FsmEdges.                            *)
(***************************************************************************)
EXTENDS Ltssm, TLCExt, Json, IOUtils

CONSTANTS LoosenVals, StrobeSets, SentVals, InitSent, AvoidRaces

VARIABLES ref, in, n, path
tvars == <<ref, in, n, path>>

StateSeq == <<RDR, RDA, RDQ, PLF, PRX, PAC, PCF, PCX, PID, U0, HRA, HRX, RAC, RCF, RCX, RID, CMP, LPB, SIQ, SID, SDD>>
NStates == Len(StateSeq)
Idx(st) == CHOOSE k \in 1..NStates : StateSeq[k] = st
Causes == <<"rst", "timeout", "event">>
NRegs == 3 * (NStates + 1) * (NStates + 1)
Reg(a, b, c) == 1000 + 3 * ((NStates + 1) * Idx(a) + Idx(b)) + c

ASSUME \A k \in 1000..(1000 + NRegs) : TLCSet(k, <<>>)

WithStrobes(base, S) == [f \in DOMAIN base |-> IF f \in Strobes THEN f \in S ELSE base[f]]
StrobeVecs == {WithStrobes(NoInput, S) : S \in StrobeSets}

Levelled(v, prev) == [v EXCEPT !.phy = prev.phy, !.dscr = prev.dscr, !.sent = prev.sent]

Init == /\ \E lo \in LoosenVals : ref = RefInit(lo)
        /\ in = [NoInput EXCEPT !.sent = InitSent] /\ n = 1 /\ path = <<>>

Record(k, c) == LET p == Append(path, [i |-> in', n |-> k]) IN
                /\ path' = p
                /\ IF ref'.st # ref.st /\ TLCGet(Reg(ref.st, ref'.st, c)) = <<>>
                   THEN TLCSet(Reg(ref.st, ref'.st, c), [loosen |-> ref.lo, from |-> ref.st, to |-> ref'.st, cause |-> Causes[c], path |-> p])
                   ELSE TRUE

Event == \E v \in StrobeVecs :
            /\ in' = Levelled(v, in) /\ n' = 1
            /\ ref' = Step1(ref, in')
            /\ Record(1, 3)

Count == \E c \in SentVals \ {in.sent} :
            /\ in' = [Quieten(in) EXCEPT !.sent = c] /\ n' = 1
            /\ ref' = Step1(ref, in')
            /\ Record(1, 3)

\* a lone reset cycle; with AvoidRaces only where no other transition is enabled in that cycle
Reset == /\ in' = [Quieten(in) EXCEPT !.rst = TRUE] /\ n' = 1
         /\ (AvoidRaces => Target(ref, Quieten(in)) = STAY)
         /\ ref' = Step1(ref, in')
         /\ Record(1, 1)

\* quiet until the time-out of the current substate has just fired
Leap == /\ TimeoutOf(ref.st) > 0
        /\ Target(ref, Quieten(in)) = STAY
        /\ LET k == TimeoutOf(ref.st) - ref.cyc + 1 IN
             /\ in' = Quieten(in) /\ n' = k
             /\ ref' = Run(ref, GInit(ref.lo), Quieten(in), k, 1)[1]
             /\ Record(k, 2)

Next == Event \/ Count \/ Reset \/ Leap
Spec == Init /\ [][Next]_tvars

TourView == <<ref, in.phy, in.dscr, in.sent>>
TourBound == ref.cyc <= 2

Found == LET all == [k \in 1..NRegs |-> TLCGet(1000 + k)] IN
         JsonSerialize(IOEnv.TOUR_FILE, SelectSeq(all, LAMBDA e : e # <<>>))
=============================================================================
