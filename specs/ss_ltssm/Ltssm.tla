------------------------------- MODULE Ltssm -------------------------------
(***************************************************************************)
(* Specification for property C41: the USB3 Link Training and Status State *)
(* Machine (luna LTSSMController) reaches U0 only through training and     *)
(* honours resets and timeouts.                                            *)
(*                                                                         *)
(* Grain: explicit time.  One step = n >= 1 clock cycles of the "ss"       *)
(* domain with the same input vector i (n > 1 only for quiet inputs: no    *)
(* strobe asserted, no reset).                                             *)
(*                                                                         *)
(*   Env  : every input of the controller (reset level, PHY ready,         *)
(*          receiver-detect results, LFPS detector + burst count, TS1 /    *)
(*          inverted TS1 / TS2 detectors, TS2 option bits, burst-complete, *)
(*          idle-handshake-complete, recovery trigger, local scrambling    *)
(*          option) takes any value in any cycle.                          *)
(*   Ref  : implementation-shaped reference machine `ref` [USB3.2r1 7.5]:  *)
(*          substates, entry tasks, latched detector flags, time-in-state  *)
(*          counter and the time-outs as named constants.  Its outputs are *)
(*          Out(ref, i).  A warm reset has priority over everything else   *)
(*          in every substate (7.5: "from any state").                     *)
(*   Prop : independent monitors.  They never look at `ref`: their ghost   *)
(*          record `g` is computed only from the inputs and the *observed  *)
(*          public outputs* (in the model the observed outputs are         *)
(*          Out(ref, i); in trace validation they are the logged outputs   *)
(*          of the real controller).  Clause names are those of Viol().    *)
(***************************************************************************)
EXTENDS Naturals, Sequences, TLC

CONSTANTS T12,        \* 12 ms in cycles  (Rx.Detect.Quiet, Polling.Active/Configuration, Recovery.*, Hot Reset.Active, SS.Inactive.Quiet)
          T2,         \*  2 ms in cycles  (Polling.Idle, Recovery.Idle, Hot Reset.Exit)
          T360,       \* 360 ms in cycles (Polling.LFPS)
          LfpsMin,    \* Polling.LFPS bursts to send before leaving (16)         [7.5.4.3.2]
          LfpsAfter,  \* bursts to send after the first received burst (4)      [7.5.4.3.2]
          SlackHi,    \* cycles of latency the monitors tolerate beyond a time-out
          SlackLo,    \* cycles a time-out may fire early
          QuietQ,     \* an input is assumed to act within QuietQ cycles
          MaxSent     \* Env bound on the LFPS burst counter (no 16-bit wrap)

Max(a, b) == IF a > b THEN a ELSE b
Min(a, b) == IF a < b THEN a ELSE b

-----------------------------------------------------------------------------
(* Env: input vectors *)

Strobes == {"pd", "npd", "lfps", "ts1", "its1", "ts2", "burst", "idle", "hot", "loop", "nscr", "rec"}

NoInput == [rst |-> FALSE, drst |-> FALSE, phy |-> TRUE, dscr |-> FALSE, sent |-> 0,
            pd |-> FALSE, npd |-> FALSE, lfps |-> FALSE, ts1 |-> FALSE, its1 |-> FALSE, ts2 |-> FALSE,
            burst |-> FALSE, idle |-> FALSE, hot |-> FALSE, loop |-> FALSE, nscr |-> FALSE, rec |-> FALSE]

AnyStrobe(i) == \E s \in Strobes : i[s]

\* The input vector of the quiet cycles that follow a cycle with inputs i.
Quieten(i) == [NoInput EXCEPT !.phy = i.phy, !.dscr = i.dscr, !.sent = i.sent]

\* "Something happened at the inputs in this cycle" (p = inputs of the previous cycle).
\* `drst` is the reset of the controller's clock domain (ResetSignal("ss"), the power-on reset of the gateware):
\* every register returns to its initial value.  For the monitors it is a reset like in_usb_reset.
Rst(i) == i.rst \/ i.drst

Activity(p, i) == AnyStrobe(i) \/ Rst(i) \/ p.rst \/ i.phy # p.phy \/ i.dscr # p.dscr \/ i.sent # p.sent

LegalInput(i) == i.sent \in 0..MaxSent

-----------------------------------------------------------------------------
(* Ref: the reference machine.  Field `lo` is the constructor parameter loosen_requirements: a TS1 may  *)
(* stand in for the partner's polling LFPS.                                                              *)

RDR  == "Rx.Detect.Reset"
RDA  == "Rx.Detect.Active"
RDQ  == "Rx.Detect.Quiet"
PLF  == "Polling.LFPS"
PRX  == "Polling.RxEQ"
PAC  == "Polling.Active"
PCF  == "Polling.Configuration"
PCX  == "Polling.Configuration.Exit"
PID  == "Polling.Idle"
U0   == "U0"
HRA  == "Hot Reset.Active"
HRX  == "Hot Reset.Exit"
RAC  == "Recovery.Active"
RCF  == "Recovery.Configuration"
RCX  == "Recovery.Configuration.Exit"
RID  == "Recovery.Idle"
CMP  == "Compliance"
LPB  == "Loopback"
SIQ  == "SS.Inactive.Quiet"
SID  == "SS.Inactive.Disconnect.Detect"
SDD  == "SS.Disabled.Default"

States == {RDR, RDA, RDQ, PLF, PRX, PAC, PCF, PCX, PID, U0, HRA, HRX, RAC, RCF, RCX, RID, CMP, LPB, SIQ, SID, SDD}

\* Time-out of a substate (0 = untimed).
TimeoutOf(st) == CASE st \in {RDQ, PAC, PCF, HRA, RAC, RCF, SIQ} -> T12
                   [] st \in {PID, HRX, RID}                     -> T2
                   [] st = PLF                                   -> T360
                   [] OTHER                                      -> 0

RefInit(lo) == [lo |-> lo, st |-> RDR, cyc |-> 0,
            pollingSeen |-> FALSE, ts2Seen |-> FALSE, hotSeen |-> FALSE, loopSeen |-> FALSE,
            noScrSeen |-> FALSE, burstMet |-> FALSE, lfpsSeen |-> FALSE, target |-> 0,
            reqHot |-> FALSE, reqNoScr |-> FALSE, invert |-> FALSE]

STAY == "-"

\* Target of the transition taken in a cycle with inputs i (STAY = none).  Later alternatives of the
\* state descriptions win; the time-out is last except where the description says otherwise.
Target(s, i) ==
  LET to == s.cyc = TimeoutOf(s.st)      \* only meaningful in timed states
  IN
  IF s.st = RDR THEN (IF ~i.rst /\ i.phy THEN RDA ELSE STAY)
  ELSE IF i.rst THEN RDR                                   \* warm reset: from any state, first
  ELSE CASE s.st = RDA -> IF i.npd THEN RDQ ELSE IF i.pd THEN PLF ELSE STAY
    [] s.st = RDQ -> IF to THEN RDA ELSE STAY
    [] s.st = PLF -> IF to THEN (IF s.pollingSeen THEN SDD ELSE CMP)
                     ELSE IF i.sent >= s.target /\ (s.lfpsSeen \/ (s.lo /\ i.ts1)) THEN PRX
                     ELSE STAY
    [] s.st = PRX -> IF i.burst THEN PAC ELSE STAY
    [] s.st = PAC -> IF s.burstMet /\ (i.ts1 \/ i.ts2 \/ i.its1) THEN PCF
                     ELSE IF to THEN RDA ELSE STAY
    [] s.st = PCF -> IF i.burst /\ s.ts2Seen THEN PCX
                     ELSE IF to THEN RDA ELSE STAY
    [] s.st = PCX -> IF i.burst THEN PID ELSE STAY
    [] s.st = PID -> IF to THEN RDR
                     ELSE IF s.hotSeen THEN HRA
                     ELSE IF s.loopSeen THEN LPB
                     ELSE IF i.idle THEN U0 ELSE STAY
    [] s.st = U0  -> IF i.ts1 \/ i.rec THEN RAC ELSE STAY
    [] s.st = HRA -> IF i.burst /\ s.ts2Seen /\ ~i.hot THEN HRX
                     ELSE IF to THEN SIQ ELSE STAY
    [] s.st = HRX -> IF to THEN SIQ ELSE IF i.idle THEN U0 ELSE STAY
    [] s.st = RAC -> IF s.burstMet /\ (i.ts1 \/ i.ts2) THEN RCF
                     ELSE IF to THEN SIQ ELSE STAY
    [] s.st = RCF -> IF i.burst /\ s.ts2Seen THEN RCX
                     ELSE IF to THEN SIQ ELSE STAY
    [] s.st = RCX -> IF i.burst THEN RID ELSE STAY
    [] s.st = RID -> IF to THEN SIQ
                     ELSE IF s.hotSeen THEN HRA
                     ELSE IF s.loopSeen THEN LPB
                     ELSE IF i.idle THEN U0 ELSE STAY
    [] s.st = CMP -> RDR
    [] s.st = LPB -> STAY
    [] s.st = SIQ -> IF to THEN SID ELSE STAY
    [] s.st = SID -> IF i.npd THEN RDQ ELSE IF i.pd THEN SIQ ELSE STAY
    [] s.st = SDD -> STAY

\* The detector latches are registers that are set in every substate; a latch is tracked here only in the
\* substates from which it can still reach an output before an entry task clears it (elsewhere: FALSE).
Norm(s) ==
  LET st == s.st IN
  [s EXCEPT !.burstMet  = @ /\ st \in {PAC, RAC},
            !.ts2Seen   = @ /\ st \in {PAC, PCF, RAC, RCF, HRA},
            !.hotSeen   = @ /\ st \in {PAC, PCF, PCX, PID, RAC, RCF, RCX, RID},
            !.loopSeen  = @ /\ st \in {PAC, PCF, PCX, PID, RAC, RCF, RCX, RID},
            !.noScrSeen = @ /\ st \in {PAC, PCF, PCX, PID, U0, HRA, HRX, RAC, RCF, RCX, RID},
            !.lfpsSeen  = @ /\ st = PLF,
            !.target    = IF st = PLF THEN @ ELSE 0]

\* One clock cycle.
Step1(s, i) ==
  IF i.drst THEN RefInit(s.lo) ELSE
  LET t   == Target(s, i)
      go  == t # STAY
      \* detector latches (set in any state)
      l1  == [s EXCEPT !.pollingSeen = @ \/ i.lfps, !.ts2Seen = @ \/ i.ts2, !.hotSeen = @ \/ i.hot,
                       !.loopSeen = @ \/ i.loop, !.noScrSeen = @ \/ i.nscr, !.burstMet = @ \/ i.burst]
      \* Polling.LFPS book-keeping: first received burst moves the target forward
      l2  == IF s.st = PLF /\ i.lfps /\ ~s.lfpsSeen
             THEN (IF i.sent >= s.target \/ i.sent > LfpsMin - LfpsAfter
                   THEN [l1 EXCEPT !.lfpsSeen = TRUE, !.target = i.sent + LfpsAfter]
                   ELSE [l1 EXCEPT !.lfpsSeen = TRUE])
             ELSE l1
      \* Polling.Active: remember the receive polarity we trained with
      l3  == IF s.st = PAC /\ t = PCF THEN [l2 EXCEPT !.invert = i.its1] ELSE l2
      \* Hot Reset.Active: stop announcing hot reset after one full burst
      l4  == IF s.st = HRA /\ i.burst THEN [l3 EXCEPT !.reqHot = FALSE] ELSE l3
  IN
  IF ~go THEN Norm([l4 EXCEPT !.cyc = IF TimeoutOf(s.st) > 0 THEN @ + 1 ELSE 0])
  ELSE LET e0 == [l4 EXCEPT !.st = t, !.cyc = 0, !.reqHot = FALSE]
       IN Norm(CASE t = PLF -> [e0 EXCEPT !.lfpsSeen = FALSE, !.target = LfpsMin]
            [] t \in {PAC, RAC} -> [e0 EXCEPT !.ts2Seen = FALSE, !.hotSeen = FALSE, !.loopSeen = FALSE,
                                              !.noScrSeen = FALSE, !.burstMet = FALSE, !.reqNoScr = i.dscr]
            [] t = PRX -> [e0 EXCEPT !.ts2Seen = FALSE, !.hotSeen = FALSE, !.noScrSeen = FALSE,
                                     !.reqNoScr = i.dscr]
            [] t = HRA -> [e0 EXCEPT !.ts2Seen = FALSE, !.reqHot = TRUE]
            [] OTHER -> e0)

\* Public outputs in a cycle (Moore, except entering_u0 which also looks at this cycle's inputs).
Out(s, i) ==
  LET st == s.st
      scr == ~s.reqNoScr /\ ~s.noScrSeen
  IN [lr    |-> st = U0,
      eu0   |-> (st \in {PID, RID} /\ ~s.hotSeen /\ ~s.loopSeen /\ i.idle) \/ (st = HRX /\ i.idle),
      txi   |-> st \in {RDR, RDA, RDQ, PLF, SIQ, SID, SDD},
      term  |-> st \notin {RDR, SDD},
      rxd   |-> st \in {RDA, SID},
      slfps |-> st = PLF,
      stseq |-> st = PRX,
      teq   |-> st = PRX,
      sts1  |-> st \in {PAC, RAC},
      sts2  |-> st \in {PCF, PCX, HRA, RCF, RCX},
      rhot  |-> s.reqHot,
      rnscr |-> s.reqNoScr,
      scr   |-> st \in {PID, U0, HRX, RID} /\ scr,
      pidle |-> st \in {PID, HRX, RID},
      loopb |-> st = LPB,
      inv   |-> s.invert]

-----------------------------------------------------------------------------
(* Prop: monitors over inputs and observed outputs only *)

\* What the controller is visibly doing, read off its outputs.
Phase(o) == IF o.lr THEN "U0"
            ELSE IF o.loopb THEN "LOOP"
            ELSE IF o.pidle THEN "IDLE"
            ELSE IF o.sts2 THEN "TS2"
            ELSE IF o.sts1 THEN "TS1"
            ELSE IF o.stseq THEN "TSEQ"
            ELSE IF o.slfps THEN "LFPS"
            ELSE IF o.rxd THEN "DETECT"
            ELSE IF o.txi /\ ~o.term THEN "OFF"
            ELSE IF o.txi THEN "QUIET"
            ELSE "NONE"

\* Time-out the standard attaches to what is visibly going on (0 = untimed).
PhaseTimeout(ph) == CASE ph \in {"TS1", "TS2", "QUIET"} -> T12
                      [] ph = "IDLE" -> T2
                      [] ph = "LFPS" -> T360
                      [] OTHER -> 0

LinkDown(ph) == ph \in {"OFF", "QUIET", "DETECT", "NONE"}

\* What the monitors remember of the previous cycle's inputs.
PrevOf(i) == [rst |-> Rst(i), phy |-> i.phy, dscr |-> i.dscr, sent |-> i.sent, ts1 |-> i.ts1]

GInit(lo) == [lo |-> lo, ph |-> "INIT", age |-> 0, quiet |-> 0, pi |-> PrevOf(NoInput), wasReady |-> FALSE,
          \* trainedSinceReset: partner detected -> LFPS handshake -> TS1/TS2 exchange -> idle handshake
          partner |-> FALSE, lfpsx |-> FALSE, tsx |-> FALSE, idlex |-> FALSE,
          \* handshakeSinceEntry: TS2 received -> TS2 exchange complete -> idle handshake
          ep |-> "none", hTs2 |-> FALSE, hCfg |-> FALSE, hIdle |-> FALSE,
          \* Polling.LFPS bookkeeping
          lfpsHave |-> FALSE, lfpsFirst |-> 0,
          \* option bits of the partner / of this side seen during the current training
          hotA |-> FALSE, hotB |-> FALSE, pNoScr |-> FALSE, lAsk |-> FALSE,
          \* cycles link_ready has stayed up since the partner (TS1) or the link layer asked for recovery
          recWait |-> 0]

\* Ghost state after one cycle with inputs i in which outputs o were observed.
G1(g, i, o, ageCap) ==
  LET ph        == Phase(o)
      chg       == ph # g.ph
      down      == LinkDown(ph)
      startPoll == chg /\ ph = "LFPS"
      startEq   == chg /\ ph = "TSEQ"
      startTs1  == chg /\ ph = "TS1"
      startHot  == chg /\ ph = "TS2" /\ g.ph = "IDLE"
      trainStart == startPoll \/ startEq \/ startTs1
      \* --- trainedSinceReset ---
      bP  == ~down /\ g.partner
      bL  == ~down /\ g.lfpsx
      bT  == ~down /\ g.tsx
      bI  == ~down /\ g.idlex
      \* --- handshakeSinceEntry ---
      clearH == trainStart \/ startHot \/ down \/ Rst(i)
      h2  == ph \in {"TS1", "TS2"} /\ ((IF clearH THEN FALSE ELSE g.hTs2) \/ (i.ts2 /\ ~Rst(i)))
      hc0 == IF clearH THEN FALSE ELSE g.hCfg
      hc  == hc0 \/ (o.sts2 /\ i.burst /\ h2 /\ ~Rst(i))
      hi  == (IF clearH THEN FALSE ELSE g.hIdle) \/ (hc0 /\ o.pidle /\ i.idle /\ ~Rst(i))
      ep  == IF down \/ Rst(i) THEN "none"
             ELSE IF startHot THEN "hot"
             ELSE IF startPoll THEN "poll"
             ELSE IF startTs1 /\ g.ph # "TSEQ" THEN "rec"
             ELSE g.ep
      lx  == bL \/ (bP /\ o.slfps /\ (i.lfps \/ (g.lo /\ i.ts1)))
      tx  == bT \/ (bL /\ hc)
      \* the partner's hot-reset requests count while this side trains outside a hot reset
      training == ph \in {"TSEQ", "TS1", "TS2", "IDLE"} /\ ep \notin {"hot", "none"}
      first == o.slfps /\ i.lfps /\ ~(IF startPoll THEN FALSE ELSE g.lfpsHave)
  IN [lo |-> g.lo, ph |-> ph,
      age |-> IF chg THEN 1 ELSE Min(g.age + 1, ageCap),
      quiet |-> IF Activity(g.pi, i) THEN 0 ELSE Min(g.quiet + 1, QuietQ),
      pi |-> PrevOf(i),
      wasReady |-> o.lr,
      partner |-> ~Rst(i) /\ (bP \/ (o.rxd /\ i.pd)),
      lfpsx   |-> ~Rst(i) /\ lx,
      tsx     |-> ~Rst(i) /\ tx,
      idlex   |-> ~Rst(i) /\ (bI \/ (bT /\ o.pidle /\ i.idle)),
      ep |-> ep, hTs2 |-> h2, hCfg |-> hc, hIdle |-> hi,
      lfpsHave  |-> IF o.slfps THEN (IF startPoll THEN i.lfps ELSE g.lfpsHave \/ i.lfps) ELSE FALSE,
      lfpsFirst |-> IF first THEN i.sent ELSE IF o.slfps /\ ~startPoll THEN g.lfpsFirst ELSE 0,
      hotA |-> IF ~training THEN FALSE ELSE IF trainStart THEN i.hot ELSE g.hotA \/ i.hot,
      hotB |-> IF ~training \/ trainStart THEN FALSE ELSE g.hotA,
      pNoScr |-> IF down THEN FALSE ELSE IF trainStart THEN i.nscr ELSE g.pNoScr \/ i.nscr,
      lAsk   |-> IF down THEN FALSE ELSE IF trainStart THEN g.pi.dscr \/ i.dscr ELSE g.lAsk \/ i.dscr,
      recWait |-> IF o.lr /\ (i.ts1 \/ i.rec \/ g.recWait > 0) THEN Min(g.recWait + 1, SlackHi + 2) ELSE 0]

\* ... after k further cycles with the same quiet inputs and the same observed outputs.
GRep(g, k, ageCap) == IF k = 0 THEN g
                      ELSE [g EXCEPT !.age = Min(@ + k, ageCap), !.quiet = Min(@ + k, QuietQ), !.hotB = g.hotA,
                                     !.recWait = IF @ > 0 THEN Min(@ + k, SlackHi + 2) ELSE 0]

TrainedSinceReset(g)   == g.partner /\ g.lfpsx /\ g.tsx /\ g.idlex
HandshakeSinceEntry(g) == g.hIdle

\* The visible activity may outlast its time-out only in the synthetic "send one more TS2 burst" tail
\* of Polling/Recovery.Configuration (documented as untimed; it ends with the local burst generator).
OverrunExempt(g) == g.ph = "TS2" /\ g.ep # "hot" /\ g.hCfg

LfpsExitOK(g) == /\ g.pi.sent >= LfpsMin
                 /\ \/ g.lfpsHave /\ g.pi.sent >= g.lfpsFirst + LfpsAfter
                    \/ g.lo /\ g.pi.ts1

\* Name of the first property clause violated by observing outputs o in the cycle after ghost state g.
Viol(g, o) ==
  LET ph == Phase(o) IN
  IF g.pi.rst /\ o.lr THEN "reset_link_ready"
  ELSE IF o.lr /\ ~TrainedSinceReset(g) THEN "trained_since_reset"
  ELSE IF o.lr /\ ~HandshakeSinceEntry(g) THEN "handshake_since_entry"
  ELSE IF o.lr /\ ~g.wasReady /\ g.hotB THEN "hot_reset_ignored"
  ELSE IF o.lr /\ ~o.scr /\ ~(g.lAsk \/ g.pNoScr) THEN "scrambling"
  ELSE IF ph = g.ph /\ PhaseTimeout(ph) > 0 /\ ~OverrunExempt(g) /\ g.age + 1 > PhaseTimeout(ph) + 1 + SlackHi
       THEN "timeout_overrun"
  ELSE IF ph # g.ph /\ PhaseTimeout(g.ph) > 0 /\ ~OverrunExempt(g) /\ g.quiet >= QuietQ /\ g.age >= QuietQ
          /\ g.age + SlackLo < PhaseTimeout(g.ph)
       THEN "timeout_early"
  ELSE IF g.ph = "LFPS" /\ ph = "TSEQ" /\ ~LfpsExitOK(g) THEN "lfps_exchange"
  ELSE IF o.lr /\ g.recWait > SlackHi THEN "recovery_request_ignored"
  ELSE "ok"

\* Over-run check for the k further identical cycles of an event-compressed record (g = ghost after the first).
ViolRep(g, k) == IF k > 0 /\ PhaseTimeout(g.ph) > 0 /\ ~OverrunExempt(g) /\ g.age + k > PhaseTimeout(g.ph) + 1 + SlackHi
                 THEN "timeout_overrun"
                 ELSE IF k > 0 /\ g.recWait > 0 /\ g.recWait + k - 1 > SlackHi THEN "recovery_request_ignored"
                 ELSE "ok"

-----------------------------------------------------------------------------
(* Explicit time: n cycles with inputs i, then quiet (Quieten(i)) *)

\* Number of cycles (>= 1) starting now during which the reference machine certainly stays in its substate
\* with unchanged outputs under quiet inputs q; the transition, if any, happens in the cycle after them.
StayFor(s, q, n) == IF Target(s, q) # STAY THEN 0
                    ELSE IF TimeoutOf(s.st) > 0 /\ s.cyc <= TimeoutOf(s.st) THEN Min(n, TimeoutOf(s.st) - s.cyc)
                    ELSE n

RECURSIVE Run(_, _, _, _, _)
\* <<ref, ghost>> after n more quiet cycles (inputs q), ghost fed with the reference outputs.
Run(s, g, q, n, ageCap) ==
  IF n = 0 THEN <<s, g>>
  ELSE LET d == StayFor(s, q, n) IN
       IF d = 0 THEN Run(Step1(s, q), G1(g, q, Out(s, q), ageCap), q, n - 1, ageCap)
       ELSE Run([Step1(s, q) EXCEPT !.cyc = IF TimeoutOf(s.st) > 0 THEN s.cyc + d ELSE 0],
                GRep(G1(g, q, Out(s, q), ageCap), d - 1, ageCap), q, n - d, ageCap)

=============================================================================
