"""Engine `ulpi` — C22 / C23 / C24: luna.gateware.interface.ulpi.UTMITranslator (and its parts) vs
specs/ulpi/{UlpiRx,UlpiTx,UlpiReg}.tla.

The real UTMITranslator is elaborated once (ULPI record without `rst`, so `phy_ready` is immediate) and
driven cycle by cycle by the reactive ULPI PHY model + UTMI transmitter model of harness/hosts/ulpi_phy.py.
Every cycle (all inputs, all observed outputs, the PHY model's register file) is recorded; TLC validates
the recorded traces against the three trace specifications.  Python only drives, records and classifies.
"""
import os

from .. import tlc
from ..core import use_repo
from ..pipeline import validate_group

ENGINE = "ulpi"
SPEC_DIR = "ulpi"

META = {
    "C22": {
        "text": "TLC explores every ULPI-legal PHY receive behaviour of the bounded model (2 receives of <= 3 bytes, "
                "both start forms, RxCmds and DIR aborts anywhere) against UlpiRx.tla and proves that the reported "
                "stream equals the presented data bytes; the real UTMITranslator is driven by a ULPI PHY model with "
                "TLC-simulated and random receive schedules (interleaved with transmits) and every recorded cycle of "
                "rx_data/rx_valid/rx_active/status flags is validated by TLC: bytes in order, each once, within 2 "
                "cycles, only inside rx_active, RxCmds never as data, flags = most recent RxCmd (3-cycle window).",
        "note": "PHY obeys ULPI 1.1 s3.8 (NXT low when DIR falls; data bytes only inside a receive). Latency windows: "
                "data 1..2 cycles, rx_active/flags 1..3 cycles. Register reads cannot be issued by UTMITranslator "
                "(read_request is tied low): that clause is validated on ULPIRegisterWindow + ULPIRxEventDecoder wired "
                "as inside the translator (status flags only). Open findings are carved out by clean/witness stimuli.",
        "technique": "TLA+ monitor/reference spec, TLC exhaustive + batch trace validation of pysim traces (PHY model)",
        "design_ref": "DESIGN.md §5 C22",
    },
    "C23": {
        "text": "TLC explores every UTMI-transmitter / PHY schedule of the bounded model (2 packets of <= 3 bytes, "
                "PID and NOPID modes, NXT delays 0..2 at every position, DIR interruptions of the command phase) "
                "against UlpiTx.tla and proves that the PHY receives exactly TXCMD(pid | NOPID) + remaining bytes; "
                "the real UTMITranslator is driven with TLC-simulated and random schedules and every recorded cycle "
                "of data.o/data.oe/stp/tx_ready is validated by TLC (byte held until NXT, tx_ready iff PHY accepted, "
                "STP with 0x00/0xFF in the cycle after the last byte, oe = ~DIR).",
        "note": "UTMI side holds tx_valid/tx_data until accepted and keeps op_mode constant over a transmission; the "
                "PHY does not raise DIR inside a transmit's data phase; control inputs are stable from tx_valid until "
                "the TXCMD is accepted (the start race is C24's finding). Start latency <= 8 idle-bus cycles.",
        "technique": "TLA+ reference relation, TLC exhaustive + batch trace validation of pysim traces (PHY model)",
        "design_ref": "DESIGN.md §5 C23",
    },
    "C24": {
        "text": "TLC explores the shadow-register mechanism (latched write, arbitration with the transmitter, PHY "
                "register file) for every schedule of <= 3 control changes (incl. back to the old value mid-write and "
                "together with a transmit start), NXT delays 0..2 and DIR interruptions, and proves: each write "
                "carries a value requested for its register, the shadow is truthful, the registers converge and the "
                "transmitter is served (liveness); the real UTMITranslator + PHY model are driven with TLC-simulated, "
                "random and directed schedules and TLC validates every recorded bus cycle against the bus-level Prop "
                "(write values, STP, bounded convergence, bounded transmitter wait).",
        "note": "Bounded-liveness constants for real traces: WBound/TBound cycles of link-owned bus, computed from the "
                "stimulus (max packet length, max NXT stall). Open findings are carved out by clean schedules "
                "(control changes only when converged and no TXCMD pending; transmit starts only when converged) vs "
                "witness schedules.",
        "technique": "TLA+ mechanism model + bus-level monitor, TLC exhaustive/liveness + batch trace validation",
        "design_ref": "DESIGN.md §5 C24, Appendix A",
    },
}

_BENCH = None


def _cfg(name):
    with open(os.path.join(tlc.SPECS, SPEC_DIR, name)) as f:
        return f.read()


def bench(config=None):
    """One elaborated UTMITranslator per configuration (see CONFIGS), cached."""
    global _BENCH
    if _BENCH is None:
        _BENCH = {}
    key = repr(sorted((config or {}).items()))
    if key not in _BENCH:
        use_repo()
        from ..hosts.ulpi_phy import TranslatorBench
        _BENCH[key] = TranslatorBench(config)
    return _BENCH[key]


# ------------------------------------------------------------------------------------------------
# configuration catalogue (constructor / platform / record parameters of UTMITranslator)
# ------------------------------------------------------------------------------------------------
STARTUP_SMALL = [1, 2, 3]
STARTUP_OTHER = [4, 5, 7, 8, 9, 16, 17, 33]


def cfg_rst(n, record="rst_clko", **kw):
    return dict({"record": record, "handle_clocking": record == "rst_clko", "startup": n}, **kw)


def has_rst(config):
    return (config or {}).get("record") in ("rst", "rst_clko")


def config_classes(seed, quick):
    """[(name, config)] — one configuration per value class in the quick tier (rotated by seed), all in thorough."""
    small = STARTUP_SMALL if not quick else [STARTUP_SMALL[seed % len(STARTUP_SMALL)]]
    other = STARTUP_OTHER if not quick else [STARTUP_OTHER[seed % len(STARTUP_OTHER)]]
    out = []
    for n in small:
        out.append(("rst+clk.o handle_clocking startup=%d" % n, cfg_rst(n)))
    for n in other:
        out.append(("rst only startup=%d" % n, cfg_rst(n, "rst")))
    v = [0x3D, 0x65, 0x80, 0x01][seed % 4]
    out += [
        ("extra const no default", {"extra": [(0x16, "const", v, None)], "phy_regs": {0x16: 0x00}}),
        ("extra const no default, PHY already holds it", {"extra": [(0x2F, "const", v, None)], "phy_regs": {0x2F: v}}),
        ("extra const default=value (no write)", {"extra": [(0x19, "const", 0x55, 0x55)], "phy_regs": {0x19: 0x55}}),
        ("extra const default#value addr 0x3F", {"extra": [(0x3F, "const", v, 0x00)], "phy_regs": {0x3F: 0x00}}),
        ("extra signal", {"extra": [(0x31, "sig", 0x10, 0x10)], "phy_regs": {0x31: 0x10}}),
        ("two extras (const + signal)", {"extra": [(0x16, "const", v, None), (0x07, "sig", 0x00, 0x00)],
                                         "phy_regs": {0x16: 0xFF, 0x07: 0x00}}),
        ("platform registers + raw clock domain", cfg_rst(2 + seed % 3, platform={"extra": {0x16: v}, "raw_domain": "usb_io"},
                                                          use_platform_registers=True, phy_regs={0x16: 0x00})),
        ("platform registers ignored (use_platform_registers=False)",
         {"platform": {"extra": {0x16: v}, "raw_domain": None}, "use_platform_registers": False}),
        ("DomainRenamer usb->phyb", cfg_rst(3, "rst", domain="phyb")),
        ("clk.i: PHY-provided clock drives the usb domain (handle_clocking)", {"record": "clki", "handle_clocking": True}),
    ]
    return out


def config_constants(config, maxlen=5, max_stall=2):
    """cfg substitutions of UlpiRegTrace for a configuration."""
    cfg = config or {}
    xs = [(a, cfg.get("phy_regs", {}).get(a, 0)) for a, _, _, _ in cfg.get("extra", [])]
    if cfg.get("use_platform_registers") and cfg.get("platform"):
        xs += [(a, cfg.get("phy_regs", {}).get(a, 0)) for a in sorted(cfg["platform"].get("extra") or {})]
    xs += [(64, 0)] * (2 - len(xs))
    n = cfg.get("startup") or 0
    wb, tb = reg_bounds(maxlen, max_stall)
    nx = len([x for x in xs if x[0] != 64])
    extra_writes = nx * (2 * (max_stall + 1) + 8)         # the extra registers may be written first
    return {"X1Addr": xs[0][0], "X1Reset": xs[0][1], "X2Addr": xs[1][0], "X2Reset": xs[1][1],
            "Startup": n, "WBound": wb + n + 4 + extra_writes, "TBound": tb + n + 4 + extra_writes}


def split_at_reset(trace):
    """A domain reset (with RESETB wired to the PHY) starts a fresh execution: cut the trace there.  The reset
    record itself stays as the first record of the new segment (UlpiRegTrace checks RESETB on it; the other trace
    specifications get it stripped, see `validate`)."""
    segs, cur = [], []
    for r in trace:
        if r.get("rst"):
            if cur:
                segs.append(cur)
            cur = [r]
        else:
            cur.append(r)
    if cur:
        segs.append(cur)
    return segs


def fc(c):
    from ..hosts.ulpi_phy import function_control
    return function_control(c)


def otg(c):
    from ..hosts.ulpi_phy import otg_control
    return otg_control(c)


CTRL_KEYS_T = CTRL_KEYS = ("xcvr", "term", "opm", "susp", "idpu", "dppd", "dmpd", "dischrg", "chrg", "extvbus")

# ------------------------------------------------------------------------------------------------
# stimulus generators (PHY choice lists, control schedules, packets)
# ------------------------------------------------------------------------------------------------
IDLE_CMDS = [0x0D, 0x0E, 0x0C, 0x05, 0x00, 0x4D, 0x09, 0x2D]      # RxActive = 0 (incl. HostDisconnect, ID)
ACTIVE_CMDS = [0x1D, 0x1E, 0x1C, 0x3D, 0x5D, 0x11]                # RxActive = 1 (incl. RxError)


def N(acc=True):
    return {"acc": acc}


def rx_episode(rng, clean=True, maxlen=6):
    """One DIR-high episode as a list of PHY choices (rx actions only)."""
    out = []
    kind = rng.choice(["pkt_nxt", "pkt_cmd", "cmd_only", "pkt_nxt", "pkt_cmd", "two"])
    if kind == "cmd_only":
        out.append({"rx": "up"})
        for _ in range(rng.randint(1, 3)):
            out.append({"rx": "cmd", "b": rng.choice(IDLE_CMDS)})
        out.append({"rx": "down"})
        return out
    npk = 2 if kind == "two" else 1
    first = True
    for p in range(npk):
        if first and kind == "pkt_nxt":
            out.append({"rx": "up_nxt"})
            if rng.random() < 0.6:
                out.append({"rx": "cmd", "b": rng.choice(ACTIVE_CMDS)})
        else:
            if first:
                out.append({"rx": "up"})
            for _ in range(rng.randint(0, 2)):
                out.append({"rx": "cmd", "b": rng.choice(IDLE_CMDS)})
            out.append({"rx": "cmd", "b": rng.choice(ACTIVE_CMDS)})
            if clean or rng.random() < 0.5:
                out.append({"rx": rng.choice(["none", "cmd"]), "b": rng.choice(ACTIVE_CMDS)})
        first = False
        for _ in range(rng.randint(0, maxlen)):
            x = rng.random()
            if x < 0.2:
                out.append({"rx": "cmd", "b": rng.choice(ACTIVE_CMDS)})
            elif x < 0.3:
                out.append({"rx": "none"})
            out.append({"rx": "data", "b": rng.choice([rng.randrange(256), 0x1D, 0x0D, 0x00, 0xFF])})
        end = rng.random()
        if end < 0.35 and p == npk - 1:
            break                                   # DIR falls right after the last byte (or aborts)
        out.append({"rx": "cmd", "b": rng.choice(IDLE_CMDS)})
        for _ in range(rng.randint(0, 2)):
            out.append({"rx": "cmd", "b": rng.choice(IDLE_CMDS)})
    out.append({"rx": "down"})
    return out


def phy_choices(rng, n, rx_rate=0.06, acc_p=0.7, clean=True, maxlen=6):
    """PHY choice list for n cycles: random NXT willingness + receive episodes at random gaps."""
    ch = []
    while len(ch) < n:
        if rng.random() < rx_rate:
            ch += [dict(c, acc=rng.random() < acc_p) for c in rx_episode(rng, clean, maxlen)]
        else:
            ch.append({"acc": rng.random() < acc_p})
    return ch[:n]


def ctrl_change(rng):
    k = rng.choice(["opm", "opm", "xcvr", "term", "susp", "idpu", "dppd", "dmpd", "chrg", "dischrg", "extvbus",
                    "both"])
    if k == "both":
        return {"opm": rng.randrange(4), "idpu": rng.randrange(2), "chrg": rng.randrange(2)}
    return {k: rng.randrange(4) if k in ("opm", "xcvr") else rng.randrange(2)}


def packets(rng, k, maxlen=6):
    return [[rng.choice([0xC3, 0x4B, 0xD2, 0x5A, 0xA5, rng.randrange(256)])] +
            [rng.randrange(256) for _ in range(rng.randint(0, maxlen - 1))] for _ in range(k)]


# ------------------------------------------------------------------------------------------------
# TLC behaviours -> bench scripts
# ------------------------------------------------------------------------------------------------
def receive_over_write_scripts(rng, quick):
    """A receive beginning at every cycle offset of a control-translator register write (request, address phase,
    data phase, STP, turn-around, the retried write): both start forms, 1 / 2 / 3+ bytes, with and without a
    mid-packet RxCmd, two NXT-acceptance patterns of the PHY, one and two registers to write."""
    out = []
    t0 = 6
    for start in ("up_nxt", "up_cmd"):
        for off in range(0, 13):
            variants = [(1, False, 0), (2, False, 1), (3, True, 0), (5, True, 1)]
            if quick:                                   # rotate length/pattern over the offsets, all in thorough
                variants = [variants[(off + k) % 4] for k in (0, 2)]
            for nbytes, mid, slow in variants:
                ch = [{"acc": True} for _ in range(t0 + off - 1)]
                if slow:                                # PHY takes the link's bytes only every other cycle
                    ch = [{"acc": t % 2 == 0} for t in range(t0 + off - 1)]
                ep = [{"rx": "up_nxt"}] if start == "up_nxt" else [{"rx": "up"}, {"rx": "cmd", "b": 0x1D}]
                if start == "up_nxt" and nbytes == 5:
                    ep.append({"rx": "cmd", "b": 0x1D})  # the optional RxCmd after the turn-around
                for k in range(nbytes):
                    if mid and k == nbytes // 2:
                        ep.append({"rx": "cmd", "b": 0x1E})
                    ep.append({"rx": "data", "b": rng.choice([0xA5, 0x1D, rng.randrange(256)])})
                if rng.random() < 0.5:
                    ep.append({"rx": "cmd", "b": 0x0D})
                ep.append({"rx": "down"})
                ch += [dict(c, acc=True) for c in ep] + [{"acc": (t % 2 == 0) or not slow} for t in range(40)]
                ctrl = {t0: {"opm": 1, "idpu": 1} if (off + nbytes) % 2 else {"opm": 1}}
                out.append(({"n": len(ch), "choices": ch, "ctrl": ctrl, "phy": {"max_stall": 2}},
                            {"class": "clean", "origin": "receive-over-register-write",
                             "start": start, "offset": off, "bytes": nbytes, "mid_rxcmd": mid}))
    return out


def script_from_rx_behaviour(beh):
    """MCUlpiRx behaviour: `in` = [dir, nxt, di] per cycle -> PHY choices (choice t decides cycle t+1)."""
    ins = [st["in"] for _, st in beh[1:]]
    ch = []
    prev = 0
    for i in ins:
        if i["dir"] and not prev:
            c = {"rx": "up_nxt" if i["nxt"] else "up"}
        elif i["dir"] and prev:
            c = {"rx": "data" if i["nxt"] else "cmd", "b": i["di"]}
        elif prev:
            c = {"rx": "down"}
        else:
            c = {"rx": "none"}
        c["acc"] = True
        ch.append(c)
        prev = i["dir"]
    # choice t decides cycle t+1: shift by one (cycle 0 is idle), then return to idle
    return {"n": len(ch) + 6, "choices": ch + [{"rx": "down", "acc": True}]}


def script_from_tx_behaviour(beh):
    """MCUlpiTx behaviour: tin = [dir, nxt, txv, txd, opm] per cycle -> packets/op modes/NXT schedule/DIR."""
    ins = [st["tin"] for _, st in beh[1:]]
    outs = [st["tout"] for _, st in beh[1:]]
    pk, cur, starts, opms = [], None, set(), []
    prev_v = 0
    for t, (i, o) in enumerate(zip(ins, outs)):
        if i["txv"] and not prev_v:
            cur = [i["txd"]]
            starts.add(t + 1)
            opms.append(i["opm"])
        elif i["txv"] and cur is not None and ins[t - 1]["txv"] and outs[t - 1]["txr"]:
            cur.append(i["txd"])
        if prev_v and not i["txv"] and cur is not None:
            pk.append(cur)
            cur = None
        prev_v = i["txv"]
    if cur is not None:
        pk.append(cur)
    ch = []
    prev = 0
    for t, i in enumerate(ins):
        nxt_next = ins[t + 1]["nxt"] if t + 1 < len(ins) else 1
        c = {"acc": bool(nxt_next)}
        if i["dir"] and not prev:
            c["rx"] = "up_nxt" if i["nxt"] else "up"
        elif i["dir"] and prev:
            c["rx"] = "cmd"
            c["b"] = 0x0D
        elif prev:
            c["rx"] = "down"
        ch.append(c)
        prev = i["dir"]
    return pk, opms, sorted(starts), ch


def script_from_reg_behaviour(beh):
    """MCUlpiReg behaviour: gin = [dir, nxt, txv, c] -> control schedule, tx starts, NXT/DIR schedule."""
    ins = [st["gin"] for _, st in beh[1:]]
    ctrl = {}
    starts = set()
    lens = []
    prevc = None
    prev_v = 0
    ch = []
    prev = 0
    run = 0
    for t, i in enumerate(ins):
        c = {k: i["c"][k] for k in CTRL_KEYS}
        if prevc is not None and c != prevc:
            ctrl[t + 1] = {k: c[k] for k in CTRL_KEYS if c[k] != prevc[k]}
        prevc = c
        if i["txv"] and not prev_v:
            starts.add(t + 1)
        prev_v = i["txv"]
        nxt_next = ins[t + 1]["nxt"] if t + 1 < len(ins) else 1
        x = {"acc": bool(nxt_next)}
        if i["dir"] and not prev:
            x["rx"] = "up"
        elif i["dir"] and prev:
            x["rx"] = "cmd"
            x["b"] = 0x0D
        elif prev:
            x["rx"] = "down"
        ch.append(x)
        prev = i["dir"]
    return ctrl, sorted(starts), ch


# ------------------------------------------------------------------------------------------------
# classification of rejections (normalised cause computed from the recorded trace)
# ------------------------------------------------------------------------------------------------
def _ctrl_of(r):
    return {k: r[k] for k in CTRL_KEYS}


def _unsettled(r):
    return fc(r) != r["r4"] or otg(r) != r["ra"] or r.get("x1", 0) != r.get("p1", 0) or r.get("x2", 0) != r.get("p2", 0)


def reg_triggers(trace, upto):
    """Known-finding triggers of C24 present in trace[0:upto] (list of (cycle, name))."""
    trig = []
    tx_started = False
    last_write = -100
    for t in range(min(upto, len(trace))):
        r = trace[t]
        p = trace[t - 1] if t else None
        if p is not None and (p["r4"] != r["r4"] or p["ra"] != r["ra"]):
            last_write = t
        changed = p is not None and _ctrl_of(p) != _ctrl_of(r)
        rising = r["txv"] and not (p and p["txv"])
        if not r["txv"]:
            tx_started = False
        pending = r["txv"] and not tx_started
        if changed and pending:
            trig.append((t, "tx_start_race"))
        elif changed and p is not None and (_unsettled(p) or t - last_write <= 2):
            trig.append((t, "ctrl_change_during_write"))
        elif rising and (_unsettled(r) or t - last_write <= 2):
            trig.append((t, "tx_start_race"))
        # the TXCMD counts as accepted once NXT is seen while tx_valid is high with a TXCMD/data on the bus
        if r["txv"] and r["nxt"] and not r["dir"] and (r["do"] >> 6) == 1 and not tx_started:
            tx_started = True
        elif r["txv"] and r["txr"]:
            tx_started = True
    return trig


def classify_reg(trace, matched, status, meta):
    trig = reg_triggers(trace, matched)
    # the first trigger explains everything after it (raw stimuli are generated with one trigger family per trace)
    pattern = trig[0][1] if trig else "no_known_trigger"
    group = "register_convergence" if status in ("write_unknown_register", "write_value_never_requested",
                                                 "register_not_converged", "transmitter_starved",
                                                 "prop_invariant") else status
    return {"clause": status, "group": group, "pattern": pattern}


def rx_triggers(trace, upto):
    trig = []
    phyrx = False
    pdir = 0
    cmd_start = False
    last_cmd = None
    for t in range(min(upto, len(trace))):
        r = trace[t]
        is_data = r["dir"] and pdir and r["nxt"]
        is_cmd = r["dir"] and pdir and not r["nxt"] and not r.get("rr")
        if is_data and cmd_start:
            trig.append((t, "byte_directly_after_rxcmd_start"))
        if is_cmd and (r["di"] & 0x10) and not phyrx and last_cmd is not None and (last_cmd & 0x10):
            trig.append((t, "rxcmd_start_after_dir_abort"))
        if is_cmd:
            last_cmd = r["di"]
        if is_cmd and (_unsettled(r) if "xcvr" in r else r["busy"]):
            trig.append((t, "rxcmd_during_register_operation"))
        if not r["dir"]:
            rx1 = False
        elif not pdir:
            rx1 = bool(r["nxt"])
        elif is_cmd:
            rx1 = bool(r["di"] & 0x10)
        else:
            rx1 = phyrx
        cmd_start = bool(is_cmd and rx1 and not phyrx)
        phyrx = rx1
        pdir = r["dir"]
    return trig


def classify_rx(trace, matched, status, meta):
    trig = rx_triggers(trace, matched)
    # a trigger explains the rejection only while its receive episode lasts (DIR still high) or shortly after
    ep = min(matched, len(trace)) - 1
    skip = 0
    while ep > 0 and not trace[ep]["dir"] and skip < 3:
        ep -= 1
        skip += 1
    while ep > 0 and trace[ep]["dir"]:
        ep -= 1
    # ... or within the observation window (MaxLat) before the failing cycle
    trig = [x for x in trig if x[0] >= min(ep, matched - 6)]
    pattern = trig[0][1] if trig else "no_known_trigger"
    group = "rx_stream" if status.startswith("rx_") else "status_flags"
    if pattern == "rxcmd_during_register_operation":
        group = "rxcmd_effect"
    return {"clause": status, "group": group, "pattern": pattern}


def classify_tx(trace, matched, status, meta):
    return {"clause": status, "pattern": "other"}


def _env_guard(rep, items, verdict_fn=None):
    pass


# ------------------------------------------------------------------------------------------------
def run_scripts(rep, scripts, config=None):
    """Run (script, meta) pairs on the real module; returns [(trace, meta)] (cut at domain resets)."""
    out = []
    b = bench(config)
    for script, meta in scripts:
        recs, phy, tx = b.run(script)
        rep.add_eval(len(recs))
        for k, seg in enumerate(split_at_reset(recs)):
            m = dict(meta)
            m["phy_events"] = len(phy.events)
            m["packets_sent"] = len(tx.sent)
            if k:
                m["after_reset"] = k
            out.append((seg, m))
    return out


FIELDS = {
    "UlpiRxTrace": ("dir", "nxt", "di", "rr", "rxv", "rxd", "rxa", "ls", "vv", "sv", "se", "rxe", "hd", "idd"),
    "UlpiTxTrace": ("dir", "nxt", "txv", "txd", "opm", "do", "oe", "stp", "txr"),
    "UlpiRegTrace": ("rst", "rsto", "dir", "nxt", "txv", "do", "oe", "stp", "r4", "ra", "p1", "p2", "x1", "x2") + CTRL_KEYS_T,
}


def validate_all(rep, jobs):
    """jobs: [(module, cfg, items, classify)] — the TLC runs of all jobs are executed concurrently (a few JVMs at a
    time: the configuration sweep has one constant set per configuration), the verdicts are then processed in order."""
    from concurrent.futures import ThreadPoolExecutor
    prepared = [_prepare(module, items) for module, cfg, items, classify in jobs]
    small = [k for k, (module, cfg, items, classify) in enumerate(jobs) if 0 < len(prepared[k][0]) <= 400]
    with ThreadPoolExecutor(max_workers=4) as ex:
        futs = {k: ex.submit(tlc.validate_traces, SPEC_DIR, jobs[k][0], jobs[k][1], [t for t, _ in prepared[k][0]])
                for k in small}
        results = {}
        for k, f in futs.items():
            results[k] = f.result()
    for k, (module, cfg, items, classify) in enumerate(jobs):
        validate(rep, module, cfg, items, classify, precomputed=results.get(k), prepared=prepared[k])


def _prepare(module, items):
    if module != "UlpiRegTrace":
        # reset records are only understood by UlpiRegTrace; a segment whose PHY was not reset with the link (RESETB not
        # asserted: reported by C24) is outside the Env of the other properties
        items = [(t[1:] if t and t[0].get("rst") else t, m) for t, m in items
                 if not (t and t[0].get("rst") and not t[0].get("rsto"))]
        items = [(t, m) for t, m in items if t]
    full = [t for t, _ in items]
    keys = FIELDS[module]
    items = [([{k: r.get(k, 0) for k in keys} for r in t], dict(m, _i=i)) for i, (t, m) in enumerate(items)]
    return items, full


def validate(rep, module, cfg, items, classify, precomputed=None, prepared=None):
    """validate_group + machinery guard: an Env-legality rejection is a harness error, not a violation."""
    from ..core import Machinery
    from .. import pipeline

    items, full = prepared if prepared is not None else _prepare(module, items)

    def cls(trace, matched, status, meta):
        trace = full[meta["_i"]]
        if status.startswith("env_"):
            keys = ("dir", "nxt", "di", "txv", "txd", "txr", "opm", "do", "stp", "r4", "ra")
            ctx = [{k: r[k] for k in keys} for r in trace[max(0, matched - 4):matched]]
            raise Machinery("stimulus left the specification's Env (%s) at step %d of %s: %s"
                            % (status, matched, meta, ctx))
        return classify(trace, matched, status, meta)
    if precomputed is None:
        return validate_group(rep, SPEC_DIR, module, cfg, items, classify=cls, what_prefix="UTMITranslator ")
    real = tlc.validate_traces
    pipeline.tlc.validate_traces = lambda *a, **k: precomputed
    try:
        return validate_group(rep, SPEC_DIR, module, cfg, items, classify=cls, what_prefix="UTMITranslator ")
    finally:
        pipeline.tlc.validate_traces = real


# ================================================================================================
# C22 — receive
# ================================================================================================
RX_MC_DATA = "{165, 29}"            # a data byte that looks like an RxCmd with RxActive, and a plain one
RX_MC_CMDS = "{13, 29, 62, 32}"     # idle J/VbusValid, RxActive, RxActive+RxError (K), HostDisconnect/SessEnd


def rx_nontriv(rep, trace):
    pdir = 0
    for r in trace:
        if r["dir"] or r["rxv"] or r["rxa"]:
            ev = (r["di"] >> 4) & 3 if (r["dir"] and pdir and not r["nxt"]) else -1
            rep.nontriv(("rx", r["dir"], pdir, r["nxt"], ev, r["rxv"], r["rxa"]))
        pdir = r["dir"]


def check_C22(rep):
    quick = rep.tier == "quick"
    rng = rep.rng
    rep.rule = ("real-UTMITranslator cycles validated against UlpiRx.tla; a cycle is non-trivial when DIR is high or "
                "rx_valid/rx_active is asserted; distinct by (DIR, previous DIR, NXT, RxCmd event bits, rx_valid, "
                "rx_active)")
    rep.assume("PHY follows ULPI 1.1 s3.8: NXT is low in the cycle DIR falls; with DIR high NXT=1 only inside a receive")
    rep.assume("observation windows: a presented byte is reported 1..2 cycles later; rx_active / status flags reflect "
               "the PHY state of one of the last 3 cycles; before the first RxCmd the flags are unconstrained")
    rep.assume("ULPI vbus encoding: SessValid is unconstrained for VbusState=3, SessEnd for VbusState>=2 (X in Table 8)")
    rep.assume("clean stimuli: no data byte in the cycle directly after the RxCmd that raised RxActive, and no "
               "register write pending while the PHY sends RxCmds (control inputs constant at the PHY reset "
               "values); both excluded cases are exercised by witness stimuli (known findings)")

    # 1. exhaustive exploration of the specification (full Env, including the known-finding trigger)
    bounds = [(2, 3)] if quick else [(2, 3), (2, 4), (3, 2)]
    for mp, ml in bounds:
        cfg = tlc.render_cfg(_cfg("MCUlpiRx.cfg.tmpl"), {"AllowKF": "TRUE", "DataBytes": RX_MC_DATA,
                                                         "RxCmdBytes": RX_MC_CMDS, "MaxPkts": mp, "MaxLen": ml,
                                                         "MaxReads": 1})
        res = tlc.model_check(SPEC_DIR, "MCUlpiRx", cfg, timeout=3000)
        rep.add_mc("MCUlpiRx MaxPkts=%d MaxLen=%d" % (mp, ml), res,
                   {"MaxPkts": mp, "MaxLen": ml, "DataBytes": [165, 29], "RxCmdBytes": [13, 29, 62, 32],
                    "MaxLat": 3, "MaxDataLat": 2, "MaxReads": 1})

    scripts = []
    # 2a. TLC-simulated Env behaviours, clean (spec -> code)
    cfg = tlc.render_cfg(_cfg("MCUlpiRx.cfg.tmpl"), {"AllowKF": "TRUE", "DataBytes": RX_MC_DATA,
                                                     "RxCmdBytes": RX_MC_CMDS, "MaxPkts": 3, "MaxLen": 3,
                                                     "MaxReads": 0})
    behs = tlc.simulate(SPEC_DIR, "MCUlpiRx", cfg, num=150 if quick else 1500, depth=30, seed=rep.seed * 11 + 22)
    for b in behs:
        s = script_from_rx_behaviour(b)
        s["phy"] = {"clean_rx": False}
        scripts.append((s, {"class": "clean", "origin": "tlc-simulate"}))
    # 2b. random receive schedules beyond the model's bounds, interleaved with transmits (NXT with DIR low)
    for k in range(40 if quick else 400):
        n = 240 if quick else 400
        s = {"n": n, "choices": phy_choices(rng, n, rx_rate=rng.choice([0.05, 0.1, 0.2]),
                                            acc_p=rng.choice([0.5, 1.0]), clean=False, maxlen=rng.choice([3, 8, 20])),
             "phy": {"clean_rx": False, "max_stall": 3}}
        if k % 2:
            s["packets"] = packets(rng, 6, 5)
            s["starts"] = set(rng.sample(range(2, n - 30), 6))
        if k % 3 == 0:          # register writes (control changes at random instants) concurrent with the receives
            s["ctrl"] = {t: ctrl_change(rng) for t in rng.sample(range(2, n - 30), 6)}
            s["gate_tx"] = True
        scripts.append((s, {"class": "clean", "origin": "random"}))
    # 2c. witnesses of the two open findings
    def C(b):
        return {"acc": True, "rx": "cmd", "b": b}

    def D(b):
        return {"acc": True, "rx": "data", "b": b}
    UP, DN = {"acc": True, "rx": "up"}, {"acc": True, "rx": "down"}
    for gap in (0, 1):
        ch = [N(), N(), UP, C(0x0D), C(0x1D)] + ([N()] * gap if gap else []) + \
             [D(0xB1), D(0xB2), D(0xB3), C(0x0D), DN] + [N()] * 5
        scripts.append(({"n": len(ch), "choices": ch},
                        {"class": "witness" if gap == 0 else "clean", "origin": "directed-rxcmd-start-gap%d" % gap}))
    UPN = {"acc": True, "rx": "up_nxt"}
    for gap in (1, 3):
        ch = [N(), UPN, C(0x1D), D(0xA1), D(0xA2), DN] + [N()] * gap + \
             [UP, C(0x1D), C(0x1D), D(0xB1), D(0xB2), C(0x0D), DN] + [N()] * 5
        scripts.append(({"n": len(ch), "choices": ch},
                        {"class": "witness", "origin": "directed-rxcmd-start-after-dir-abort"}))
    for k in range(3):
        ch = [N(), N(), UP, C(0x0D), C(0x0E), C(0x1E), N(), D(0xC1), D(0xC2), DN] + [N()] * 12
        scripts.append(({"n": len(ch), "choices": ch, "ctrl": {3 + k: {"opm": 1}}},
                        {"class": "witness", "origin": "directed-rxcmd-during-register-write"}))

    # 2c'. a receive beginning at every cycle offset of a register write (the PHY aborts the write; the link retries)
    scripts += receive_over_write_scripts(rng, quick)

    items = run_scripts(rep, scripts)
    for trace, meta in items:
        rx_nontriv(rep, trace)
        if meta["origin"] == "receive-over-register-write":
            k = next((i for i, r in enumerate(trace) if r["dir"]), 0)
            rep.nontriv(("rx_over_write", meta["start"], trace[k]["do"] >> 6, trace[k]["stp"], trace[max(0, k - 1)]["nxt"]))
    cfg = tlc.render_cfg(_cfg("UlpiRxTrace.cfg.tmpl"), {"CheckStream": "TRUE"})
    validate(rep, "UlpiRxTrace", cfg, items, classify_rx)

    # 2d. configuration sweep: RESETB/clock records, domain reset in mid-receive, renamed / raw clock domains
    classes = [c for c in config_classes(rep.seed, quick) if "record" in c[1]]
    jobs = []
    for name, config in classes:
        cscripts = []
        for k in range(3 if quick else 25):
            n = 200
            sc = {"n": n, "choices": phy_choices(rng, n, rx_rate=0.15, acc_p=1.0, clean=False, maxlen=8),
                  "phy": {"clean_rx": False, "max_stall": 3},
                  "resets": set(rng.sample(range(10, n - 30), 2)) if has_rst(config) else set()}
            cscripts.append((sc, {"class": "clean", "origin": "config-sweep", "config": name}))
        citems = run_scripts(rep, cscripts, config)
        for trace, meta in citems:
            rx_nontriv(rep, trace)
            rep.nontriv(("config", name.split(" startup")[0]))
        jobs.append(("UlpiRxTrace", cfg, citems, classify_rx))
    validate_all(rep, jobs)
    rep.extra["configurations"] = ["base: plain record, handle_clocking=False"] + [n for n, _ in classes] + \
        ["ULPIRegisterWindow + ULPIRxEventDecoder (register reads)"]

    # 3. register reads (UTMITranslator cannot issue them): register window + RxCmd decoder wired as in the
    #    translator; read data (values that decode to other line states / RxActive) must never act as an RxCmd
    from ..hosts.ulpi_phy import WindowDecoderBench
    wb = WindowDecoderBench()
    ritems = []
    for k in range(14 if quick else 140):
        witness = k % 7 == 6          # RxCmds while an operation is pending: open finding
        ch, ops = [{}, {}], {}
        while len(ch) < 150:
            if rng.random() < 0.5:
                ch += [{"rx": "up"}] + [{"rx": "cmd", "b": rng.choice(IDLE_CMDS)} for _ in range(rng.randint(1, 3))] + \
                      [{"rx": "down"}, {}]
            if rng.random() < 0.7:
                a = rng.choice([0x04, 0x0A, 0x16])
                ops[len(ch) - (2 if witness else 0)] = ("read", a) if rng.random() < 0.7 else \
                    ("write", a, rng.choice([0x5E, 0x1E, 0x3D, 0x49]))
                ch += [{}] * (2 if witness else 16)
        ch = [dict(c, acc=rng.random() < 0.7) for c in ch]
        recs, phy, reads = wb.run({"n": len(ch) + 20, "choices": ch, "ops": ops,
                                   "regs": {0x04: 0x5E, 0x0A: 0x1E, 0x16: 0x3D}, "phy": {"max_stall": 3}})
        rep.add_eval(len(recs))
        for r in recs:
            if r["rr"]:
                rep.nontriv(("read_data", r["di"], r["ls"]))
        ritems.append((recs, {"class": "witness" if witness else "clean", "origin": "random-register-reads",
                              "dut": "window+decoder", "reads_completed": len(reads)}))
    cfg = tlc.render_cfg(_cfg("UlpiRxTrace.cfg.tmpl"), {"CheckStream": "FALSE"})
    validate(rep, "UlpiRxTrace", cfg, ritems, classify_rx)
    rep.notes.append("register-read clause: %d read/write operations completed on ULPIRegisterWindow+ULPIRxEventDecoder"
                     % sum(m["reads_completed"] for _, m in ritems))
    rep.sample({"origin": items[0][1]["origin"], "first_cycles": [
        {k: r[k] for k in ("dir", "nxt", "di", "rxv", "rxd", "rxa", "ls", "vv")} for r in items[0][0][:10]]})



# ================================================================================================
# C23 — transmit
# ================================================================================================
def tx_nontriv(rep, trace):
    for r in trace:
        if r["txv"] or r["stp"]:
            rep.nontriv(("tx", r["do"] >> 6, r["nxt"], r["txr"], r["stp"], r["opm"], r["dir"], r["txv"]))


def tx_script(rng, n, npk, maxlen, opms, acc_p, rx_rate, max_stall=3):
    """Random transmit schedule: packets with per-packet op_mode (changed only between packets)."""
    pk = packets(rng, npk, maxlen)
    starts = sorted(rng.sample(range(4, max(n - 40, 10)), npk))
    ctrl = {}
    for k, t in enumerate(starts):
        if rng.random() < 0.5:
            ctrl[max(1, t - rng.randint(1, 6))] = {"opm": rng.choice(opms)}
    return {"n": n, "choices": phy_choices(rng, n, rx_rate=rx_rate, acc_p=acc_p, clean=True),
            "packets": pk, "starts": set(starts), "ctrl": ctrl, "ctrl0": {"opm": rng.choice(opms)},
            "phy": {"max_stall": max_stall, "clean_rx": False}, "gate_ctrl": "tx_idle", "gate_tx": True}


def check_C23(rep):
    quick = rep.tier == "quick"
    rng = rep.rng
    rep.rule = ("real-UTMITranslator cycles validated against UlpiTx.tla; a cycle is non-trivial when tx_valid or STP is "
                "asserted; distinct by (command kind on data.o, NXT, tx_ready, STP, op_mode, DIR, tx_valid)")
    rep.assume("UTMI transmitter holds tx_valid/tx_data until the cycle after tx_ready and keeps op_mode constant from "
               "tx_valid until STP")
    rep.assume("PHY asserts NXT (DIR low) only while owed a byte, never raises DIR inside the data phase of a transmit "
               "and keeps NXT low in the cycle DIR falls")
    rep.assume("control inputs do not change between tx_valid and the acceptance of the TXCMD, and transmissions start "
               "only after pending register writes completed (the start race is carved out as C24's open finding)")
    rep.assume("start latency: the TXCMD appears within MaxStart=8 idle-bus cycles after tx_valid (property leaves the "
               "latency free; data.o is not constrained in turn-around cycles)")

    bounds = [("{0, 2}", 2, 3, 2, 1)] if quick else [("{0, 2}", 2, 3, 2, 2), ("{0, 1, 2}", 2, 3, 2, 1), ("{0, 2}", 2, 4, 3, 1)]
    for opms, mp, ml, md, du in bounds:
        cfg = tlc.render_cfg(_cfg("MCUlpiTx.cfg.tmpl"), {"MaxStart": 2, "TxBytes": "{195, 90}", "OpModes": opms,
                                                         "MaxPkts": mp, "MaxLen": ml, "MaxDelay": md, "MaxDirUps": du})
        res = tlc.model_check(SPEC_DIR, "MCUlpiTx", cfg, timeout=3000)
        rep.add_mc("MCUlpiTx OpModes=%s MaxPkts=%d MaxLen=%d MaxDelay=%d MaxDirUps=%d" % (opms, mp, ml, md, du), res,
                   {"TxBytes": [195, 90], "OpModes": opms, "MaxPkts": mp, "MaxLen": ml, "MaxDelay": md,
                    "MaxDirUps": du, "MaxStart": 2})

    scripts = []
    # spec -> code: TLC-simulated schedules
    cfg = tlc.render_cfg(_cfg("MCUlpiTx.cfg.tmpl"), {"MaxStart": 2, "TxBytes": "{195, 90, 0, 255}", "OpModes": "{0, 1, 2}",
                                                     "MaxPkts": 3, "MaxLen": 4, "MaxDelay": 3, "MaxDirUps": 3})
    behs = tlc.simulate(SPEC_DIR, "MCUlpiTx", cfg, num=120 if quick else 1200, depth=60, seed=rep.seed * 13 + 23)
    for b in behs:
        pk, opms, starts, ch = script_from_tx_behaviour(b)
        if not pk:
            continue
        ctrl = {}
        for k, t in enumerate(starts[1:]):
            ctrl[max(1, t - 2)] = {"opm": opms[k + 1]}
        scripts.append(({"n": len(ch) + 60, "choices": ch, "packets": pk, "starts": set(starts), "ctrl": ctrl,
                         "ctrl0": {"opm": opms[0]}, "phy": {"max_stall": 3, "clean_rx": False},
                         "gate_ctrl": "tx_idle", "gate_tx": True}, {"class": "clean", "origin": "tlc-simulate"}))
    # code -> spec: random schedules beyond the bounds
    for k in range(40 if quick else 400):
        s = tx_script(rng, 260 if quick else 500, rng.randint(2, 8), rng.choice([1, 2, 4, 9]), [0, 0, 1, 2, 2, 3],
                      rng.choice([0.3, 0.6, 1.0]), rng.choice([0.0, 0.03, 0.1]))
        scripts.append((s, {"class": "clean", "origin": "random"}))
    # the repository's own directed scenarios (SOF PID, ACK handshake), re-driven through the PHY model
    for pkt, acc in (([0xA5, 0x11], 1.0), ([0xD2], 1.0), ([0xD2], 0.3), ([0xC3] + list(range(1, 13)), 0.5)):
        for opm in (0, 2):
            s = {"n": 90, "choices": [{"acc": rng.random() < acc} for _ in range(90)], "packets": [pkt], "starts": {12},
                 "ctrl0": {"opm": opm}, "phy": {"max_stall": 4}, "gate_tx": True}
            scripts.append((s, {"class": "clean", "origin": "directed"}))

    items = run_scripts(rep, scripts)
    for trace, meta in items:
        tx_nontriv(rep, trace)
    cfg = tlc.render_cfg(_cfg("UlpiTxTrace.cfg.tmpl"), {"MaxStart": 8, "Startup": 0})
    validate(rep, "UlpiTxTrace", cfg, items, classify_tx)

    # configuration sweep: RESETB/clock records with the start-up wait, domain resets in mid-packet, platform raw clock
    # domain, renamed clock domain (the transmit path itself has no parameters)
    classes = [c for c in config_classes(rep.seed, quick) if "record" in c[1]]
    jobs = []
    for name, config in classes:
        cscripts = []
        for k in range(3 if quick else 25):
            sc = tx_script(rng, 240, rng.randint(3, 6), rng.choice([1, 3, 6]), [0, 0, 1, 2, 2, 3],
                           rng.choice([0.4, 1.0]), rng.choice([0.0, 0.05]))
            sc["resets"] = set(rng.sample(range(10, 180), rng.choice([1, 2]))) if has_rst(config) else set()
            sc["starts"] = set(sc["starts"]) | {1} | {t + rng.randint(1, 3) for t in sc["resets"]}
            sc["packets"] = sc["packets"] + packets(rng, 3, 3)
            cscripts.append((sc, {"class": "clean", "origin": "config-sweep", "config": name}))
        citems = run_scripts(rep, cscripts, config)
        for trace, meta in citems:
            tx_nontriv(rep, trace)
            rep.nontriv(("config", name.split(" startup")[0]))
        nx = len(config.get("extra", [])) + len((config.get("platform") or {}).get("extra") or {})
        cfg = tlc.render_cfg(_cfg("UlpiTxTrace.cfg.tmpl"), {"MaxStart": 8 + (config.get("startup") or 0) + 4 + 12 * nx,
                                                             "Startup": config.get("startup") or 0})
        jobs.append(("UlpiTxTrace", cfg, citems, classify_tx))
        items += citems
    validate_all(rep, jobs)
    rep.extra["configurations"] = ["base: plain record, handle_clocking=False"] + [n for n, _ in classes]
    sent = sum(m["packets_sent"] for _, m in items)
    rep.notes.append("%d UTMI packets completed on the real module in %d traces" % (sent, len(items)))
    tr = next(t for t, m in items if m["packets_sent"])
    k = next(i for i, r in enumerate(tr) if r["txv"])
    rep.sample({"first_transmission_cycles": [
        {x: r[x] for x in ("dir", "nxt", "txv", "txd", "opm", "do", "oe", "stp", "txr")} for r in tr[k:k + 10]]})


# ================================================================================================
# C24 — control registers
# ================================================================================================
def reg_nontriv(rep, trace):
    for r in trace:
        mism = _unsettled(r)
        if mism or (r["do"] >> 6) == 2 or r["stp"]:
            rep.nontriv(("reg", r["do"] >> 6, r["nxt"], r["stp"], r["dir"], mism, r["txv"]))
            if (r["do"] >> 6) == 2 and r["nxt"]:
                rep.nontriv(("reg_addr", r["do"] & 63))


def reg_bounds(maxlen, max_stall):
    w = (maxlen + 1) * (max_stall + 1) + 2 * (max_stall + 1) + 16
    t = 2 * (2 * (max_stall + 1) + 8) + 8
    return w, t


def reg_script(rng, n, clean, maxlen=5, max_stall=2):
    ctrl = {}
    for _ in range(rng.randint(1, 8)):
        ctrl[rng.randrange(2, n - 70)] = ctrl_change(rng)
    s = {"n": n, "choices": phy_choices(rng, n, rx_rate=rng.choice([0.0, 0.03, 0.08]), acc_p=rng.choice([0.4, 0.7, 1.0]),
                                        clean=True, maxlen=4),
         "ctrl": ctrl, "packets": packets(rng, rng.randint(0, 5), maxlen),
         "starts": set(rng.sample(range(2, n - 50), 8)), "phy": {"max_stall": max_stall, "clean_rx": False},
         "ctrl0": rng.choice([{}, {"xcvr": 0, "dppd": 0}, {"opm": 1}, {"extvbus": 1, "term": 1}])}
    if clean:
        s["gate_ctrl"] = "converged"
        s["gate_tx"] = True
    return s


def check_C24(rep):
    quick = rep.tier == "quick"
    rng = rep.rng
    maxlen, max_stall = 5, 2
    wb, tb = reg_bounds(maxlen, max_stall)
    rep.rule = ("real UTMITranslator + PHY-model cycles validated against UlpiReg.tla; a cycle is non-trivial when a "
                "register mismatch is outstanding, a register command is on the bus or STP is asserted; distinct by "
                "(command kind, NXT, STP, DIR, mismatch, tx_valid)")
    rep.assume("PHY follows the ULPI protocol (NXT only while owed a byte, withheld for at most %d cycles; DIR aborts "
               "a command; no DIR inside a transmit's data phase); register writes commit on STP" % max_stall)
    rep.assume("bounded liveness on real traces: a register mismatch may persist for at most WBound=%d, a transmit "
               "request may wait for at most TBound=%d link-owned cycles (packets <= %d bytes); in the exhaustive "
               "model convergence and transmitter service are checked as temporal properties under weak fairness"
               % (wb, tb, maxlen))
    rep.assume("a write (a, d) carries a requested value when d was requested for a at some cycle since the previous "
               "write to a completed")
    rep.assume("clean stimuli: control inputs change only when the PHY registers have converged and no TXCMD is "
               "waiting to be accepted; transmissions start only when converged; all other schedules are witness "
               "stimuli (known findings: change during a write in flight; transmit-start race)")

    # 1. exhaustive: safety on the larger instance, liveness on the smaller one
    # (kind, OpModes, OtgCodes, MaxChanges, MaxDelay, MaxDirUps, MaxPkts, MaxLen)
    runs = [("safety", "{0, 1, 2}", "{0, 1}", 2, 2, 1, 1, 2), ("liveness", "{0, 1, 2}", "{0}", 2, 1, 1, 1, 2)]
    if not quick:
        runs = [("safety+liveness", "{0, 1, 2}", "{0, 1}", 3, 2, 1, 1, 2), ("safety", "{0, 1, 2}", "{0, 1, 2}", 3, 2, 1, 1, 2),
                ("safety", "{0, 1}", "{0, 1}", 3, 2, 2, 2, 2)]
    for kind, opms, otgs, mc, md, du, mp, ml in runs:
        tmpl = _cfg("MCUlpiReg.cfg.tmpl")
        if kind == "safety":
            tmpl = "\n".join(l for l in tmpl.splitlines() if not l.startswith("PROPERTY")).replace("FairSpec", "Spec")
        cfg = tlc.render_cfg(tmpl, {"OpModes": opms, "OtgCodes": otgs, "MaxChanges": mc, "MaxDelay": md,
                                    "MaxDirUps": du, "MaxPkts": mp, "MaxLen": ml})
        res = tlc.model_check(SPEC_DIR, "MCUlpiReg", cfg, timeout=6000)
        rep.add_mc("MCUlpiReg(%s) OpModes=%s OtgCodes=%s MaxChanges=%d MaxDelay=%d MaxDirUps=%d MaxPkts=%d MaxLen=%d"
                   % (kind, opms, otgs, mc, md, du, mp, ml), res,
                   {"OpModes": opms, "OtgCodes": otgs, "MaxChanges": mc, "MaxDelay": md, "MaxDirUps": du,
                    "MaxPkts": mp, "MaxLen": ml, "checked": kind})

    scripts = []
    # 2a. spec -> code: Env schedules of the mechanism model, replayed gated (clean) and raw
    tmpl = "\n".join(l for l in _cfg("MCUlpiReg.cfg.tmpl").splitlines() if not l.startswith("PROPERTY")).replace(
        "FairSpec", "Spec")
    cfg = tlc.render_cfg(tmpl, {"OpModes": "{0, 1, 2}", "OtgCodes": "{0, 1, 2}", "MaxChanges": 4, "MaxDelay": 2,
                                "MaxDirUps": 2, "MaxPkts": 2, "MaxLen": 3})
    behs = tlc.simulate(SPEC_DIR, "MCUlpiReg", cfg, num=50 if quick else 500, depth=45, seed=rep.seed * 17 + 24)
    for b in behs:
        ctrl, starts, ch = script_from_reg_behaviour(b)
        base = {"n": len(ch) + 90, "choices": ch, "ctrl": ctrl, "packets": packets(rng, len(starts), 3),
                "starts": set(starts), "phy": {"max_stall": max_stall}}
        scripts.append((dict(base, gate_ctrl="converged", gate_tx=True), {"class": "clean", "origin": "tlc-simulate"}))
        # raw replays, one known-finding trigger family per trace: control changes at the model's instants but no
        # transmissions / transmissions at the model's instants but control changes only when settled
        scripts.append((dict(base, packets=[], starts=set()), {"class": "raw-ctrl", "origin": "tlc-simulate"}))
        scripts.append((dict(base, gate_ctrl="settled"), {"class": "raw-tx", "origin": "tlc-simulate"}))
    # 2b. code -> spec: random schedules
    for k in range(40 if quick else 400):
        scripts.append((reg_script(rng, 260 if quick else 500, True, maxlen, max_stall),
                        {"class": "clean", "origin": "random"}))
    for k in range(10 if quick else 100):
        s = reg_script(rng, 200, False, maxlen, max_stall)
        if k % 2:
            scripts.append((dict(s, packets=[], starts=set()), {"class": "raw-ctrl", "origin": "random"}))
        else:
            scripts.append((dict(s, gate_ctrl="settled"), {"class": "raw-tx", "origin": "random"}))
    # 2c. directed witnesses (DESIGN.md Appendix A and relatives)
    idle = [N()] * 90
    for dt in (3, 4, 5):
        scripts.append(({"n": 90, "choices": idle, "ctrl": {3: {"opm": 2}, 3 + dt: {"opm": 1}}},
                        {"class": "witness", "origin": "directed-appendixA-opmode-0-2-1"}))
    for dt in (1, 2, 3):
        scripts.append(({"n": 90, "choices": idle, "ctrl": {3: {"opm": 2}, 3 + dt: {"opm": 0}}},
                        {"class": "witness", "origin": "directed-back-to-old-value"}))
    for dt in (2, 3, 4):
        scripts.append(({"n": 90, "choices": idle, "ctrl": {3: {"idpu": 1}, 3 + dt: {"opm": 1}}},
                        {"class": "witness", "origin": "directed-other-register-mid-write"}))
    for dt in (0, 1, 2):
        scripts.append(({"n": 110, "choices": idle + [N()] * 20, "ctrl": {10 + dt: {"opm": 1}},
                         "packets": [[0xC3, 0x11, 0x22]], "starts": {10}},
                        {"class": "witness", "origin": "directed-change-with-transmit-start"}))
    # DIR rising at every phase of a register write (clean: inputs stable), two NXT patterns
    for off in range(0, 10):
        for acc in (True, False):
            ch = [{"acc": acc or (t % 2 == 0)} for t in range(70)]
            ch[5 + off] = dict(ch[5 + off], rx="up")
            ch[6 + off] = dict(ch[6 + off], rx="cmd", b=0x0D)
            ch[7 + off] = dict(ch[7 + off], rx="down")
            scripts.append(({"n": 70, "choices": ch, "ctrl": {5: {"opm": 1, "idpu": 1}}, "phy": {"max_stall": max_stall}},
                            {"class": "clean", "origin": "directed-dir-sweep"}))
    # a USB receive beginning at every cycle offset of a register write: the write is aborted and must be retried
    scripts += receive_over_write_scripts(rng, quick)
    # control: the same shapes spaced out are clean
    scripts.append(({"n": 120, "choices": idle + [N()] * 30, "ctrl": {3: {"opm": 2}, 30: {"opm": 1}, 60: {"idpu": 1, "opm": 0}},
                     "packets": [[0xC3, 0x11, 0x22]], "starts": {90}}, {"class": "clean", "origin": "directed"}))

    items = run_scripts(rep, scripts)
    for trace, meta in items:
        reg_nontriv(rep, trace)
    cfg = tlc.render_cfg(_cfg("UlpiRegTrace.cfg.tmpl"), config_constants(None, maxlen, max_stall))
    validate(rep, "UlpiRegTrace", cfg, items, classify_reg)

    # 3. configuration sweep: records with RESETB/clock pins and the start-up wait (scaled constant), domain resets in
    #    mid-operation, extra registers (constant / signal, with and without default, platform-provided), a raw clock
    #    domain from the platform, a renamed clock domain
    classes = config_classes(rep.seed, quick)
    if not quick:
        classes.append(("real 1 ms start-up wait (60000 cycles)", cfg_rst(None, "rst")))
    jobs = []
    for name, config in classes:
        real = "real 1 ms" in name
        xs = [a for a, k, _, _ in config.get("extra", []) if k == "sig"]
        cscripts = []
        for k in range(1 if real else (3 if quick else 30)):
            n = 60400 if real else 230
            sc = reg_script(rng, n if not real else 400, k % 2 == 0, maxlen, max_stall)
            sc["n"] = n
            if real:
                sc["choices"] = sc["choices"][:300]
                sc["starts"] = {50, 60100}
                sc["ctrl"] = {20: {"opm": 1}, 60150: {"opm": 2, "idpu": 1}}
            if has_rst(config) and not real:
                sc["resets"] = set(rng.sample(range(20, n - 80), rng.choice([1, 1, 2])))
                # a transmission and a pending register change wait right behind every reset
                sc["starts"] = set(sc["starts"]) | {1} | {t + rng.randint(1, 3) for t in sc["resets"]}
                sc["packets"] = sc["packets"] + packets(rng, 3, 3)
                if k % 2:
                    sc["ctrl0"] = {"opm": rng.choice([1, 2]), "idpu": 1}
            if xs:
                sc["xsig"] = {t: {a: rng.choice([0x00, 0x10, 0x22, 0xFF, rng.randrange(256)]) for a in xs}
                              for t in rng.sample(range(3, n - 70), rng.randint(1, 5))}
            cscripts.append((sc, {"class": "clean" if k % 2 == 0 else "raw", "origin": "config-sweep", "config": name}))
        citems = run_scripts(rep, cscripts, config)
        for trace, meta in citems:
            reg_nontriv(rep, trace)
            rep.nontriv(("config", name.split(" startup")[0]))
        consts = config_constants(dict(config, startup=60000) if real else config, maxlen, max_stall)
        jobs.append(("UlpiRegTrace", tlc.render_cfg(_cfg("UlpiRegTrace.cfg.tmpl"), consts), citems, classify_reg))
        items += citems
    rep.extra["configurations"] = ["base: plain record, handle_clocking=False, no extra registers"] + \
        [n for n, _ in classes] + ["ULPIRegisterWindow alone (arguments changed right after the request strobe)"]

    # documented rejections of unsupported configurations (elaboration contract; DRIFT information only)
    from amaranth import Signal, Fragment
    from amaranth.hdl.rec import Record
    from luna.gateware.interface.ulpi import UTMITranslator
    base = [("data", [("i", 8), ("o", 8), ("oe", 1)]), ("nxt", [("i", 1)]), ("stp", [("o", 1)]), ("dir", [("i", 1)])]
    probes = []
    for label, layout in (("bidirectional clk (i/o/oe)", base + [("clk", [("i", 1), ("o", 1), ("oe", 1)])]),
                          ("clk that is no I/O record", base + [("clk", 1)])):
        try:
            Fragment.get(UTMITranslator(ulpi=Record(layout), handle_clocking=True), None)
            probes.append("%s: elaborated although the doc-string promises a TypeError" % label)
        except TypeError:
            pass
    try:
        UTMITranslator(ulpi=Record(base), handle_clocking=False).add_extra_register(0x16, Signal(8))
        probes.append("add_extra_register(Signal) without default_value accepted (documented: ValueError)")
    except ValueError:
        pass
    rep.drift.extend(probes)
    rep.notes.append("unsupported configurations rejected as documented: bidirectional clk, non-I/O clk (TypeError), "
                     "Signal-valued extra register without default (ValueError)" if not probes else
                     "elaboration-contract deviations: %s" % probes)

    # 4. the register window as a part: write/read requests whose address / write_data inputs change right after
    #    the request strobe ("we'll stop latching these in as soon as we're busy"), NXT delays, DIR interruptions
    from ..hosts.ulpi_phy import WindowDecoderBench
    wbench = WindowDecoderBench()
    witems = []
    for k in range(8 if quick else 80):
        ch, ops = [{}, {}], {}
        while len(ch) < 170:
            if rng.random() < 0.3:
                ch += [{"rx": "up"}] + [{"rx": "cmd", "b": rng.choice(IDLE_CMDS)} for _ in range(rng.randint(1, 2))] + \
                      [{"rx": "down"}, {}]
            a = rng.choice([0x16, 0x31, 0x16, 0x31, 0x05])
            ops[len(ch) - rng.choice([0, 0, 2, 3])] = ("read", a) if (a == 0x05 or rng.random() < 0.2) else \
                ("write", a, rng.randrange(256))
            ch += [{}] * rng.choice([4, 9, 14])
        ch = [dict(c, acc=rng.random() < 0.6) for c in ch]
        recs, phy, reads = wbench.run({"n": len(ch) + 40, "choices": ch, "ops": ops, "regs": {0x16: 0x11, 0x31: 0x22},
                                       "phy": {"max_stall": max_stall}, "scramble": rng})
        rep.add_eval(len(recs))
        reg_nontriv(rep, recs)
        witems.append((recs, {"class": "clean", "origin": "window-args-scrambled", "dut": "ULPIRegisterWindow",
                              "ops_completed": len(reads)}))
    consts = config_constants({"extra": [(0x16, "const", 0, None), (0x31, "const", 0, None)],
                               "phy_regs": {0x16: 0x11, 0x31: 0x22}}, maxlen, max_stall)
    consts["WBound"] += 60          # requests queue up behind each other in this bench
    jobs.append(("UlpiRegTrace", tlc.render_cfg(_cfg("UlpiRegTrace.cfg.tmpl"), consts), witems, classify_reg))
    validate_all(rep, jobs)
    clean = [(t, m) for t, m in items if m["class"] == "clean"]
    rep.notes.append("%d clean / %d raw+witness traces; PHY register writes observed: %d" % (
        len(clean), len(items) - len(clean), sum(1 for t, _ in items for i in range(1, len(t))
                                                    if (t[i]["r4"], t[i]["ra"]) != (t[i - 1]["r4"], t[i - 1]["ra"]))))
    tr = items[0][0]
    k = next((i for i, r in enumerate(tr) if (r["do"] >> 6) == 2), 0)
    rep.sample({"first_register_write_cycles": [
        {x: r[x] for x in ("dir", "nxt", "txv", "opm", "idpu", "do", "stp", "r4", "ra")} for r in tr[max(0, k - 2):k + 8]]})


CHECKS = {"C22": check_C22, "C23": check_C23, "C24": check_C24}
