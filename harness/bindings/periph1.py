"""Engine `periph1` — small peripherals: C49 UART transmitters, C50 SPI device, C51 SPI register interface,
C54 PHY reset controller, C55 strobe stretcher.  One TLA+ module per component in specs/periph1/."""
import os
import time

from .. import tlc
from ..core import use_repo
from ..pipeline import validate_group
from ..sim import CycleDriver

ENGINE = "periph1"
SPEC_DIR = "periph1"
WORKERS = int(os.environ.get("VERIF_TLC_WORKERS", "4"))
# The models here are small: a handful of GC / JIT threads is plenty and keeps TLC usable on a shared machine.
JVM_ENV = {"JAVA_TOOL_OPTIONS": "-XX:ParallelGCThreads=4 -XX:CICompilerCount=3"}

META = {
    "C51": {
        "text": "SpiReg.tla specifies the register interface at bus-event grain from the documented transaction format "
                "(W + address, then value in / register value out): a transaction reads back the addressed register's "
                "current value (default for unassigned / write-only addresses), a completed write updates exactly that "
                "register with the transmitted bits and strobes its write strobe once, an abort before the last data bit "
                "and any clocks after the word or while deselected change nothing. TLC explores every event sequence "
                "(all commands, addresses, data, aborts after any number of bits incl. mid-bit, pokes) on small register "
                "files and proves the theorems. The real SPIRegisterInterface (address/register sizes 15/32, 7/8, 4/5, "
                "3/2, 2/2, 1/3, 1/1; memory, constant, signal-backed and write-only registers; aborts after every bit count "
                "and with CS released -2..+4 cycles around either SCK edge, each followed by a read-back) is driven by a host model "
                "that expands events into clock cycles with random legal timing; every event's observations (SDO while "
                "SCK high, write-strobe counts, register values, write values) are validated by TLC.",
        "note": "Timing is an environment assumption of the host model (SCK high >= 2, >= 4 device cycles after each "
                "falling edge / CS change, effects visible within that window). Read strobes, idle/stalled and SDO during "
                "the command phase are not constrained. Trusted base: TLC, amaranth.sim, the event-expanding host model "
                "and its per-event observation collector in the binding.",
        "technique": "event-grain TLA+ protocol spec, TLC exhaustive + batch validation of host-model event traces",
        "design_ref": "DESIGN.md §5 C51",
    },
    "C50": {
        "text": "SpiDev.tla specifies the word-oriented SPI device at cycle grain from the property and the SPI mode "
                "conventions: every word_size consecutive sample edges under one CS assertion form one word in the "
                "configured bit order, reported exactly once (strobe 1..4 cycles after the completing edge); in CPHA=1 "
                "modes the host samples the bits of the presented word. TLC explores every legal host behaviour (CS at "
                "any time, aborts at any bit, foreign clocking, word_out changes) for small word sizes in all four modes "
                "and both bit orders and proves the whole-word, reported-once and SDO theorems. The real "
                "SPIDeviceInterface is driven for word sizes 1..17 x CPOL x CPHA x msb/lsb (and cs_idles_high variants) "
                "with TLC-simulated behaviours and a seeded-random cycle-level host (1..3 words per CS assertion, CS released "
                "exactly 1..6 cycles after the last edge and asserted 1..6 cycles before the first, aborts between any "
                "two edges); every recorded cycle is validated by TLC against the specification.",
        "note": "Host assumptions: SCK edges (and CS changes) at least two device cycles apart, SCK and CS never in the "
                "same cycle (adjacent cycles allowed: CS release 1..6 cycles after the last edge is swept), CS asserted "
                "with SCK idle, SDI "
                "stable on SCK edges, word_out stable around transitions and until the strobe. word_in between strobes, "
                "SDO outside the host's sample edges and SDO in CPHA=0 modes are not constrained (the property does not "
                "state them). LSB-first transmission is checked in the configured order. Trusted base: TLC, "
                "amaranth.sim, the cycle driver, the host stimulus builder.",
        "technique": "cycle-grain TLA+ spec with explicit host rules, TLC exhaustive + batch trace validation",
        "design_ref": "DESIGN.md §5 C50, Appendix A",
    },
    "C49": {
        "text": "Uart.tla specifies both transmitters in explicit time from the 8N1 convention: the line is a schedule of "
                "start(0), eight data bits LSB first, stop(1), each exactly `divisor` cycles, words split little-endian; "
                "accepted bytes queue in order. TLC explores all producer schedules (back-to-back and spaced) and all "
                "permitted transmitter choices for divisors 1..3 and widths 1..2 and proves order preservation, the "
                "declarative frame wave and idle-high. The real UARTTransmitter and UARTMultibyteTransmitter are driven "
                "for divisors 1,2,3,7,16 and byte widths 1..4 with TLC-simulated and seeded-random producer plans; every "
                "cycle is recorded, event-compressed and validated by TLC against the specification.",
        "note": "Stream discipline assumed (a word on offer is held until accepted). The transmitter is free in when it "
                "raises ready and may waste up to 3 cycles before a start bit / before accepting when the line is free; a "
                "stop bit shorter than `divisor` is rejected, a longer gap up to the slack is not. `idle` is only required "
                "to imply ready. Trusted base: TLC, amaranth.sim, the reactive producer bench and the run-length "
                "compressor in the binding.",
        "technique": "explicit-time TLA+ line-schedule spec, TLC exhaustive + batch validation of compressed pysim traces",
        "design_ref": "DESIGN.md §5 C49",
    },
    "C54": {
        "text": "PhyReset.tla specifies the reset sequencer from the property: phy_reset for exactly R cycles, phy_stop "
                "through the reset and exactly S cycles more, then idle and re-triggerable. TLC explores every "
                "(R,S) in 1..20 x 1..20, with/without power-on reset, every trigger pattern and every permitted start "
                "latency, and proves the exact-length, cause and liveness (always finishes, re-triggerable) theorems. "
                "The real PHYResetController is instantiated for all 400 (R,S) pairs (and several clock frequencies), "
                "driven with TLC-simulated and seeded-random trigger schedules (idle-time, mid-sequence and held "
                "triggers) and with the reset of its clock domain held 1..2R+2 cycles at start-up, in the reset pulse, "
                "in the stop phase and while idle; every recorded cycle is validated by TLC against the specification.",
        "note": "A trigger seen while idle must start the reset 1..2 cycles later; a trigger during a running sequence "
                "may be ignored or honoured right after it. Lengths are given to the constructor as exact binary "
                "fractions (cycles/frequency) so the documented ceil() conversion is exact. Trusted base: TLC, "
                "amaranth.sim, the cycle driver. Exhaustive only for the bounded model; implementation traces are sampled.",
        "technique": "TLA+ sequencer spec, TLC exhaustive incl. liveness + batch trace validation of pysim traces",
        "design_ref": "DESIGN.md §5 C54",
    },
    "C55": {
        "text": "Stretch.tla specifies the stretcher as a re-armed hold-off counter and states the property over the "
                "ghost history of strobes (output high exactly in the N cycles starting at a strobe, one cycle later "
                "when delayed); TLC proves the two formulations equal for every length 1..8, both delay settings and "
                "every strobe pattern. The real stretch_strobe_signal logic (no domain argument / explicit sync / another "
                "domain clocked faster or slower than sync, output created / supplied; judged in the requested domain's cycles) "
                "is driven for lengths 1..8 (and larger, non-power-of-two lengths) with TLC-simulated behaviours, "
                "a re-trigger at every offset, held strobes and random strobe trains; every recorded cycle is "
                "validated by TLC against the specification.",
        "note": "When delay is allowed the pulse may start in the strobe's cycle or one cycle later, consistently per "
                "instance (the property says 'allowed'; to_cycles=1 passes the strobe through undelayed). Trusted "
                "base: TLC, amaranth.sim, the cycle driver, a 10-line wrapper module around the function.",
        "technique": "TLA+ counter spec + history-window theorem, TLC exhaustive + batch trace validation",
        "design_ref": "DESIGN.md §5 C55",
    },
}


class _Timer:
    """Wall time per phase of a check, recorded in the evidence (coverage.phase_wall_s)."""

    def __init__(self, rep):
        self.rep, self.t, self.name = rep, time.time(), None
        rep.extra.setdefault("phase_wall_s", {})

    def phase(self, name):
        now = time.time()
        if self.name:
            d = self.rep.extra["phase_wall_s"]
            d[self.name] = round(d.get(self.name, 0.0) + now - self.t, 1)
        self.name, self.t = name, now


def _cfg(name):
    with open(os.path.join(tlc.SPECS, SPEC_DIR, name)) as f:
        return f.read()


# =====================================================================================================
# C55  strobe stretcher
# =====================================================================================================

# how the stretcher is instantiated: (domain argument, output= given)
#   "default"  no domain argument (the function's default: sync)       "sync"  domain=m.d.sync
#   "other>"   domain=m.d.usb, usb clocked faster than sync (x 2.5)     "other<" domain=m.d.usb, usb slower (x 1/3)
_STRETCH_VARIANTS = [(d, o) for d in ("default", "sync", "other>", "other<") for o in (False, True)]


def _stretch_driver(n, allow_delay, variant):
    """The stretcher in a wrapper module that owns its clock domains.  Strobe, domain reset and output are driven /
    sampled once per cycle of the *requested* domain, so hold times are judged in cycles of that domain."""
    use_repo()
    from amaranth import ClockDomain, Elaboratable, Module, Signal
    from luna.gateware.utils.cdc import stretch_strobe_signal
    dom, out_given = variant
    other = dom.startswith("other")

    class StretchDut(Elaboratable):
        def __init__(self):
            self.strobe = Signal()
            self.out = Signal()
            self.sync = ClockDomain("sync")      # owned here, so that the domain reset is an input of the bench
            self.usb = ClockDomain("usb")

        def elaborate(self, platform):
            m = Module()
            m.domains.sync = self.sync
            keep = Signal()                      # keeps the sync domain alive when to_cycles == 1
            m.d.sync += keep.eq(~keep)
            kw = {}
            if other:
                m.domains.usb = self.usb
                keep2 = Signal()
                m.d.usb += keep2.eq(~keep2)
                kw["domain"] = m.d.usb
            elif dom == "sync":
                kw["domain"] = m.d.sync
            if out_given:
                stretch_strobe_signal(m, self.strobe, to_cycles=n, output=self.out, allow_delay=allow_delay, **kw)
            else:
                o = stretch_strobe_signal(m, self.strobe, to_cycles=n, allow_delay=allow_delay, **kw)
                m.d.comb += self.out.eq(o)
            return m

    dut = StretchDut()
    if other:
        usb_period = 1e-6
        sync_period = 2.5e-6 if dom == "other>" else 1e-6 / 3
        return CycleDriver(dut, {"s": dut.strobe, "x": dut.usb.rst}, {"o": dut.out}, domain="usb",
                           clocks={"usb": usb_period, "sync": sync_period}, bool_inputs=("s", "x"), bool_outputs=("o",))
    return CycleDriver(dut, {"s": dut.strobe, "x": dut.sync.rst}, {"o": dut.out}, bool_inputs=("s", "x"),
                       bool_outputs=("o",))


def _stretch_stimuli(rng, n, quick):
    """Structured + random strobe trains for stretch length n; each a list of booleans."""
    out = []
    tail = [False] * (n + 3)
    # a single strobe, then a re-trigger at every offset 1..n+2 after a first strobe
    out.append(("single", [False, False, True] + tail))
    for k in range(1, n + 3):
        s = [False, True] + [False] * (k - 1) + [True] + tail
        out.append(("retrigger@%d" % k, s))
    # held strobes of several lengths
    for m in (2, n, n + 1):
        out.append(("held%d" % m, [False] + [True] * m + tail))
    # three strobes spaced n-1, n, n+1
    for gap in (max(1, n - 1), n, n + 1):
        out.append(("train%d" % gap, [False] + ([True] + [False] * (gap - 1)) * 3 + tail))
    # random trains at several densities
    for p in ((0.5, 0.15, 0.05) if quick else (0.7, 0.5, 0.3, 0.15, 0.08, 0.04, 0.02)):
        for _ in range(1 if quick else 2):
            s = [rng.random() < p for _ in range(40 + 6 * n if quick else 150 + 10 * n)]
            out.append(("random%.2f" % p, s + tail))
    out = [(name, [(b, False) for b in s]) for name, s in out]
    # reset of the clock domain k cycles after a strobe (held 1 or 2 cycles, once with a strobe during the reset),
    # then a fresh strobe some cycles after the release: the stretcher must have forgotten the first one
    for k in range(0, n + 2):
        h = 1 + k % 2
        c = [(False, False), (True, False)] + [(False, False)] * k + [(k % 3 == 0, True)] * h
        c += [(False, False)] * (k % 4) + [(True, False)] + [(False, False)] * (n + 3)
        out.append(("domain-reset@%d" % k, c))
    for p in (0.3, 0.08):
        c = [(rng.random() < p, rng.random() < 0.06) for _ in range(40 + 6 * n if quick else 150 + 10 * n)]
        out.append(("random%.2f+domain-resets" % p, c + [(False, False)] * (n + 3)))
    return out


def _stretch_classify(trace, matched, status, meta):
    steps = trace["steps"]
    k = matched
    pattern = "other"
    if status == "output" and 0 < k <= len(steps):
        n = trace["cfg"]["n"]
        ago = None
        for j in range(k - 1, -1, -1):
            if steps[j]["s"]:
                ago = k - 1 - j
                break
        pattern = "out=%d_last_strobe_%s_cycles_ago_n=%d" % (steps[k - 1]["o"], ago, n)
    return {"clause": status, "pattern": pattern}


def check_C55(rep):
    quick = rep.tier == "quick"
    tm = _Timer(rep)
    rep.rule = ("real stretcher cycles recorded and validated against Stretch.tla; a cycle is non-trivial when the strobe "
                "or the output is high; distinct by (to_cycles, allow_delay, strobe, output, cycles since last strobe)")
    rep.assume("hold times are counted in cycles of the domain the caller requested (default sync, explicit m.d.sync, or "
               "another domain clocked 2.5x faster / 3x slower than sync); strobe and domain reset change once per cycle "
               "of that domain")
    rep.assume("when allow_delay is set the pulse may start in the strobe's cycle or one cycle later (same choice for "
               "the life of an instance); without allow_delay it starts in the strobe's cycle")
    rep.assume("the strobe input may take any value in any cycle (no environment restriction); the reset of the clock "
               "domain may be asserted in any cycle for any length and wipes the memory of earlier strobes")

    tm.phase("model_check")
    # 1. exhaustive exploration of the specification (all lengths, both delay settings, chosen in Init)
    maxn = 8 if quick else 10
    res = tlc.model_check(SPEC_DIR, "MCStretch", tlc.render_cfg(_cfg("MCStretch.cfg.tmpl"), {"MaxN": maxn}),
                          workers=WORKERS, env=JVM_ENV, timeout=1200)
    rep.add_mc("MCStretch n in 1..%d, allow_delay in BOOLEAN, all strobe patterns" % maxn, res,
               {"MaxN": maxn, "allow_delay": [False, True]})

    tm.phase("stimuli")
    # 2. stimuli
    jobs = []   # (n, allow, variant, origin, strobes)
    behs = tlc.simulate(SPEC_DIR, "MCStretch", tlc.render_cfg(_cfg("MCStretch.cfg.tmpl"), {"MaxN": 8}),
                        num=80 if quick else 600, depth=40, seed=rep.seed * 11 + 5, env=JVM_ENV)
    for b in behs:
        st0 = b[0][1]
        jobs.append((st0["n"], st0["allowDelay"], _STRETCH_VARIANTS[len(jobs) % 8], "tlc-simulate",
                     [(st["strobe"], st["rst"]) for _, st in b[1:]]))
    lengths = list(range(1, 9)) + ([12, 17] if quick else [9, 11, 12, 16, 17, 24, 31, 33])
    for i, n in enumerate(lengths):
        for allow in (False, True):
            # every instantiation style (domain argument x output= given) for every (to_cycles, allow_delay): the whole
            # stimulus set on one of them (rotating; all of them in the thorough tier), a short set on the others
            primary = _STRETCH_VARIANTS[(2 * i + allow) % 8]
            short = ("single", "retrigger@1", "retrigger@%d" % n, "held%d" % (n + 1), "domain-reset@1",
                     "random0.30+domain-resets")
            for variant in _STRETCH_VARIANTS:
                for origin, s in _stretch_stimuli(rep.rng, n, quick):
                    if quick and variant != primary and origin not in short:
                        continue
                    jobs.append((n, allow, variant, origin, s))

    tm.phase("drive_real_gateware")
    # 3. run on the real logic
    drivers = {}
    items = []
    for n, allow, variant, origin, strobes in jobs:
        key = (n, allow, variant)
        if key not in drivers:
            drivers[key] = _stretch_driver(n, allow, variant)
        rec = drivers[key].run([{"s": s, "x": x} for s, x in strobes])
        rep.add_eval(len(rec))
        ago = 99
        for r in rec:
            ago = 0 if r["s"] else min(ago + 1, n + 2)
            if r["s"] or r["o"] or r["x"]:
                rep.nontriv((n, allow, r["s"], r["x"], r["o"], ago))
        trace = {"cfg": {"n": n, "allow_delay": bool(allow)}, "steps": rec}
        items.append((trace, {"dut": "stretch_strobe_signal", "to_cycles": n, "allow_delay": bool(allow),
                              "domain": variant[0], "output_given": variant[1], "origin": origin}))
    rep.sample({"cfg": items[0][0]["cfg"], "origin": items[0][1]["origin"], "first_cycles": items[0][0]["steps"][:8]})
    rep.sample({"cfg": items[-1][0]["cfg"], "origin": items[-1][1]["origin"], "first_cycles": items[-1][0]["steps"][:8]})

    tm.phase("validate_traces")
    # 4. validate with TLC
    cfg = tlc.render_cfg(_cfg("StretchTrace.cfg.tmpl"), {"MaxN": max(lengths)})
    validate_group(rep, SPEC_DIR, "StretchTrace", cfg, items, classify=_stretch_classify,
                   steps_of=lambda t: len(t["steps"]), env=JVM_ENV, chunk=2500)
    tm.phase("end")


# =====================================================================================================
# C54  PHY reset controller
# =====================================================================================================

def _pow2ceil(x):
    p = 1
    while p < x:
        p *= 2
    return p


def kf_c54_counter_range(R, S):
    """KF_C54_1 (see PhyReset docs): the stop length exceeds the reset length rounded up to a power of two."""
    return S > _pow2ceil(R)


def _phy_driver(R, S, por, freq):
    """PHYResetController inside a module that owns the `sync` clock domain, so that the domain's reset
    (ResetSignal("sync"), e.g. ~pll_lock in the ECP5 domain generators) is an input of the bench."""
    use_repo()
    from amaranth import Module, ClockDomain
    from luna.gateware.architecture.car import PHYResetController
    dut = PHYResetController(clock_frequency=freq, reset_length=R / freq, stop_length=S / freq, power_on_reset=por)
    if dut.reset_length_cycles != R or dut.stop_length_cycles != S:
        raise RuntimeError("inexact length conversion for R=%d S=%d f=%s" % (R, S, freq))
    m = Module()
    m.domains.sync = sync = ClockDomain()
    m.submodules.dut = dut
    return CycleDriver(m, {"t": dut.trigger, "x": sync.rst}, {"r": dut.phy_reset, "s": dut.phy_stop},
                       bool_inputs=("t", "x"), bool_outputs=("r", "s"))


def _phy_stimulus(rng, R, S, por, rounds, holds=()):
    """Schedule of (trigger, domain reset) per cycle: [domain reset held holds[0] cycles from power-on,] power-on
    sequence, `rounds` of (idle gap, trigger, mid-sequence triggers), then the domain reset asserted for holds[1],
    holds[2], holds[3] cycles in the reset pulse, in the stop phase and while idle (each followed by enough cycles
    for a whole sequence)."""
    seq = R + S
    c = []

    def quiet(n):
        c.extend([(False, False)] * n)

    def hold(k):                                               # domain reset held k cycles; stray triggers are ignored
        c.extend([(rng.random() < 0.15, True) for _ in range(k)])

    def trig(n=1):
        c.extend([(True, False)] * n)

    if holds:
        hold(holds[0])
    quiet(seq + rng.randint(1, 4) if por else rng.randint(1, 4))
    for _ in range(rounds):
        kind = rng.choice(["pulse", "pulse", "held", "double", "mid", "late"])
        if kind == "pulse":
            trig()
            quiet(seq + rng.randint(1, 5))
        elif kind == "held":                                   # held through the whole sequence and beyond
            trig(seq + rng.randint(2, 4))
            quiet(seq + rng.randint(2, 5))
        elif kind == "double":                                 # second trigger in the cycle right after the first
            trig(2)
            quiet(seq + rng.randint(1, 5))
        elif kind == "mid":                                    # trigger at a random point of the running sequence
            k = rng.randint(1, seq)
            trig()
            quiet(k - 1)
            trig()
            quiet(seq - k + rng.randint(1, 5))
        else:                                                  # trigger in the last cycles of the sequence
            trig()
            quiet(seq - 1)
            trig(2 if rng.random() < 0.5 else 1)
            quiet(seq + 2 + rng.randint(1, 4))
    if len(holds) > 1:
        trig()                                                 # domain reset somewhere in the reset pulse
        quiet(rng.randint(1, R))
        hold(holds[1])
        quiet(seq + rng.randint(1, 4))
        trig()                                                 # ... in the stop phase
        quiet(R + rng.randint(1, S))
        hold(holds[2])
        quiet(seq + rng.randint(1, 4))
        hold(holds[3])                                         # ... while idle
        quiet(seq + rng.randint(1, 4))
    quiet(3)
    return c


def _phy_holds(R, S, j):
    """Four domain-reset hold lengths for configuration (R, S): over the S values of one R (and the repetitions j)
    every length 1 .. 2R+2 occurs, in particular lengths that are not multiples of R."""
    kmax = 2 * R + 2
    return [1 + (4 * (S - 1 + 20 * j) + i) % kmax for i in range(4)]


def _phy_classify(trace, matched, status, meta):
    steps = trace["steps"]
    pattern = "other"
    if status == "stop_too_long":
        rest = steps[matched - 1:]
        if len(rest) >= 40 and all(r["s"] and not r["r"] for r in rest):
            pattern = "stop_never_released"
        else:
            extra = 0
            for r in rest:
                if not r["s"]:
                    break
                extra += 1
            pattern = "stop_overlong_by_%d" % extra
    return {"clause": status, "pattern": pattern}


def check_C54(rep):
    quick = rep.tier == "quick"
    tm = _Timer(rep)
    rep.rule = ("real PHYResetController cycles recorded and validated against PhyReset.tla; non-trivial = a cycle in "
                "which a pulse starts or ends or a trigger / domain reset is applied; distinct by (R, S, previous phase, "
                "trigger, domain reset, phase)")
    rep.assume("a trigger seen in an idle cycle must start the reset pulse 1..2 cycles later; triggers arriving during "
               "a running sequence may be ignored or honoured within 2 cycles of the return to idle")
    rep.assume("reset/stop lengths are passed as cycles/clock_frequency with power-of-two frequencies, so the "
               "constructor's ceil() conversion yields exactly R and S cycles")
    rep.assume("the reset of the controller's clock domain may be asserted in any cycle and held for any number of cycles "
               "(swept: 1..2R+2 cycles at start-up, in the reset pulse, in the stop phase and while idle); while it is "
               "held the outputs show the power-on state, a trigger coinciding with it is ignored, and after its release "
               "the controller behaves as from power-on")
    rep.assume("pairs (R,S) with S > R rounded up to a power of two are kept in a class of their own (witness / "
               "regression stimuli of finding C54-stop-longer-than-counter)")

    tm.phase("model_check")
    # 1. exhaustive exploration of the specification: all pairs at once (configuration chosen in Init)
    m = 20
    res = tlc.model_check(SPEC_DIR, "MCPhyReset",
                          tlc.render_cfg(_cfg("MCPhyReset_safety.cfg.tmpl"), {"MaxR": m, "MaxS": m}),
                          workers=WORKERS, env=JVM_ENV, timeout=1500)
    rep.add_mc("MCPhyReset safety: (R,S) in 1..%d x 1..%d, power_on_reset in BOOLEAN, all trigger patterns" % (m, m),
               res, {"MaxR": m, "MaxS": m, "MaxLat": 2})
    ml = 10 if quick else 20
    res = tlc.model_check(SPEC_DIR, "MCPhyReset", tlc.render_cfg(_cfg("MCPhyReset.cfg.tmpl"), {"MaxR": ml, "MaxS": ml}),
                          workers=WORKERS, env=JVM_ENV, timeout=3000)
    rep.add_mc("MCPhyReset safety + liveness (always finishes, re-triggerable): (R,S) in 1..%d x 1..%d" % (ml, ml),
               res, {"MaxR": ml, "MaxS": ml, "MaxLat": 2, "fairness": "WF_vars(Next)"})

    tm.phase("stimuli")
    # 2. stimuli
    jobs = []   # (R, S, por, freq, origin, triggers)
    behs = tlc.simulate(SPEC_DIR, "MCPhyReset", tlc.render_cfg(_cfg("MCPhyReset_sim.cfg.tmpl"), {"MaxR": 5, "MaxS": 5}),
                        num=60 if quick else 500, depth=45, seed=rep.seed * 13 + 3, env=JVM_ENV)
    for b in behs:
        st0 = b[0][1]
        if kf_c54_counter_range(st0["R"], st0["S"]):
            continue            # keep the model-generated behaviours in the clean class
        jobs.append((st0["R"], st0["S"], st0["por"], 1, "tlc-simulate",
                     [(st["trg"], st["rst"]) for _, st in b[1:]] + [(False, False)] * 12))
    pairs = [(R, S) for R in range(1, 21) for S in range(1, 21)]
    extra = [(3, 100), (64, 64), (33, 31), (31, 33), (120, 120)] if not quick else [(33, 31), (5, 40)]
    for R, S in pairs + extra:
        por = True
        freq = (1, 2, 4, 0.5)[(R + 3 * S) % 4]
        n = 1 if quick else 4
        for i in range(n):
            jobs.append((R, S, por, freq, "random+domain-resets",
                         _phy_stimulus(rep.rng, R, S, por, 1 if quick else 4, _phy_holds(R, S, i))))
        if (R + S) % (5 if quick else 2) == 0:
            jobs.append((R, S, False, 1, "random-no-por+domain-resets",
                         _phy_stimulus(rep.rng, R, S, False, 1 if quick else 4, _phy_holds(R, S, 5))))
        if not quick and R <= 20 and S <= 20:
            # start-up hold sweep: every hold length 1 .. 2R+2 for this configuration
            for k in range(1, 2 * R + 3):
                jobs.append((R, S, True, freq, "startup-hold-sweep", _phy_stimulus(rep.rng, R, S, True, 0, [k])))

    tm.phase("drive_real_gateware")
    # 3. run on the real module
    drivers = {}
    clean, witness = [], []
    for R, S, por, freq, origin, trig in jobs:
        key = (R, S, por, freq)
        if key not in drivers:
            drivers[key] = _phy_driver(R, S, por, freq)
        kf = kf_c54_counter_range(R, S)
        if kf:
            trig = trig + [(False, False)] * 70       # long enough to tell "never released" from "late"
        rec = drivers[key].run([{"t": t, "x": x} for t, x in trig])
        rep.add_eval(len(rec))
        prev = None
        for r in rec:
            phase = (r["r"], r["s"])
            if r["t"] or r["x"] or phase != prev:
                rep.nontriv((R, S, prev, r["t"], r["x"], phase))
            prev = phase
        trace = {"cfg": {"R": R, "S": S, "por": bool(por)}, "steps": rec}
        meta = {"dut": "PHYResetController", "reset_cycles": R, "stop_cycles": S, "power_on_reset": bool(por),
                "clock_frequency": freq, "origin": origin, "class": "witness" if kf else "clean"}
        (witness if kf else clean).append((trace, meta))
    rep.sample({"cfg": clean[0][0]["cfg"], "origin": clean[0][1]["origin"], "first_cycles": clean[0][0]["steps"][:10]})
    rep.sample({"cfg": clean[-1][0]["cfg"], "origin": clean[-1][1]["origin"], "first_cycles": clean[-1][0]["steps"][:10]})

    tm.phase("validate_traces")
    # 4. validate with TLC
    big = max(max(R, S) for R, S in pairs + extra)
    cfg = tlc.render_cfg(_cfg("PhyResetTrace.cfg.tmpl"), {"MaxR": big, "MaxS": big})
    n_ok = validate_group(rep, SPEC_DIR, "PhyResetTrace", cfg, clean + witness, classify=_phy_classify,
                          env=JVM_ENV, steps_of=lambda t: len(t["steps"]), chunk=1000)
    rep.notes.append("traces accepted: %d/%d (%d of them for pairs with S > pow2ceil(R), the regression class of "
                     "C54-stop-longer-than-counter)" % (n_ok, len(clean) + len(witness), len(witness)))
    tm.phase("end")


# =====================================================================================================
# C49  UART transmitters
# =====================================================================================================

class UartBench:
    """Reactive producer for the UART transmitters: offers the words of a plan [(gap_cycles, word), ...] one after
    the other (each held until accepted, the next one `gap` cycles after the acceptance), records every cycle."""

    def __init__(self, kind, divisor, width):
        use_repo()
        from amaranth.sim import Simulator
        from luna.gateware.interface.uart import UARTTransmitter, UARTMultibyteTransmitter
        if kind == "single":
            assert width == 1
            self.dut = UARTTransmitter(divisor=divisor)
        else:
            self.dut = UARTMultibyteTransmitter(byte_width=width, divisor=divisor)
        self.divisor, self.width, self.kind = divisor, width, kind
        self.sim = Simulator(self.dut)
        self.sim.add_clock(1e-6, domain="sync")
        self.sim.add_testbench(self._bench)
        self._first = True

    async def _bench(self, ctx):
        dut, plan, rng = self.dut, self._plan, self._rng
        mask = (1 << (8 * self.width)) - 1
        rec = []
        i = 0
        gap = plan[0][0] if plan else 0
        drain = 10 * self.divisor * (self.width + 1) + 20
        while True:
            offering = i < len(plan) and gap == 0
            if offering:
                d = plan[i][1]
            else:
                d = rng.getrandbits(32) & mask if self._garbage else 0
            ctx.set(dut.stream.valid, int(offering))
            ctx.set(dut.stream.payload, d)
            rdy = bool(ctx.get(dut.stream.ready))
            rec.append({"n": 1, "v": offering, "d": [d & 0xFFFF, d >> 16], "rdy": rdy,
                        "tx": int(ctx.get(dut.tx)), "idle": bool(ctx.get(dut.idle))})
            if offering and rdy:
                i += 1
                gap = plan[i][0] if i < len(plan) else 0
            elif not offering and i < len(plan):
                gap -= 1
            elif i >= len(plan):
                drain -= 1
                if drain == 0:
                    break
            await ctx.tick("sync")
        self._rec = rec

    def run(self, plan, rng, garbage):
        self._plan, self._rng, self._garbage, self._rec = plan, rng, garbage, None
        if not self._first:
            self.sim.reset()
        self._first = False
        self.sim.run()
        return self._rec


def _compress(rec):
    """Merge runs of identical cycle records into one record with repeat count n (never a cycle with v and rdy)."""
    out = []
    for r in rec:
        if out and not (r["v"] and r["rdy"]):
            q = out[-1]
            same = all(q[k] == r[k] for k in ("v", "rdy", "tx", "idle")) and (not r["v"] or q["d"] == r["d"])
            if not (q["v"] and q["rdy"]) and same:          # (the payload is irrelevant while valid is low)
                q["n"] += 1
                continue
        out.append(dict(r))
    return out


_CORNER_BYTES = [0x00, 0xFF, 0x55, 0xAA, 0x01, 0x80, 0x7F, 0xFE, 0x0F, 0xF0]


def _uart_plan(rng, divisor, width, nwords):
    frame = 10 * divisor * width
    plan = []
    for _ in range(nwords):
        w = 0
        for k in range(width):
            b = rng.choice(_CORNER_BYTES) if rng.random() < 0.4 else rng.getrandbits(8)
            w |= b << (8 * k)
        style = rng.random()
        if style < 0.4:
            gap = 0
        elif style < 0.6:
            gap = rng.randint(1, 3)
        elif style < 0.8:
            gap = max(0, 10 * divisor + rng.randint(-2, 2))
        elif style < 0.9:
            gap = max(0, frame + rng.randint(-2, 3))
        else:
            gap = frame + rng.randint(4, 30)
        plan.append((gap, w))
    return plan


def _plan_from_behaviour(beh):
    """Producer plan (gap, word) of a TLC-simulated MCUart behaviour: the words in the order they were put on offer."""
    plan = []
    gap = 0
    on_offer = False
    for _, st in beh[1:]:
        i = st["in"]
        if not i["v"]:
            gap += i["n"]
            on_offer = False
            continue
        if not on_offer:
            plan.append((gap, i["d"][0] + (i["d"][1] << 16)))
            gap = 0
        on_offer = not st["out"]["rdy"]
    return plan


def _uart_classify(trace, matched, status, meta):
    return {"clause": status, "pattern": "%s_div%d_width%d" % (meta["dut"], meta["divisor"], meta["byte_width"])}


def check_C49(rep):
    quick = rep.tier == "quick"
    tm = _Timer(rep)
    rep.rule = ("real UART transmitter runs recorded cycle by cycle, event-compressed and validated against Uart.tla; "
                "non-trivial = a word accepted and framed on the line; distinct by (transmitter, divisor, byte width, "
                "word, gap before the word)")
    rep.assume("stream discipline: once valid is raised, valid and payload are held unchanged until the word is accepted")
    rep.assume("the transmitter may raise ready in any cycle (what it accepts is queued and must be framed in order); "
               "while the line is free and a byte is pending, or an offered word is refused, it may waste at most 3 cycles")
    rep.assume("idle is only required to imply ready (documented: an idle transmitter starts a new transmission)")

    tm.phase("model_check")
    # 1. exhaustive exploration of the specification
    runs = [("{1,2,3}", "{1}", 3, 3, 3), ("{2}", "{2}", 4, 4, 3)] if quick else \
           [("{1,2,3}", "{1}", 4, 3, 4), ("{1,2,3}", "{2}", 4, 4, 4), ("{1,2}", "{3}", 6, 6, 3), ("{1}", "{4}", 4, 8, 3)]
    for divs, widths, maxacc, maxpend, leap in runs:
        cfg = tlc.render_cfg(_cfg("MCUart.cfg.tmpl"), {"Divisors": divs, "Widths": widths, "ByteAlpha": "{75, 210}",
                                                       "MaxAcc": maxacc, "MaxPend": maxpend, "MaxLeap": leap})
        res = tlc.model_check(SPEC_DIR, "MCUart", cfg, workers=WORKERS, env=JVM_ENV, timeout=2400)
        rep.add_mc("MCUart divisors=%s widths=%s bytes={0x4B,0xD2} accepted<=%d pending<=%d leap<=%d"
                   % (divs, widths, maxacc, maxpend, leap), res,
                   {"Divisors": divs, "Widths": widths, "ByteAlpha": [75, 210], "MaxAcc": maxacc, "MaxPend": maxpend,
                    "MaxLeap": leap, "MaxStall": 3})

    tm.phase("stimuli")
    # 2. stimuli: producer plans from TLC-simulated behaviours and seeded-random plans for every configuration
    jobs = []   # (kind, divisor, width, origin, plan, garbage)
    sim_cfg = tlc.render_cfg(_cfg("MCUart.cfg.tmpl"), {"Divisors": "{1,2,3}", "Widths": "{1,2}", "ByteAlpha": "{75, 210}",
                                                       "MaxAcc": 6, "MaxPend": 4, "MaxLeap": 4})
    behs = tlc.simulate(SPEC_DIR, "MCUart", sim_cfg, num=40 if quick else 300, depth=60, seed=rep.seed * 17 + 1, env=JVM_ENV)
    for b in behs:
        st0 = b[0][1]
        plan = _plan_from_behaviour(b)
        if plan:
            kind = "single" if st0["W"] == 1 and len(jobs) % 2 == 0 else "multi"
            jobs.append((kind, st0["D"], st0["W"], "tlc-simulate", plan, False))
    divisors = [1, 2, 3, 7, 16] if quick else [1, 2, 3, 4, 5, 7, 8, 13, 16, 31]
    for div in divisors:
        for kind, width in [("single", 1), ("multi", 1), ("multi", 2), ("multi", 3), ("multi", 4)]:
            for k in range(1 if quick else 5):
                nwords = (7 if width <= 2 else 4) if quick else 12
                jobs.append((kind, div, width, "random", _uart_plan(rep.rng, div, width, nwords), k % 2 == 0))

    tm.phase("drive_real_gateware")
    # 3. run on the real modules
    benches = {}
    items = []
    for kind, div, width, origin, plan, garbage in jobs:
        key = (kind, div, width)
        if key not in benches:
            benches[key] = UartBench(kind, div, width)
        rec = benches[key].run(plan, rep.rng, garbage)
        rep.add_eval(len(rec))
        for gap, w in plan:
            rep.nontriv((kind, div, width, w, gap))
        trace = {"cfg": {"D": div, "W": width}, "steps": _compress(rec)}
        items.append((trace, {"dut": "UARTTransmitter" if kind == "single" else "UARTMultibyteTransmitter",
                              "divisor": div, "byte_width": width, "origin": origin, "words": len(plan),
                              "cycles": len(rec)}))
    for it in (items[0], items[-1]):
        rep.sample({"cfg": it[0]["cfg"], "meta": it[1], "first_records": it[0]["steps"][:8]})

    tm.phase("validate_traces")
    # 4. validate with TLC
    validate_group(rep, SPEC_DIR, "UartTrace", _cfg("UartTrace.cfg.tmpl"), items, classify=_uart_classify,
                   steps_of=lambda t: len(t["steps"]), env=JVM_ENV)
    tm.phase("end")


# =====================================================================================================
# C50  SPI device interface
# =====================================================================================================

def _spi_dev_driver(ws, cpol, cpha, msb, cs_idles_high):
    use_repo()
    from luna.gateware.interface.spi import SPIDeviceInterface
    dut = SPIDeviceInterface(word_size=ws, clock_polarity=cpol, clock_phase=cpha, msb_first=msb,
                             cs_idles_high=cs_idles_high)
    ins = {"csp": dut.spi.cs, "sck": dut.spi.sck, "sdi": dut.spi.sdi, "wout": dut.word_out}
    outs = {"wc": dut.word_complete, "win": dut.word_in, "sdo": dut.spi.sdo}
    return CycleDriver(dut, ins, outs, bool_outputs=("wc",))


class _SpiHost:
    """Builds a legal cycle-level SPI host stimulus (see SpiDev.tla, EnvFail): SCK edges at least two cycles apart,
    CS changes at least two cycles apart, never both in one cycle (but possibly in adjacent cycles), SDI never
    changes on an SCK edge, word_out only changes away from transitions and only more than `maxlat` cycles after
    a word-completing sample edge."""

    def __init__(self, rng, ws, cpol, cpha, maxlat=4, fast=False):
        self.rng, self.ws, self.cpol, self.cpha, self.maxlat = rng, ws, cpol, cpha, maxlat
        self.gaps = (1, 1, 1, 1, 2) if fast else (1, 1, 1, 2, 3)
        self.cur = {"cs": False, "sck": cpol, "sdi": 0, "wout": 0}
        self.cycles = [dict(self.cur)]
        self.since_complete = 1000

    def hold(self, n):
        for _ in range(n):
            self.cycles.append(dict(self.cur))
        self.since_complete += n

    def change(self, **kw):
        self.cur.update(kw)
        self.hold(1)

    def transition(self, gap=None, **kw):
        """`gap` quiet cycles, then the transition.  gap=0 is only used between an SCK edge and a CS change."""
        self.hold(self.rng.choice(self.gaps) if gap is None else gap)
        self.change(**kw)

    def maybe_wout(self, value):
        if self.since_complete > self.maxlat + 1:
            self.hold(1)
            self.change(wout=value)
            self.hold(1)
            return True
        return False

    def foreign_clock(self, pulses):
        for _ in range(2 * pulses):
            self.transition(sck=1 - self.cur["sck"])
            if self.rng.random() < 0.5:
                self.hold(1)
                self.change(sdi=self.rng.getrandbits(1))

    def assertion(self, nbits, bits, wouts, abort_mid_bit=False, assert_off=None, release_off=None):
        """One CS assertion clocking `nbits` bits (sdi values from `bits`); wouts[k] = word_out to present for word k.
        assert_off  = cycles from the CS assertion to the first SCK edge (None: random >= 2)
        release_off = cycles from the last SCK edge to the CS release (None: random >= 1)
        abort_mid_bit: CS is released between the two edges of the last bit."""
        rng, ws = self.rng, self.ws
        lead, trail = 1 - self.cpol, self.cpol
        self.maybe_wout(wouts[0])
        if assert_off is not None and self.cpha == 0:
            self.hold(1)
            self.change(sdi=bits[0])                            # data set up before CS, so the first edge can be early
            self.hold(1)
        self.transition(cs=True)
        nxt = 1
        for j in range(nbits):
            last = j == nbits - 1
            first_gap = assert_off - 1 if (j == 0 and assert_off is not None) else None
            if self.cpha == 0:
                if first_gap is None:
                    self.change(sdi=bits[j])
                self.transition(gap=first_gap, sck=lead)        # sample edge
                if (j + 1) % ws == 0:
                    self.since_complete = 0
                if last and abort_mid_bit:
                    break
                self.transition(sck=trail)
            else:
                self.transition(gap=first_gap, sck=lead)
                self.hold(rng.choice((0, 0, 1)))
                self.change(sdi=bits[j])
                if last and abort_mid_bit:
                    break
                self.transition(sck=trail)                      # sample edge
                if (j + 1) % ws == 0:
                    self.since_complete = 0
            # present the next word some time during this word (never close to its completing edge)
            if nxt < len(wouts) and (j + 1) % ws not in (0, ws - 1) and rng.random() < 0.5:
                if self.maybe_wout(wouts[nxt]):
                    nxt += 1
            if (j + 1) % ws == 0 and nxt <= (j + 1) // ws:
                nxt = (j + 1) // ws + 1
        self.transition(gap=(release_off - 1) if release_off is not None else rng.choice((0, 1, 1, 2, 3)), cs=False)
        if self.cur["sck"] != self.cpol:
            self.transition(gap=rng.choice((0, 1, 2)), sck=self.cpol)
        self.hold(rng.randint(1, 3))

    def finish(self):
        self.hold(self.maxlat + 3)
        return self.cycles


def _rnd_words(rng, ws, n):
    mask = (1 << ws) - 1
    return [rng.choice((rng.getrandbits(ws), mask, 1, 1 << (ws - 1), mask ^ 1)) & mask for _ in range(n)]


def _spi_dev_stimulus(rng, ws, cpol, cpha, words_per_assertion, aborts=True):
    """A trace-worth of CS assertions; words_per_assertion = list like [1, 2, 3]."""
    h = _SpiHost(rng, ws, cpol, cpha)
    plan = list(words_per_assertion)
    rng.shuffle(plan)
    if aborts:
        plan.append(1)
    for k, nw in enumerate(plan):
        if rng.random() < 0.4:
            h.foreign_clock(rng.randint(1, 3))
        nbits = nw * ws
        mid = False
        if aborts and k == len(plan) - 1 and ws > 1:
            # abort the last assertion inside its last word (at any bit, possibly between the two edges of a bit)
            nbits -= rng.randint(1, ws - 1)
            mid = rng.random() < 0.5
        bits = [rng.getrandbits(1) for _ in range(max(nbits, 1))]
        h.assertion(max(nbits, 1), bits, _rnd_words(rng, ws, nw + 1), abort_mid_bit=mid)
    return h.finish()


def _spi_dev_sweep(rng, ws, cpol, cpha, words, offsets, fast=True):
    """CS assertions of words[k] whole words each, sweeping the CS timing: assertion k releases CS exactly d =
    offsets[k] cycles after its last SCK edge (for CPHA=0 alternately after the completing leading edge, i.e. between
    the two edges of the last bit, and after the trailing edge) and asserts CS 7-d cycles before its first edge.
    A last assertion is aborted inside a word (random timing)."""
    h = _SpiHost(rng, ws, cpol, cpha, fast=fast)
    for k, (nw, d) in enumerate(zip(words, offsets)):
        if rng.random() < 0.25:
            h.foreign_clock(rng.randint(1, 2))
        bits = [rng.getrandbits(1) for _ in range(nw * ws)]
        h.assertion(nw * ws, bits, _rnd_words(rng, ws, nw + 1), abort_mid_bit=(cpha == 0 and k % 2 == 0),
                    assert_off=7 - d, release_off=d)
    if ws > 1:
        nbits = ws - rng.randint(1, ws - 1)
        h.assertion(nbits, [rng.getrandbits(1) for _ in range(nbits)], _rnd_words(rng, ws, 2),
                    abort_mid_bit=rng.random() < 0.5)
    return h.finish()


def _max_sample_edges_per_assertion(cycles, cpol, cpha):
    """Env-level quantity used to sort stimuli into clean / witness: most sample edges under one CS assertion."""
    best = cur = 0
    prev = cycles[0]
    for c in cycles[1:]:
        if not c["cs"]:
            cur = 0
        elif c["sck"] != prev["sck"]:
            leading = c["sck"] != cpol
            if leading == (cpha == 0):
                cur += 1
                best = max(best, cur)
        prev = c
    return best


def kf_c50_bit_counter(ws, max_edges):
    """KF_C50_1: a second (or later) word under one CS assertion with a word size that is not a power of two."""
    return (ws & (ws - 1)) != 0 and max_edges >= 2 * ws


def _spi_dev_classify(trace, matched, status, meta):
    if status.startswith("env_"):
        raise tlc.TLCError("illegal stimulus generated for %s: %s at step %d" % (meta, status, matched))
    pattern = "other"
    ws = trace["cfg"]["ws"]
    if status in ("word_not_reported", "word_complete_without_completed_word"):
        steps = trace["steps"][:matched]
        edges = _count_edges_in_current_assertion(steps, trace["cfg"]["cpol"], trace["cfg"]["cpha"])
        if (ws & (ws - 1)) != 0 and edges >= 2 * ws:
            pattern = "later_word_of_cs_assertion_non_pow2_word_size"
        else:
            pattern = "word_%d_of_cs_assertion_ws%d" % (edges // ws, ws)
    return {"clause": status, "pattern": pattern}


def _count_edges_in_current_assertion(steps, cpol, cpha):
    """Sample edges since the most recent CS assertion that precedes the end of `steps`."""
    cur = 0
    last_nonzero = 0
    prev = {"cs": False, "sck": cpol}
    for c in steps:
        if not c["cs"]:
            cur = 0
        elif c["sck"] != prev["sck"] and ((c["sck"] != cpol) == (cpha == 0)):
            cur += 1
            last_nonzero = cur
        prev = c
    return cur if cur else last_nonzero


def check_C50(rep):
    quick = rep.tier == "quick"
    tm = _Timer(rep)
    rep.rule = ("real SPIDeviceInterface cycles recorded and validated against SpiDev.tla; non-trivial = a sample edge "
                "under CS, a word_complete strobe or a CS transition; distinct by (word size, mode, bit order, bit index "
                "in word, word index in assertion, event)")
    rep.assume("SPI host: SCK edges are at least two device-clock cycles apart, CS changes likewise; SCK and CS never "
               "change in the same cycle but may change in adjacent cycles (CS released 1..6 cycles after the last edge "
               "and asserted 1..6 cycles before the first are swept); CS is asserted only while SCK is at its idle "
               "level (CPOL); SDI does not change in the cycle of an SCK edge")
    rep.assume("word_out changes only away from SCK/CS transitions (not in the cycle of or before one) and not while a "
               "completed word awaits its word_complete strobe; the word presented for a word is word_out while "
               "deselected (first word) / at the completing sample edge of the previous word")
    rep.assume("word_complete (with word_in valid in that cycle) may come 1..4 cycles after the completing sample edge; "
               "SDO is checked at the host's sample edges in CPHA=1 modes only, in the configured bit order")
    rep.assume("clean stimuli clock a second word under one CS assertion only for power-of-two word sizes (outside open "
               "finding C50-bit-counter-not-wrapped); multi-word assertions at other sizes are witness stimuli for it")

    tm.phase("model_check")
    # 1. exhaustive exploration of the specification
    runs = [("{2}", "{1, 2}", "{TRUE}", 2, 2, 2), ("{3}", "{0}", "{FALSE}", 1, 2, 2)] if quick else \
           [("{1, 2}", "{0, 1, 2, 3}", "{TRUE, FALSE}", 2, 3, 3), ("{3}", "{0, 1, 2, 3}", "{TRUE, FALSE}", 2, 2, 3),
            ("{4}", "{1, 2}", "{TRUE, FALSE}", 2, 2, 2), ("{5}", "{1}", "{TRUE}", 1, 2, 2)]
    for sizes, modes, orders, maxbits, maxwords, maxlat in runs:
        cfg = tlc.render_cfg(_cfg("MCSpiDev.cfg.tmpl"), {"WordSizes": sizes, "Modes": modes, "Orders": orders,
                                                         "MaxBits": maxbits, "MaxWords": maxwords, "MaxLat": maxlat})
        res = tlc.model_check(SPEC_DIR, "MCSpiDev", cfg, workers=WORKERS, env=JVM_ENV, timeout=3000)
        rep.add_mc("MCSpiDev word sizes %s, modes %s, msb_first %s, <=%d words per assertion, <=%d words, cycle grain"
                   % (sizes, modes, orders, maxbits, maxwords), res,
                   {"WordSizes": sizes, "Modes": modes, "Orders": orders, "MaxBits": maxbits, "MaxWords": maxwords,
                    "MaxLat": maxlat})

    tm.phase("stimuli")
    # 2. stimuli
    jobs = []   # (ws, cpol, cpha, msb, cs_idles_high, origin, cycles)
    sim_cfg = tlc.render_cfg(_cfg("SimSpiDev.cfg.tmpl"), {"WordSizes": "{1, 2, 3, 4, 5}"})
    behs = tlc.simulate(SPEC_DIR, "SimSpiDev", sim_cfg, num=32 if quick else 500, depth=130, seed=rep.seed * 19 + 7,
                        env=JVM_ENV)
    for b in behs:
        st0 = b[0][1]
        cyc = [st["in"] for _, st in b] + [dict(b[-1][1]["in"])] * 6
        jobs.append((st0["WS"], st0["cpol"], st0["cpha"], st0["msb"], False, "tlc-simulate", cyc))
    sizes = list(range(1, 18)) + ([] if quick else [24, 31])
    for ws in sizes:
        for mode in range(4):
            for msb in (True, False):
                cpol, cpha = mode // 2, mode % 2
                inv = (ws + mode + msb) % 5 == 0
                for k in range(1 if quick else 3):
                    # 1..3 words per CS assertion with a CS timing sweep: release 1..6 cycles after the last edge,
                    # assert 6..1 cycles before the first; the two bit orders of a (size, mode) share the six
                    # offsets (both get 1); the last assertion of each trace is aborted inside a word
                    if quick:
                        words, offs = ((1, 3, 1), (1, 2, 3)) if msb else ((1, 1, 2, 1), (1, 4, 5, 6))
                    else:
                        words, offs = (1, 2, 3, 1, 2, 1), (1, 2, 3, 4, 5, 6)
                    jobs.append((ws, cpol, cpha, msb, inv, "cs-timing-sweep",
                                 _spi_dev_sweep(rep.rng, ws, cpol, cpha, words, offs)))
                    if not quick:
                        jobs.append((ws, cpol, cpha, msb, inv, "random-multi-word",
                                     _spi_dev_stimulus(rep.rng, ws, cpol, cpha, [1, 2, 3])))

    tm.phase("drive_real_gateware")
    # 3. run on the real module
    drivers = {}
    clean, witness = [], []
    for ws, cpol, cpha, msb, inv, origin, cyc in jobs:
        key = (ws, cpol, cpha, msb, inv)
        if key not in drivers:
            drivers[key] = _spi_dev_driver(ws, cpol, cpha, msb, inv)
        stim = [{"csp": (not c["cs"]) if inv else c["cs"], "sck": c["sck"], "sdi": c["sdi"], "wout": c["wout"]}
                for c in cyc]
        rec = drivers[key].run(stim)
        rep.add_eval(len(rec))
        steps = []
        nedge = nword = 0
        prev = {"cs": False, "sck": cpol}
        for c, r in zip(cyc, rec):
            steps.append({"cs": bool(c["cs"]), "sck": c["sck"], "sdi": c["sdi"], "wout": c["wout"],
                          "wc": r["wc"], "win": r["win"], "sdo": r["sdo"]})
            if not c["cs"]:
                if prev["cs"]:
                    rep.nontriv((ws, cpol, cpha, msb, "deselect", nedge % ws, min(nedge // ws, 3)))
                nedge = 0
            elif c["sck"] != prev["sck"] and ((c["sck"] != cpol) == (cpha == 0)):
                rep.nontriv((ws, cpol, cpha, msb, "sample", nedge % ws, min(nedge // ws, 3)))
                nedge += 1
            if r["wc"]:
                rep.nontriv((ws, cpol, cpha, msb, "strobe", min(nedge // ws, 3)))
            prev = c
        trace = {"cfg": {"ws": ws, "cpol": cpol, "cpha": cpha, "msb": bool(msb)}, "steps": steps}
        kf = kf_c50_bit_counter(ws, _max_sample_edges_per_assertion(cyc, cpol, cpha))
        meta = {"dut": "SPIDeviceInterface", "word_size": ws, "clock_polarity": cpol, "clock_phase": cpha,
                "msb_first": bool(msb), "cs_idles_high": inv, "origin": origin, "class": "witness" if kf else "clean"}
        (witness if kf else clean).append((trace, meta))
    for it in (clean[0], clean[-1]):
        rep.sample({"cfg": it[0]["cfg"], "meta": it[1], "first_cycles": it[0]["steps"][:8]})

    tm.phase("validate_traces")
    # 4. validate with TLC
    cfg = tlc.render_cfg(_cfg("SpiDevTrace.cfg.tmpl"), {"MaxLat": 4})
    n_clean = validate_group(rep, SPEC_DIR, "SpiDevTrace", cfg, clean, classify=_spi_dev_classify,
                             env=JVM_ENV, steps_of=lambda t: len(t["steps"]), what_prefix="[clean] ")
    n_wit = validate_group(rep, SPEC_DIR, "SpiDevTrace", cfg, witness, classify=_spi_dev_classify,
                           env=JVM_ENV, steps_of=lambda t: len(t["steps"]),
                           what_prefix="[multi-word at non-power-of-two size, cf. C50-bit-counter-not-wrapped] ")
    rep.notes.append("clean traces accepted: %d/%d; witness traces (second word, non-power-of-two size) accepted: %d/%d"
                     % (n_clean, len(clean), n_wit, len(witness)))
    tm.phase("end")


# =====================================================================================================
# C51  SPI register interface
# =====================================================================================================

def _bits(v, n):
    """int -> bit list, most-significant first."""
    return [(v >> (n - 1 - i)) & 1 for i in range(n)]


def _val(bits):
    v = 0
    for b in bits:
        v = (v << 1) | b
    return v


# register-file layouts driven on the real module: regs = [(address, kind, initial/constant value)]
_REG_LAYOUTS = {
    # the three layouts of MCSpiReg.tla (TLC-simulated behaviours are replayed on these)
    "mc1": {"A": 2, "R": 2, "dflt": 0b10, "regs": [(0, "ro", 0b11), (1, "rw", 0b00), (2, "rw", 0b01)]},
    "mc2": {"A": 3, "R": 2, "dflt": 0b01, "regs": [(0, "ro", 0b11), (3, "rw", 0b00), (4, "rw", 0b10), (5, "wo", 0),
                                                    (6, "rs", 0b00)]},
    "mc3": {"A": 1, "R": 3, "dflt": 0b101, "regs": [(0, "ro", 0b111), (1, "rw", 0b010)]},
    # real sizes
    "real": {"A": 15, "R": 32, "dflt": 0xDEADBEEF,
             "regs": [(0, "ro", 0xFFFFFFFF), (2, "rw", 0), (3, "rw", 0x12345678), (0x7FFF, "rw", 0xFFFFFFFF),
                      (0x100, "wo", 0), (0x101, "rs", 0x0BADCAFE), (0x4000, "rw", 0x80000001)]},
    "mid": {"A": 7, "R": 8, "dflt": 0xA5,
            "regs": [(0, "ro", 0xFF), (1, "rw", 0x00), (2, "rw", 0x3C), (3, "rw", 0xFF), (0x40, "rw", 0x81),
                     (0x7F, "rw", 0x7E), (0x10, "wo", 0), (0x11, "rs", 0x5A)]},
    "odd": {"A": 4, "R": 5, "dflt": 0b10110, "autoneg": False,
            "regs": [(0, "rw", 0b00001), (1, "rw", 0b10000), (0x0F, "rw", 0b01110), (0x0E, "ro", 0b11011),
                     (0x0D, "rs", 0b00100)]},
    "tiny": {"A": 1, "R": 1, "dflt": 0, "regs": [(0, "ro", 1), (1, "rw", 0)]},
}


class SpiRegBench:
    """SPI host model for SPIRegisterInterface: expands bus events (see SpiReg.tla) into device clock cycles with
    random legal timing and collects what the device shows during each event.

    Timing (the environment assumption of C51): SDI is set >= 1 cycle before SCK rises, SCK stays high >= 2 cycles,
    and after every falling SCK edge / CS change the host leaves >= 4 device cycles."""

    def __init__(self, layout):
        use_repo()
        from amaranth import Signal
        from amaranth.sim import Simulator
        from luna.gateware.interface.spi import SPIRegisterInterface
        self.layout = layout
        A, R = layout["A"], layout["R"]
        autoneg = layout.get("autoneg", True)
        dut = SPIRegisterInterface(address_size=A, register_size=R, default_read_value=layout["dflt"],
                                   support_size_autonegotiation=autoneg)
        self.strobes, self.values, self.wsignals, self.rsignals = {}, {}, {}, {}
        for i, (addr, kind, v) in enumerate(layout["regs"]):
            if kind == "rw":
                st = Signal(name="wstrobe_%x" % addr)
                self.strobes[i] = st
                self.values[i] = dut.add_register(addr, write_strobe=st, init=v)
            elif kind == "ro":
                if addr == 0 and autoneg:
                    assert v == (1 << R) - 1
                else:
                    dut.add_read_only_register(addr, read=v)
            elif kind == "rs":
                sig = Signal(R, name="rsignal_%x" % addr, init=v)
                self.rsignals[addr] = sig
                dut.add_read_only_register(addr, read=sig)
            elif kind == "wo":
                st = Signal(name="wstrobe_%x" % addr)
                ws = Signal(R, name="wsignal_%x" % addr)
                self.strobes[i] = st
                self.wsignals[i] = ws
                dut.add_sfr(addr, write_signal=ws, write_strobe=st)
        self.dut = dut
        self.sim = Simulator(dut)
        self.sim.add_clock(1e-6, domain="sync")
        self.sim.add_testbench(self._bench)
        self._first = True
        self.cycles = 0

    def cfg(self):
        L = self.layout
        R = L["R"]
        return {"A": L["A"], "R": R, "dflt": _bits(L["dflt"], R),
                "regs": [{"a": a, "k": k, "v": _bits(v, R) if k != "wo" else []} for a, k, v in L["regs"]]}

    async def _bench(self, ctx):
        dut, rng, R = self.dut, self._rng, self.layout["R"]
        n = len(self.layout["regs"])
        spi = dut.spi
        rec = []
        for sig in self.rsignals.values():
            ctx.set(sig, sig.init)
        ctx.set(spi.cs, 0)
        ctx.set(spi.sck, 0)
        for _ in range(3):
            await ctx.tick("sync")
        for ev in self._events:
            counts = [0] * n
            wv = [[] for _ in range(n)]
            sdo = []

            async def cyc(k, high=False):
                for _ in range(k):
                    for i, st in self.strobes.items():
                        if ctx.get(st):
                            counts[i] += 1
                            if i in self.wsignals:
                                wv[i].append(_bits(ctx.get(self.wsignals[i]), R))
                    if high:
                        sdo.append(ctx.get(spi.sdo))
                    await ctx.tick("sync")
                    self.cycles += 1

            e = ev["e"]
            if e == "sel":
                ctx.set(spi.cs, 1)
                await cyc(rng.randint(1, 3))
            elif e == "bit":
                ctx.set(spi.sdi, ev["b"])
                await cyc(rng.randint(1, 3))
                ctx.set(spi.sck, 1)
                await cyc(rng.randint(2, 4), high=True)
                ctx.set(spi.sck, 0)
                await cyc(rng.randint(4, 6))
            elif e == "mid":
                ctx.set(spi.sdi, ev["b"])
                await cyc(rng.randint(1, 3))
                ctx.set(spi.sck, 1)
                await cyc(rng.randint(2, 3))
                ctx.set(spi.cs, 0)
                await cyc(rng.randint(1, 3))
                ctx.set(spi.sck, 0)
                await cyc(rng.randint(4, 6))
            elif e == "cut":
                # one SCK pulse during which CS is released `off` cycles after (>0), in the very cycle of (0) or
                # before (<0) the rising / falling edge of the pulse
                at, off = ev["at"], ev["off"]
                ctx.set(spi.sdi, ev["b"])
                await cyc(rng.randint(1, 3))
                if at == "rise":
                    if off < 0:
                        ctx.set(spi.cs, 0)
                        await cyc(-off)
                        ctx.set(spi.sck, 1)
                        await cyc(rng.randint(2, 3))
                    elif off == 0:
                        ctx.set(spi.cs, 0)
                        ctx.set(spi.sck, 1)
                        await cyc(rng.randint(2, 3))
                    else:
                        ctx.set(spi.sck, 1)
                        await cyc(off)
                        ctx.set(spi.cs, 0)
                        await cyc(rng.randint(1, 2))
                    ctx.set(spi.sck, 0)
                else:
                    ctx.set(spi.sck, 1)
                    if off < 0:
                        await cyc(rng.randint(1, 2))
                        ctx.set(spi.cs, 0)
                        await cyc(-off)
                        ctx.set(spi.sck, 0)
                    elif off == 0:
                        await cyc(rng.randint(2, 4))
                        ctx.set(spi.cs, 0)
                        ctx.set(spi.sck, 0)
                    else:
                        await cyc(rng.randint(2, 4), high=True)
                        ctx.set(spi.sck, 0)
                        await cyc(off)
                        ctx.set(spi.cs, 0)
                await cyc(rng.randint(4, 6))
            elif e == "desel":
                ctx.set(spi.cs, 0)
                await cyc(rng.randint(4, 6))
            elif e == "noise":
                for _ in range(rng.randint(1, 4)):
                    ctx.set(spi.sdi, rng.getrandbits(1))
                    await cyc(1)
                    ctx.set(spi.sck, 1)
                    await cyc(2)
                    ctx.set(spi.sck, 0)
                    await cyc(2)
                await cyc(3)
            elif e == "poke":
                ctx.set(self.rsignals[ev["a"]], _val(ev["v"]))
                await cyc(1)
            else:
                await cyc(rng.randint(1, 8))
            r = dict(ev)
            r["sdo_lo"] = min(sdo) if sdo else 2
            r["sdo_hi"] = max(sdo) if sdo else 2
            r["ws"] = counts
            r["vals"] = [_bits(ctx.get(self.values[i]), R) if i in self.values else [] for i in range(n)]
            r["wv"] = wv
            rec.append(r)
        self._rec = rec

    def run(self, events, rng):
        self._events, self._rng, self._rec = events, rng, None
        if not self._first:
            self.sim.reset()
        self._first = False
        self.sim.run()
        return self._rec


def _tx_events(A, R, write, addr, data, nbits=None, end="desel", extra=0):
    """Events of one transaction: sel, the first `nbits` of (W, address, data) bits, `extra` more clocks, then the end."""
    bits = [1 if write else 0] + _bits(addr, A) + _bits(data, R)
    total = len(bits)
    nbits = total if nbits is None else nbits
    ev = [{"e": "sel"}] + [{"e": "bit", "b": b} for b in bits[:nbits]]
    if end == "mid":
        ev.append({"e": "mid", "b": bits[nbits] if nbits < total else 1})
    elif isinstance(end, tuple):                                  # ("cut", at, off)
        ev.append({"e": "cut", "b": bits[nbits] if nbits < total else 1, "at": end[1], "off": end[2]})
    else:
        ev += [{"e": "bit", "b": 1 - (k % 2)} for k in range(extra)]
        ev.append({"e": "desel"})
    return ev


def _spi_reg_events(rng, layout, ntx, abort_points=None):
    A, R = layout["A"], layout["R"]
    assigned = [a for a, _, _ in layout["regs"]]
    rw = [a for a, k, _ in layout["regs"] if k == "rw"]
    rs = [a for a, k, _ in layout["regs"] if k == "rs"]
    amask, dmask = (1 << A) - 1, (1 << R) - 1
    ev = []

    def rnd_data():
        return rng.choice((rng.getrandbits(R), dmask, 0, 1, 1 << (R - 1), 0x55555555 & dmask, 0xAAAAAAAA & dmask))

    def rnd_addr():
        x = rng.random()
        if x < 0.5:
            return rng.choice(assigned)
        if x < 0.7:
            return (rng.choice(assigned) + rng.choice((1, -1))) & amask
        if x < 0.9:
            return rng.choice(assigned) ^ (1 << rng.randrange(A))      # aliases: one address bit flipped
        return rng.getrandbits(A)

    # directed: aborted writes at chosen bit counts (every count for small layouts), each followed by a read-back
    for k in (abort_points or []):
        a = rng.choice(rw)
        ev += _tx_events(A, R, True, a, rnd_data(), nbits=k, end=rng.choice(("desel", "mid")) if k < A + 1 + R else "desel")
        ev += _tx_events(A, R, False, a, rnd_data())
    for _ in range(ntx):
        x = rng.random()
        if x < 0.15:
            ev.append({"e": "noise"})
        elif x < 0.25 and rs:
            ev.append({"e": "poke", "a": rng.choice(rs), "v": _bits(rnd_data(), R)})
        elif x < 0.35:
            ev.append({"e": "idle"})
        write = rng.random() < 0.55
        addr = rnd_addr()
        y = rng.random()
        if y < 0.6:
            ev += _tx_events(A, R, write, addr, rnd_data())
        elif y < 0.7:
            ev += _tx_events(A, R, write, addr, rnd_data(), extra=rng.choice((1, 2, 3, R, R + 1, 2 * R)))
        elif y < 0.85:
            ev += _tx_events(A, R, write, addr, rnd_data(), nbits=rng.randint(0, A + R))
        elif y < 0.92:
            ev += _tx_events(A, R, write, addr, rnd_data(), nbits=rng.randint(0, A + R), end="mid")
        else:
            k = rng.randint(0, A + R)
            at, off = rng.choice(_CUTS)
            if at == "fall" and off == 0 and k == A + R:
                off = 1
            ev += _tx_events(A, R, write, addr, rnd_data(), nbits=k, end=("cut", at, off))
        if write and addr in rw and rng.random() < 0.7:
            ev += _tx_events(A, R, False, addr, rnd_data())          # read it back
    return ev


_CUTS = [(at, off) for at in ("fall", "rise") for off in range(-2, 5)]


def _cut_sweep_events(rng, layout, full):
    """Aborts with CS released at every cycle offset -2..+4 around the falling and the rising SCK edge of a bit, at the
    bit-count classes first bit / mid-command / last command bit / mid-data / last data bit; every one is an attempted
    write to a memory register and is followed by a complete read-back of that register.  `full`: every (class, offset)
    pair; otherwise every pair for the offsets -1, 0, +1 of the falling edge and a rotation for the others."""
    A, R = layout["A"], layout["R"]
    rw = [a for a, k, _ in layout["regs"] if k == "rw"]
    total = A + 1 + R
    classes = sorted({0, max(1, A // 2), A, A + 1 + (R - 1) // 2, total - 1})    # whole bits clocked before the cut bit
    ev = []
    n = 0
    for at, off in _CUTS:
        for ci, k in enumerate(classes):
            critical = at == "fall" and off in (-1, 0, 1)
            if not (full or critical or (n + ci) % len(classes) == 0):
                continue
            if at == "fall" and off == 0 and k == total - 1:
                continue                                         # excluded by the Env (see SpiReg.tla, EnvFail)
            a = rng.choice(rw)
            ev += _tx_events(A, R, True, a, rng.getrandbits(R), nbits=k, end=("cut", at, off))
            ev += _tx_events(A, R, False, a, rng.getrandbits(R))
        n += 1
    return ev


def _events_from_behaviour(beh):
    out = []
    for _, st in beh[1:]:
        e = st["ev"]
        r = {"e": e["e"]}
        if "b" in e:
            r["b"] = e["b"]
        if e["e"] == "cut":
            r["at"], r["off"] = e["at"], e["off"]
        if e["e"] == "poke":
            r["a"], r["v"] = e["a"], list(e["v"])
        out.append(r)
    return out


def _spi_reg_classify(trace, matched, status, meta):
    if status.startswith("env_"):
        raise tlc.TLCError("illegal stimulus generated for %s: %s at step %d" % (meta, status, matched))
    steps = trace["steps"][:matched]
    A, R = trace["cfg"]["A"], trace["cfg"]["R"]
    nb = 0
    for r in steps[:-1]:
        if r["e"] == "sel":
            nb = 0
        elif r["e"] == "bit":
            nb += 1
    where = "command" if nb < A + 1 else "data" if nb < A + 1 + R else "after_word"
    return {"clause": status, "pattern": "%s_event_in_%s_phase" % (steps[-1]["e"] if steps else "?", where)}


def check_C51(rep):
    quick = rep.tier == "quick"
    tm = _Timer(rep)
    rep.rule = ("real SPIRegisterInterface bus events (expanded to clock cycles by the host model) recorded and validated "
                "against SpiReg.tla; non-trivial = a transaction that completed a word or was aborted; distinct by "
                "(layout, write/read, kind of addressed register, bits clocked, how it ended)")
    rep.assume("SPI host timing: SDI set >= 1 cycle before SCK rises, SCK high >= 2 cycles, >= 4 device cycles after "
               "every falling SCK edge and every CS change; SDO is sampled in every cycle SCK is high and must be stable")
    rep.assume("every effect of a bit (write strobe, register update, SDO of the next bit) must be visible within the "
               "cycles the host leaves after the bit's falling edge (>= 4)")
    rep.assume("an abort is CS released before, or in the very cycle of, the falling SCK edge of a bit (swept: -2..+4 "
               "cycles around the rising and the falling edge, at every bit-count class); CS released in the very cycle of "
               "the falling edge of the LAST data bit is excluded (completion undefined); the external signal of a "
               "signal-backed read-only register changes only between transactions")

    tm.phase("model_check")
    # 1. exhaustive exploration of the specification
    runs = [("{1, 3}", 1, ("EvPoke",))] if quick else [("{1, 3}", 3, ("EvPoke",)), ("{2}", 2, ())]
    for lay, mw, allow in runs:
        cfg = tlc.render_cfg(_cfg("MCSpiReg.cfg.tmpl"), {"Layouts": lay, "MaxWrites": mw})
        res = tlc.model_check(SPEC_DIR, "MCSpiReg", cfg, workers=WORKERS, env=JVM_ENV, timeout=3000, allow_uncovered=allow)
        rep.add_mc("MCSpiReg layouts %s (address_size 1..3, register_size 2..3), all event sequences, <=%d writes"
                   % (lay, mw), res, {"Layouts": lay, "MaxWrites": mw})

    tm.phase("stimuli")
    # 2. stimuli
    jobs = []   # (layout name, origin, events)
    cfg = tlc.render_cfg(_cfg("SimSpiReg.cfg.tmpl"), {"Layouts": "{1, 2, 3}"})
    behs = tlc.simulate(SPEC_DIR, "SimSpiReg", cfg, num=70 if quick else 600, depth=80, seed=rep.seed * 23 + 2,
                        env=JVM_ENV)
    by_size = {(2, 2): "mc1", (3, 2): "mc2", (1, 3): "mc3"}
    for b in behs:
        jobs.append((by_size[(b[0][1]["A"], b[0][1]["R"])], "tlc-simulate", _events_from_behaviour(b)))
    for name in ("mid", "odd", "tiny", "mc1", "mc2", "mc3", "real"):
        L = _REG_LAYOUTS[name]
        total = L["A"] + 1 + L["R"]
        if name == "real":
            pts = [0, 1, L["A"], L["A"] + 1, L["A"] + 2, total - 2, total - 1] + \
                  ([rep.rng.randint(2, total - 3) for _ in range(3)] if quick else list(range(2, total - 2, 3)))
        else:
            pts = list(range(0, total))
        for k in range(1 if quick else 4):
            jobs.append((name, "directed-aborts+random",
                         _spi_reg_events(rep.rng, L, 10 if quick else 40, abort_points=pts if k == 0 else None)))
        jobs.append((name, "cs-release-offset-sweep", _cut_sweep_events(rep.rng, L, full=(name != "real" or not quick))))

    tm.phase("drive_real_gateware")
    # 3. run on the real module
    benches = {}
    items = []
    for name, origin, events in jobs:
        if name not in benches:
            benches[name] = SpiRegBench(_REG_LAYOUTS[name])
        bench = benches[name]
        before = bench.cycles
        rec = bench.run(events, rep.rng)
        rep.add_eval(bench.cycles - before)
        L = _REG_LAYOUTS[name]
        kinds = {a: k for a, k, _ in L["regs"]}
        nb, cmd = 0, []
        for r in rec:
            if r["e"] == "sel":
                nb, cmd = 0, []
            elif r["e"] == "bit":
                nb += 1
                if len(cmd) <= L["A"]:
                    cmd.append(r["b"])
            elif r["e"] in ("desel", "mid") and len(cmd) == L["A"] + 1:
                rep.nontriv((name, cmd[0], kinds.get(_val(cmd[1:]), "none"), min(nb, L["A"] + 2 + L["R"]), r["e"]))
        trace = {"cfg": bench.cfg(), "steps": rec}
        items.append((trace, {"dut": "SPIRegisterInterface", "layout": name, "address_size": L["A"],
                              "register_size": L["R"], "origin": origin, "events": len(rec)}))
    for it in (items[0], items[-1]):
        rep.sample({"meta": it[1], "first_events": it[0]["steps"][:6]})

    tm.phase("validate_traces")
    # 4. validate with TLC
    validate_group(rep, SPEC_DIR, "SpiRegTrace", _cfg("SpiRegTrace.cfg.tmpl"), items, classify=_spi_reg_classify,
                   env=JVM_ENV, steps_of=lambda t: len(t["steps"]))
    tm.phase("end")


CHECKS = {"C49": check_C49, "C50": check_C50, "C51": check_C51, "C54": check_C54, "C55": check_C55}
