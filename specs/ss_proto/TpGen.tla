------------------------------- MODULE TpGen -------------------------------
(***************************************************************************)
(* C45 -- Transaction packet generation                                    *)
(* (luna.gateware.usb.usb3.protocol.transaction.TransactionPacketGenerator)*)
(*                                                                         *)
(* Written from the HandshakeGeneratorInterface doc-string and the         *)
(* transaction packet formats of [USB3.2 8.5, Tables 8-13 .. 8-17]:        *)
(*   DW0  bits  4:0  Type = 00100b (Transaction Packet)                    *)
(*        bits 31:25 Device Address                                        *)
(*   DW1  bits  3:0  SubType  ACK=1  NRDY=2  ERDY=3  STALL=5               *)
(*        bit   6    Rty            (ACK only)                             *)
(*        bit   7    Direction                                             *)
(*        bits 11:8  Ept Num                                               *)
(*        bits 20:16 NumP           (ACK, ERDY)                            *)
(*        bits 25:21 Seq Num        (ACK only)                             *)
(*                                                                         *)
(* Grain: one step = one clock cycle.                                      *)
(*   Env : at most one request strobe per cycle (ack/stall/nrdy/erdy) with *)
(*         arbitrary endpoint (0..15), retry, sequence and device address  *)
(*         values on every cycle, and an arbitrary header-queue `ready`.   *)
(*   Ref : `job` -- the request accepted (made while `ready`) and not yet  *)
(*         handed to the header queue, with the field values of the cycle  *)
(*         of the request.  The property fixes *what* is sent, not when:   *)
(*         the header may be offered up to ValidLat cycles after the       *)
(*         request, `ready` may return up to ReadyLat cycles after the     *)
(*         hand-over (named freedoms).  Direction, NumP and reserved bits  *)
(*         are not constrained (the property does not state them).         *)
(*   Prop: one TP per accepted request, equal to it (counters + last       *)
(*         accepted / last sent ghosts).                                   *)
(***************************************************************************)
EXTENDS Naturals, Sequences, Bits

CONSTANTS ValidLat,    \* max. cycles a job may exist without its header being offered
          ReadyLat     \* max. cycles the generator may be idle without being ready

VARIABLES job,         \* NoJob or [kind, addr, ep, rty, seq]
          age,         \* cycles the job has existed without a valid header
          idle,        \* cycles without job and without ready
          doneOwed,    \* a hand-over happened and `done` has not been pulsed for it yet
          in, out,     \* I/O of the cycle that led to this state
          nAcc, nSent, lastAcc, lastSent     \* ghosts

gvars == <<job, age, idle, doneOwed, in, out, nAcc, nSent, lastAcc, lastSent>>

NoJob == [kind |-> "none", addr |-> 0, ep |-> 0, rty |-> 0, seq |-> 0]
Kinds == {"ack", "stall", "nrdy", "erdy"}
TpType == 4
SubOf(kind) == CASE kind = "ack" -> 1 [] kind = "nrdy" -> 2 [] kind = "erdy" -> 3 [] kind = "stall" -> 5

-----------------------------------------------------------------------------
(* Header decoding, bit-serially from the positions above (DWs as 16-bit limbs).  *)
DwBits(lo, hi) == BitsLSB(lo, 16) \o BitsLSB(hi, 16)
Fld(b, lsb, n) == ValLSB(SubSeq(b, lsb + 1, lsb + n))
DecHdr(o) == LET b0 == DwBits(o.dw0lo, o.dw0hi)
                 b1 == DwBits(o.dw1lo, o.dw1hi)
             IN [type |-> Fld(b0, 0, 5), addr |-> Fld(b0, 25, 7),
                 sub |-> Fld(b1, 0, 4), rty |-> Fld(b1, 6, 1), dir |-> Fld(b1, 7, 1),
                 ep |-> Fld(b1, 8, 4), nump |-> Fld(b1, 16, 5), seq |-> Fld(b1, 21, 5)]

(* Encoding used by the bounded model's abstract generator (arithmetic; independent of the decoder). *)
EncHdr(j, dir, nump) ==
   [dw0lo |-> TpType, dw0hi |-> 512 * j.addr,
    dw1lo |-> SubOf(j.kind) + 64 * (IF j.kind = "ack" THEN j.rty ELSE 0) + 128 * dir + 256 * j.ep,
    dw1hi |-> nump + 32 * (IF j.kind = "ack" THEN j.seq ELSE 0)]

-----------------------------------------------------------------------------
(* i = [ack, stall, nrdy, erdy : BOOLEAN, ep, rty, seq, addr, hqr]                     *)
(* o = [ready, done, hv : BOOLEAN, dw0lo, dw0hi, dw1lo, dw1hi]   (h = DecHdr(o) if hv) *)
NReq(i) == (IF i.ack THEN 1 ELSE 0) + (IF i.stall THEN 1 ELSE 0) + (IF i.nrdy THEN 1 ELSE 0) + (IF i.erdy THEN 1 ELSE 0)
KindOf(i) == IF i.ack THEN "ack" ELSE IF i.stall THEN "stall" ELSE IF i.nrdy THEN "nrdy" ELSE IF i.erdy THEN "erdy" ELSE "none"
Xfer(i, o) == o.hv /\ i.hqr
Accept(i, o) == o.ready /\ NReq(i) = 1

Failing(i, o, h) ==
     IF NReq(i) > 1 THEN "env_multiple_requests"
     ELSE IF i.ep > 15 THEN "env_endpoint_range"
     ELSE IF o.ready /\ job # NoJob THEN "ready_while_busy"
     ELSE IF ~o.ready /\ job = NoJob /\ idle >= ReadyLat THEN "not_ready_when_idle"
     ELSE IF o.hv /\ job = NoJob THEN "tp_without_request"
     ELSE IF o.hv /\ h.type # TpType THEN "tp_type"
     ELSE IF o.hv /\ h.sub # SubOf(job.kind) THEN "tp_subtype"
     ELSE IF o.hv /\ h.addr # job.addr THEN "tp_device_address"
     ELSE IF o.hv /\ h.ep # job.ep THEN "tp_endpoint_number"
     ELSE IF o.hv /\ job.kind = "ack" /\ h.rty # job.rty THEN "tp_retry"
     ELSE IF o.hv /\ job.kind = "ack" /\ h.seq # job.seq THEN "tp_sequence_number"
     ELSE IF ~o.hv /\ job # NoJob /\ age >= ValidLat THEN "tp_not_offered"
     ELSE IF o.done /\ ~Xfer(i, o) /\ ~doneOwed THEN "done_without_send"
     ELSE "ok"

Step(i, o, h) ==
  LET acc == Accept(i, o)
      new == [kind |-> KindOf(i), addr |-> i.addr, ep |-> i.ep, rty |-> i.rty, seq |-> i.seq]
  IN /\ in' = i /\ out' = o
     /\ job' = IF acc THEN new ELSE IF Xfer(i, o) THEN NoJob ELSE job
     /\ age' = IF job # NoJob /\ ~o.hv THEN age + 1 ELSE 0
     /\ idle' = IF job = NoJob /\ ~o.ready THEN idle + 1 ELSE 0
     /\ doneOwed' = IF o.done THEN FALSE ELSE (doneOwed \/ Xfer(i, o))
     /\ nAcc' = IF acc THEN nAcc + 1 ELSE nAcc
     /\ lastAcc' = IF acc THEN new ELSE lastAcc
     /\ nSent' = IF Xfer(i, o) THEN nSent + 1 ELSE nSent
     /\ lastSent' = IF Xfer(i, o) THEN h ELSE lastSent

NoHdr == [type |-> 0, addr |-> 0, sub |-> 0, rty |-> 0, dir |-> 0, ep |-> 0, nump |-> 0, seq |-> 0]

Init == /\ job = NoJob /\ age = 0 /\ idle = 0 /\ doneOwed = FALSE
        /\ in = [ack |-> FALSE, stall |-> FALSE, nrdy |-> FALSE, erdy |-> FALSE,
                 ep |-> 0, rty |-> 0, seq |-> 0, addr |-> 0, hqr |-> FALSE]
        /\ out = [ready |-> FALSE, done |-> FALSE, hv |-> FALSE, dw0lo |-> 0, dw0hi |-> 0, dw1lo |-> 0, dw1hi |-> 0]
        /\ nAcc = 0 /\ nSent = 0 /\ lastAcc = NoJob /\ lastSent = NoHdr

-----------------------------------------------------------------------------
(* Prop *)
Matches(h, j) == /\ h.type = TpType /\ h.sub = SubOf(j.kind) /\ h.addr = j.addr /\ h.ep = j.ep
                 /\ (j.kind = "ack" => h.rty = j.rty /\ h.seq = j.seq)

\* Exactly one transaction packet per accepted request: never more sent than accepted, and the
\* difference is precisely the request in progress.
OnePacketPerRequest == nAcc = nSent + (IF job # NoJob THEN 1 ELSE 0)
\* The job in progress is the last accepted request; once handed over, the packet sent equals it.
PacketEqualsRequest == /\ (job # NoJob => job = lastAcc)
                       /\ (job = NoJob /\ nSent > 0 => Matches(lastSent, lastAcc))
Bounded == age <= ValidLat /\ idle <= ReadyLat
=============================================================================
