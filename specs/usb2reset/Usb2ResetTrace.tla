-------------------------- MODULE Usb2ResetTrace --------------------------
(***************************************************************************)
(* Trace validation for Usb2Reset.  A trace recorded from the real         *)
(* USBResetSequencer (or from USBDevice around it) is a sequence of        *)
(*   full records  [ls, vbus, disc, fso, lso, busy, rst, inputs of a cycle *)
(*                  br, susp, spd, op, term, txv, txd,   public outputs    *)
(*                  st]          real FSM state name ("" = not recorded)   *)
(*   leap records  [dt |-> n]    n further cycles, inputs and outputs as   *)
(*                               in the previous full record               *)
(* Verdict (register tid): <<records matched, first violated Prop clause>>.*)
(* The verdict rests on the monitors over the observed inputs/outputs only.*)
(* The reference sequencer runs in lock-step as long as it agrees with the *)
(* observed outputs / FSM state; the first disagreement is reported as     *)
(* DRIFT information (register Len(Logs)+tid), never as a verdict.         *)
(***************************************************************************)
EXTENDS Usb2Reset, TLC, TLCExt, Json, IOUtils

Logs == JsonDeserialize(IOEnv.TRACE_FILE)
NT == Len(Logs)

VARIABLES tid, l, status,
          kf,        \* known-finding trigger predicates hit so far
          drift,     \* 0, or index of the first record at which Ref and the real module disagree
          evs,       \* monitor antecedents exercised
          sts        \* real FSM states seen
tvars == <<vars, tid, l, status, kf, drift, evs, sts>>

NoInfo == [drift |-> 0, kf |-> {}, ev |-> {}, st |-> {}, fsm |-> ""]
ASSUME \A i \in 1..NT : TLCSet(i, <<0, "ok">>) /\ TLCSet(NT + i, NoInfo)

Rec == Logs[tid][l]
IsLeap(r) == "dt" \in DOMAIN r

ObsRec(r) == [ls |-> r.ls, vbus |-> r.vbus, disc |-> r.disc, fso |-> r.fso, lso |-> r.lso, busy |-> r.busy,
              rst |-> r.rst,
              br |-> r.br, susp |-> r.susp, spd |-> r.spd, op |-> r.op, term |-> r.term,
              txv |-> r.txv, txd |-> r.txd]
\* What Ref predicts for the observed outputs.  In a device-level trace the termination select seen
\* on the UTMI bus is gated by `connect` (device.py), i.e. by ~disc.
Predicted(s, o, dev) == LET u == RefOut(s, InOf(o)) IN
                        [u EXCEPT !.term = IF dev /\ o.disc THEN 0 ELSE u.term]
Seen(o) == [br |-> o.br, susp |-> o.susp, txv |-> o.txv, spd |-> o.spd, op |-> o.op, term |-> o.term]

TInit == /\ Init
         /\ tid \in 1..NT
         /\ l = 1 /\ status = "ok" /\ kf = KfInit /\ drift = 0 /\ evs = {} /\ sts = {}

Full(r) ==
  LET o == ObsRec(r)
      e == MonEval(mon, o)
      dev == "dev" \in DOMAIN r
      agree == Predicted(ref, o, dev) = Seen(o) /\ (r.st = "" \/ r.st = ref.fsm)
  IN /\ mon' = e.m
     /\ status' = e.bad
     /\ bad' = e.bad
     /\ obs' = o
     /\ kf' = KfEval(kf, e.m, o)
     /\ evs' = evs \cup e.ev
     /\ sts' = IF r.st = "" THEN sts ELSE sts \cup {r.st}
     /\ IF drift = 0 /\ agree THEN ref' = (IF o.rst THEN RefInit ELSE RefNext(ref, InOf(o))) /\ drift' = 0
        ELSE IF o.rst THEN ref' = RefInit /\ drift' = drift      \* a domain reset re-synchronises the lock-step
        ELSE ref' = ref /\ drift' = IF drift = 0 THEN l ELSE drift

Leap(n) ==
  LET o == obs
      st == IF l > 1 /\ ~IsLeap(Logs[tid][l - 1]) THEN Logs[tid][l - 1].st ELSE ""
      rr == RefRun(ref, InOf(o), n, RefOut(ref, InOf(o)), st)
  IN /\ status' = IF n < 1 \/ ~AdvDefined(o) THEN "malformed_leap" ELSE AdvBad(mon, o, n)
     /\ bad' = status'
     /\ mon' = MonAdv(mon, o, n)
     /\ kf' = KfAdv(kf, mon, o, n)
     /\ evs' = evs \cup AdvEv(mon, o, n)
     /\ UNCHANGED <<obs, sts>>
     /\ IF drift = 0 /\ rr.ok THEN ref' = rr.s /\ drift' = 0
        ELSE ref' = ref /\ drift' = IF drift = 0 THEN l ELSE drift

TNext == /\ status = "ok"
         /\ l <= Len(Logs[tid])
         /\ IF IsLeap(Rec) THEN Leap(Rec.dt) ELSE Full(Rec)
         /\ l' = l + 1
         /\ UNCHANGED tid

TSpec == TInit /\ [][TNext]_tvars

Progress == /\ TLCSet(tid, <<l - 1, status>>)
            /\ TLCSet(NT + tid, [drift |-> drift, kf |-> kf.tags, ev |-> evs, st |-> sts, fsm |-> ref.fsm])

Verdicts == /\ JsonSerialize(IOEnv.VERDICT_FILE, [i \in 1..NT |-> TLCGet(i)])
            /\ JsonSerialize(IOEnv.INFO_FILE, [i \in 1..NT |-> TLCGet(NT + i)])
=============================================================================
