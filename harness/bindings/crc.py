"""Engine `crc` — C30: every LUNA CRC network / running-CRC module equals the bit-serial definition of the
USB standards (specs/lib/CRC.tla, specs/crc/CrcFn.tla, specs/crc/CrcUnit.tla).

The comparison is always made by TLC: the harness evaluates / simulates the *real* expressions and modules in
amaranth.sim, records (inputs, observed outputs) and has CrcFnTrace / CrcUnitTrace decide `out = Definition(in)`.
"""
import json
import os

from .. import tlc
from ..core import use_repo
from ..hosts.parval import validate_group_parallel

ENGINE = "crc"
SPEC_DIR = "crc"

META = {
    "C30": {
        "text": "TLC evaluates the bit-serial CRC definitions of the USB standards (one-bit shift register of CRC.tla) "
                "on all 2^11 inputs of the CRC5 networks and on an affine basis (zero vector + every unit vector of "
                "state and data) of the wide networks, checks the standards' residuals / single-bit-flip rejection / "
                "GF(2)-linearity of the shift on them, and exports the expected images.  The real LUNA expressions "
                "(USBTokenDetector._generate_crc_for_token, USBDataPacketCRC._generate_next_crc, compute_usb_crc5, "
                "HeaderPacketCRC._generate_next_crc, DataPacketPayloadCRC._generate_next_{full,3B,2B,1B}_crc) are "
                "checked structurally to be XOR/NOT/slice/Cat networks (affine over GF(2)), evaluated in amaranth.sim "
                "on exactly those points plus random non-basis points, and TLC decides out = Definition(in) for every "
                "recorded evaluation — agreement of two affine maps on an affine basis is agreement on all 2^24 / "
                "2^48 / 2^64 / 2^56 / 2^48 / 2^40 inputs.  The running-CRC modules (USBDataPacketCRC, HeaderPacketCRC, "
                "DataPacketPayloadCRC incl. next_crc_1B/2B/3B) are model-checked as CrcUnit.tla (clear/advance/idle "
                "schedules; running = whole-message CRC, residual, flipped field rejected) and cycle traces of the "
                "real modules (TLC-simulated schedules + random packets, every tail size) are validated against it.",
        "note": "State encoding of the 'next state' networks: bit i of the running register = coefficient of x^i "
                "(the format whose reversed complement the modules output).  The affine-basis argument rests on the "
                "structural check of the expression returned for symbolic arguments; if it fails the check falls "
                "back to sampling and says so.  Env: at most one advance strobe per cycle (rx_valid/tx_valid, "
                "advance_word/3B/2B/1B); clear may coincide with an advance (clear wins).  Trusted base: TLC, "
                "amaranth.sim, CRC.tla's transcription of the standards (cross-checked against the standards' "
                "residuals and the packets recorded in the repository's tests).",
        "technique": "TLA+ bit-serial definitions, TLC exhaustive/affine-basis evaluation + structural affinity check "
                     "+ batch trace validation of pysim evaluations and module traces",
        "design_ref": "DESIGN.md §5 C30",
    }
}

CRC5_KINDS = ("usb2_crc5", "usb3_crc5")
WIDE_KINDS = ("usb2_crc16", "usb3_hdr16", "usb3_crc32_4B", "usb3_crc32_3B", "usb3_crc32_2B", "usb3_crc32_1B")
WIDTHS = {   # kind -> (state width, data width, output width)
    "usb2_crc5": (0, 11, 5), "usb3_crc5": (0, 11, 5),
    "usb2_crc16": (16, 8, 16), "usb3_hdr16": (16, 32, 16),
    "usb3_crc32_4B": (32, 32, 32), "usb3_crc32_3B": (32, 24, 32),
    "usb3_crc32_2B": (32, 16, 32), "usb3_crc32_1B": (32, 8, 32),
}
REAL_NAME = {
    "usb2_crc5": "usb2.packet.USBTokenDetector._generate_crc_for_token",
    "usb3_crc5": "usb3.link.crc.compute_usb_crc5",
    "usb2_crc16": "usb2.packet.USBDataPacketCRC._generate_next_crc",
    "usb3_hdr16": "usb3.link.crc.HeaderPacketCRC._generate_next_crc",
    "usb3_crc32_4B": "usb3.link.crc.DataPacketPayloadCRC._generate_next_full_crc",
    "usb3_crc32_3B": "usb3.link.crc.DataPacketPayloadCRC._generate_next_3B_crc",
    "usb3_crc32_2B": "usb3.link.crc.DataPacketPayloadCRC._generate_next_2B_crc",
    "usb3_crc32_1B": "usb3.link.crc.DataPacketPayloadCRC._generate_next_1B_crc",
}


def _cfg(name):
    with open(os.path.join(tlc.SPECS, SPEC_DIR, name)) as f:
        return f.read()


def bits_of(v, n):
    return [(v >> i) & 1 for i in range(n)]


def val_of(bits):
    return sum(b << i for i, b in enumerate(bits))


# ------------------------------------------------------------------------------------------------------------
# the real networks
# ------------------------------------------------------------------------------------------------------------

def real_networks():
    """kind -> callable(state_value, data_value) returning the real amaranth expression."""
    use_repo()
    from luna.gateware.usb.usb2.packet import USBTokenDetector, USBDataPacketCRC
    from luna.gateware.usb.usb3.link.crc import compute_usb_crc5, HeaderPacketCRC, DataPacketPayloadCRC
    u2 = USBDataPacketCRC()
    hdr = HeaderPacketCRC()
    pay = DataPacketPayloadCRC()
    for o in (u2, hdr, pay):          # used for their expression builders only
        o._MustUse__silence = True
    return {
        "usb2_crc5": lambda s, d: USBTokenDetector._generate_crc_for_token(d),
        "usb3_crc5": lambda s, d: compute_usb_crc5(d),
        "usb2_crc16": lambda s, d: u2._generate_next_crc(s, d),
        "usb3_hdr16": lambda s, d: hdr._generate_next_crc(s, d),
        "usb3_crc32_4B": lambda s, d: pay._generate_next_full_crc(s, d),
        "usb3_crc32_3B": lambda s, d: pay._generate_next_3B_crc(s, d),
        "usb3_crc32_2B": lambda s, d: pay._generate_next_2B_crc(s, d),
        "usb3_crc32_1B": lambda s, d: pay._generate_next_1B_crc(s, d),
    }


def affine_structure(expr, allowed):
    """Is `expr` built only from XOR / NOT / slices / Cat / constants over the `allowed` signals?

    Such a network is an affine map over GF(2) of the bits of the allowed signals.
    Returns (ok, reason, stats)."""
    from amaranth.hdl import _ast as ast
    allowed_ids = {id(s) for s in allowed}
    stats = {"xor": 0, "not": 0, "slice": 0, "cat": 0, "const": 0, "leaf": 0}
    stack = [expr]
    seen = set()
    while stack:
        e = stack.pop()
        if id(e) in seen:
            continue
        seen.add(id(e))
        if isinstance(e, ast.Const):
            stats["const"] += 1
        elif isinstance(e, ast.Signal):
            if id(e) not in allowed_ids:
                return False, "depends on a signal that is not an argument: %r" % (e,), stats
            stats["leaf"] += 1
        elif isinstance(e, ast.Slice):
            stats["slice"] += 1
            stack.append(e.value)
        elif isinstance(e, ast.Concat):
            stats["cat"] += 1
            stack.extend(e.parts)
        elif isinstance(e, ast.Operator):
            if e.operator == "^" and len(e.operands) == 2:
                stats["xor"] += 1
            elif e.operator == "~" and len(e.operands) == 1:
                stats["not"] += 1
            else:
                return False, "non-affine operator %r with %d operands" % (e.operator, len(e.operands)), stats
            stack.extend(e.operands)
        else:
            return False, "non-affine node %s" % type(e).__name__, stats
    return True, "xor/not/slice/cat only", stats


class NetworkEvaluator:
    """Evaluates one real network in amaranth.sim (a purely combinational wrapper around the expression)."""

    def __init__(self, kind, fn):
        from amaranth import Signal, Module, Elaboratable
        from amaranth.hdl import _ast as ast
        sw, dw, ow = WIDTHS[kind]
        self.kind = kind
        self.s = Signal(max(sw, 1), name="state")
        self.d = Signal(dw, name="data")
        self.expr = ast.Value.cast(fn(self.s, self.d))
        self.o = Signal(len(self.expr), name="out")
        self.width_ok = len(self.expr) == ow
        outer = self

        class Wrap(Elaboratable):
            def elaborate(self, platform):
                m = Module()
                m.d.comb += outer.o.eq(outer.expr)
                return m
        self.dut = Wrap()

    def structure(self):
        return affine_structure(self.expr, [self.s, self.d])

    def evaluate(self, points):
        """points: list of (state bits, data bits) -> list of output bit lists."""
        from amaranth.sim import Simulator
        sw, dw, ow = WIDTHS[self.kind]
        outs = []
        sim = Simulator(self.dut)

        async def bench(ctx):
            for s, d in points:
                ctx.set(self.s, val_of(s))
                ctx.set(self.d, val_of(d))
                outs.append(bits_of(ctx.get(self.o), len(self.o)))
        sim.add_testbench(bench)
        sim.run()
        return outs


def random_points(rng, kind, n):
    """Random non-basis inputs: uniform, sparse (2..4 ones) and dense (2..4 zeroes)."""
    sw, dw, _ = WIDTHS[kind]
    tot = sw + dw
    pts = []
    for i in range(n):
        mode = i % 3
        if mode == 0:
            v = rng.getrandbits(tot)
        else:
            v = 0
            for _ in range(rng.randint(2, 4)):
                v |= 1 << rng.randrange(tot)
            if mode == 2:
                v ^= (1 << tot) - 1
        pts.append((bits_of(v & ((1 << sw) - 1), sw), bits_of(v >> sw, dw)))
    return pts


def classify_fn(trace, matched, status, meta):
    return {"clause": status, "pattern": meta.get("kind", "other")}


def check_networks(rep, quick):
    nets = real_networks()
    # 1. TLC evaluates the definitions (exhaustive CRC5, affine basis of the wide networks) and exports images.
    #    usb3_crc5 has the same definition as usb2_crc5 (CrcFn!FnDef does not distinguish them): evaluated once.
    mc_kinds = ["usb2_crc5"] + list(WIDE_KINDS)
    with tlc.scratch("crc-img-") as d:
        img = os.path.join(d, "images.json")
        cfg = tlc.render_cfg(_cfg("MCCrcFn.cfg.tmpl"), {"Kinds": set(mc_kinds)})
        res = tlc.model_check(SPEC_DIR, "MCCrcFn", cfg, workers=8, timeout=1800, env={"IMAGES_FILE": img})
        with open(img) as f:
            images = json.load(f)
    rep.add_mc("MCCrcFn: all 2^11 CRC5 inputs + affine bases of 6 wide networks", res,
               {"Kinds": mc_kinds, "points": {k: len(v) for k, v in sorted(images.items())}})
    images["usb3_crc5"] = images["usb2_crc5"]

    items = []
    n_rand = (120 if quick else 4000)
    all_affine = True
    for kind in CRC5_KINDS + WIDE_KINDS:
        sw, dw, ow = WIDTHS[kind]
        ev = NetworkEvaluator(kind, nets[kind])
        ok, reason, stats = ev.structure()
        if not ev.width_ok:
            ok, reason = False, "result is %d bits wide, expected %d" % (len(ev.expr), ow)
        rep.extra.setdefault("structure", {})[kind] = {"real": REAL_NAME[kind], "affine": ok, "why": reason,
                                                      "nodes": stats}
        basis = [(p["s"], p["d"]) for p in images[kind]]
        extra = []
        if kind in WIDE_KINDS:
            n = n_rand if ok else n_rand * 5
            if kind.startswith("usb3_crc32") and quick:
                n = n * 2 // 3
            extra = random_points(rep.rng, kind, n)
            if not ok:
                all_affine = False
                rep.notes.append("%s is NOT structurally affine (%s): the basis argument does not apply, "
                                 "falling back to %d sampled inputs" % (REAL_NAME[kind], reason, n))
        pts = basis + extra
        outs = ev.evaluate(pts)
        rep.add_eval(len(pts))
        expect = {(tuple(p["s"]), tuple(p["d"])): p["o"] for p in images[kind]}
        recs = []
        for (s, d), o in zip(pts, outs):
            recs.append({"k": kind, "s": s, "d": d, "o": o})
            rep.nontriv((kind, val_of(s), val_of(d)))
            e = expect.get((tuple(s), tuple(d)))
            if e is not None and e != o and len(rep.drift) < 10:
                rep.drift.append({"kind": kind, "state": val_of(s), "data": val_of(d), "real": val_of(o),
                                  "tlc_image": val_of(e)})
        rep.sample({"network": REAL_NAME[kind], "state": val_of(pts[-1][0]), "data": val_of(pts[-1][1]),
                    "real_output": val_of(outs[-1])})
        # records are independent: short traces so that one rejection leaves little unexamined
        size = 64 if kind in CRC5_KINDS else 24
        for i in range(0, len(recs), size):
            part = recs[i:i + size]
            items.append((part, {"kind": kind, "real": REAL_NAME[kind], "records": "%d..%d" % (i, i + len(part) - 1),
                                 "class": "basis/exhaustive" if i < len(basis) else "random"}))
    rep.extra["all_networks_structurally_affine"] = all_affine
    validate_group_parallel(rep, SPEC_DIR, "CrcFnTrace", _cfg("CrcFnTrace.cfg.tmpl"), items,
                            classify=classify_fn, chunk=max(8, (len(items) + 3) // 4),
                            what_prefix="CRC network ")


# ------------------------------------------------------------------------------------------------------------
# the running-CRC modules
# ------------------------------------------------------------------------------------------------------------

UNITS = ("usb2_crc16", "usb3_hdr16", "usb3_crc32")
UNIT_DATA_BITS = {"usb2_crc16": 8, "usb3_hdr16": 32, "usb3_crc32": 32}
UNIT_CHUNKS = {"usb2_crc16": (1,), "usb3_hdr16": (4,), "usb3_crc32": (1, 2, 3, 4)}
UNIT_W = {"usb2_crc16": 16, "usb3_hdr16": 16, "usb3_crc32": 32}


class UnitDriver:
    """Drives one real running-CRC module cycle by cycle; a stimulus step is
    {"clear": bool, "n": bytes advanced (0 = none), "data": int, "port": "rx"|"tx", "who": 0|1|2, "chk": bool}."""

    def __init__(self, unit):
        use_repo()
        from amaranth.sim import Simulator
        self.unit = unit
        if unit == "usb2_crc16":
            from luna.gateware.usb.usb2.packet import USBDataPacketCRC, DataCRCInterface
            self.dut = USBDataPacketCRC()
            self.ifaces = [DataCRCInterface(), DataCRCInterface()]
            for i in self.ifaces:
                self.dut.add_interface(i)
            self.domain = "usb"
        elif unit == "usb3_hdr16":
            from luna.gateware.usb.usb3.link.crc import HeaderPacketCRC
            self.dut = HeaderPacketCRC()
            self.domain = "ss"
        else:
            from luna.gateware.usb.usb3.link.crc import DataPacketPayloadCRC
            self.dut = DataPacketPayloadCRC()
            self.domain = "ss"
        self.sim = Simulator(self.dut)
        self.sim.add_clock(1e-6, domain=self.domain)
        self.sim.add_testbench(self._bench)
        self._first = True
        self._stim = None
        self._rec = None

    async def _bench(self, ctx):
        dut = self.dut
        unit = self.unit
        w = UNIT_W[unit]
        db = UNIT_DATA_BITS[unit]
        rec = []
        for st in self._stim:
            n = st["n"]
            if unit == "usb2_crc16":
                who = st.get("who", 1)
                ctx.set(self.ifaces[0].start, int(st["clear"] and who in (1, 3)))
                ctx.set(self.ifaces[1].start, int(st["clear"] and who in (2, 3)))
                rx = n == 1 and st.get("port", "rx") == "rx"
                tx = n == 1 and not rx
                ctx.set(dut.rx_valid, int(rx))
                ctx.set(dut.tx_valid, int(tx))
                # the port that is not advancing carries unrelated data
                ctx.set(dut.rx_data, st["data"] if rx or not tx else st.get("other", 0))
                ctx.set(dut.tx_data, st["data"] if tx else st.get("other", 0))
                crcs = [bits_of(ctx.get(i.crc), w) for i in self.ifaces]
                nx = []
            elif unit == "usb3_hdr16":
                ctx.set(dut.clear, int(st["clear"]))
                ctx.set(dut.advance_crc, int(n == 4))
                ctx.set(dut.data_input, st["data"])
                crcs = [bits_of(ctx.get(dut.crc), w)]
                nx = []
            else:
                ctx.set(dut.clear, int(st["clear"]))
                ctx.set(dut.advance_word, int(n == 4))
                ctx.set(dut.advance_3B, int(n == 3))
                ctx.set(dut.advance_2B, int(n == 2))
                ctx.set(dut.advance_1B, int(n == 1))
                ctx.set(dut.data_input, st["data"])
                crcs = [bits_of(ctx.get(dut.crc), w)]
                nx = [bits_of(ctx.get(dut.next_crc_1B), w), bits_of(ctx.get(dut.next_crc_2B), w),
                      bits_of(ctx.get(dut.next_crc_3B), w)]
            rec.append({"clear": bool(st["clear"]), "n": n, "bits": bits_of(st["data"], db),
                        "crcs": crcs, "nx": nx, "chk": bool(st.get("chk", False))})
            await ctx.tick(self.domain)
        self._rec = rec

    def run(self, stim):
        self._stim = stim
        self._rec = None
        if not self._first:
            self.sim.reset()
        self._first = False
        self.sim.run()
        return self._rec


def random_unit_stimulus(rng, unit, packets, max_bytes):
    """Random packets: [idle gap] clear (alone, or on a cycle that also carries an advance strobe) data... """
    db = UNIT_DATA_BITS[unit]
    stim = []

    def idle(k):
        for _ in range(k):
            stim.append({"clear": False, "n": 0, "data": rng.getrandbits(db)})

    for _ in range(packets):
        idle(rng.choice([0, 0, 1, 2]))
        port = rng.choice(["rx", "tx"])
        who = rng.choice([1, 2, 3])
        if rng.random() < 0.4:       # clear coincides with an advance strobe (e.g. the PID byte): clear wins
            stim.append({"clear": True, "n": rng.choice(UNIT_CHUNKS[unit]), "data": rng.getrandbits(db),
                         "port": port, "who": who})
        else:
            stim.append({"clear": True, "n": 0, "data": rng.getrandbits(db), "who": who})
        if unit == "usb2_crc16":
            nbytes = rng.choice([0, 1, 2, 3, 8, rng.randint(0, max_bytes)])
            chunks = [1] * nbytes
        elif unit == "usb3_hdr16":
            chunks = [4] * rng.choice([3, 3, 3, 1, 2, 4])
        else:
            nbytes = rng.choice([1, 2, 3, 4, 5, 6, 7, 8, rng.randint(0, max_bytes)])
            chunks = [4] * (nbytes // 4) + ([nbytes % 4] if nbytes % 4 else [])
            if rng.random() < 0.15 and chunks:      # bytes after a tail: still a legal schedule
                chunks.append(rng.choice([1, 2, 3, 4]))
        for i, n in enumerate(chunks):
            if rng.random() < 0.3:
                idle(1)
            mode = rng.random()
            data = rng.getrandbits(db) if mode < 0.7 else rng.choice([0, (1 << db) - 1, 1, 1 << (db - 1)])
            stim.append({"clear": False, "n": n, "data": data, "port": port, "other": rng.getrandbits(8),
                         "chk": i == len(chunks) - 1})
    idle(1)
    return stim


def recorded_packets(unit):
    """Directed scenarios from the repository's tests, re-driven through the harness (TLC decides)."""
    if unit == "usb2_crc16":     # tests/test_usb2_packet.py: DATA0 00 05 08 00 00 00 00 00 (EB BC); ZLP
        stim = [{"clear": True, "n": 1, "data": 0xC3, "port": "rx", "who": 1}]
        stim += [{"clear": False, "n": 1, "data": b, "port": "rx"} for b in (0, 5, 8, 0, 0, 0, 0, 0)]
        stim[-1]["chk"] = True
        stim += [{"clear": False, "n": 0, "data": 0}, {"clear": True, "n": 1, "data": 0x4B, "port": "rx", "who": 1},
                 {"clear": False, "n": 0, "data": 0, "chk": True}]
        return stim
    if unit == "usb3_crc32":     # tests/test_usb3_crc.py
        stim = [{"clear": True, "n": 0, "data": 0}]
        stim += [{"clear": False, "n": 4, "data": w} for w in (0x03000112, 0x09000000, 0x520013FE, 0x02010100)]
        stim += [{"clear": False, "n": 2, "data": 0x0103, "chk": True}, {"clear": False, "n": 0, "data": 0},
                 {"clear": True, "n": 0, "data": 0}]
        stim += [{"clear": False, "n": 4, "data": w} for w in (0x02000112, 0x40000000)]
        stim[-1]["chk"] = True
        stim.append({"clear": False, "n": 0, "data": 0})
        return stim
    return None


def classify_unit(trace, matched, status, meta):
    steps = trace["steps"]
    prev = steps[matched - 2] if matched >= 2 else {}
    if prev.get("clear") and prev.get("n"):
        pat = "after_clear_with_advance"
    elif prev.get("clear"):
        pat = "after_clear"
    elif prev.get("n"):
        pat = "after_advance_%dB" % prev["n"]
    else:
        pat = "after_idle" if prev else "reset_state"
    return {"clause": status, "pattern": "%s:%s" % (meta.get("unit"), pat)}


def check_units(rep, quick):
    sub = {"ModelUnits": set(UNITS), "Alphabet": '"small"' if quick else '"large"',
           "MaxBitsOf": "BitsQuick" if quick else "BitsThorough"}
    res = tlc.model_check(SPEC_DIR, "MCCrcUnit", tlc.render_cfg(_cfg("MCCrcUnit.cfg.tmpl"), sub),
                          workers=8, timeout=1800)
    rep.add_mc("MCCrcUnit (USBDataPacketCRC, HeaderPacketCRC, DataPacketPayloadCRC)", res,
               {"units": list(UNITS), "Alphabet": sub["Alphabet"].strip('"'), "MaxBits": sub["MaxBitsOf"]})

    # spec -> code: schedules simulated by TLC from the specification (the unit is chosen by Init)
    sub = {"ModelUnits": set(UNITS), "Alphabet": '"large"'}
    behs = tlc.simulate(SPEC_DIR, "MCCrcUnit", tlc.render_cfg(_cfg("MCCrcUnit_sim.cfg.tmpl"), sub),
                        num=18 if quick else 200, depth=14 if quick else 30, seed=rep.seed * 11 + 3, timeout=1800)
    jobs = {u: [] for u in UNITS}
    for b in behs:
        unit = b[0][1]["unit"]
        stim = []
        for _, st in b[1:]:
            i = st["in"]
            stim.append({"clear": i["clear"], "n": i["n"], "data": val_of(i["bits"]),
                         "port": rep.rng.choice(["rx", "tx"]), "who": rep.rng.choice([1, 2, 3])})
        if stim:
            stim[-1]["chk"] = True
            stim.append({"clear": False, "n": 0, "data": 0})
            jobs[unit].append((stim, "tlc-simulate"))

    items = []
    for unit in UNITS:
        drv = UnitDriver(unit)
        # code -> spec: random packets beyond the model's alphabet and lengths, repository's recorded packets
        npk = {"usb2_crc16": 8, "usb3_hdr16": 8, "usb3_crc32": 6}[unit]
        for _ in range(4 if quick else 60):
            jobs[unit].append((random_unit_stimulus(rep.rng, unit, npk, 12 if quick else 64), "random"))
        rp = recorded_packets(unit)
        if rp:
            jobs[unit].append((rp, "repository-test-packets"))
        if not quick and unit != "usb3_hdr16":       # a few long packets
            for _ in range(3):
                jobs[unit].append((random_unit_stimulus(rep.rng, unit, 1, 1024 if unit == "usb3_crc32" else 512),
                                   "random-long"))
        first = True
        for stim, origin in jobs[unit]:
            trace = drv.run(stim)
            rep.add_eval(len(trace))
            fed = 0
            for r in trace:
                if r["clear"]:
                    fed = 0
                    rep.nontriv((unit, "clear", r["n"]))
                elif r["n"]:
                    fed += r["n"]
                    rep.nontriv((unit, "adv", r["n"], min(fed, 40)))
            items.append(({"unit": unit, "steps": trace}, {"unit": unit, "origin": origin}))
            if first and origin != "tlc-simulate":
                first = False
                rep.sample({"unit": unit, "origin": origin,
                            "first_cycles": [{"clear": r["clear"], "n": r["n"], "data": val_of(r["bits"]),
                                              "crc": [val_of(c) for c in r["crcs"]]} for r in trace[:5]]})
    validate_group_parallel(rep, SPEC_DIR, "CrcUnitTrace", _cfg("CrcUnitTrace.cfg.tmpl"), items,
                            classify=classify_unit, steps_of=lambda t: len(t["steps"]),
                            chunk=max(4, (len(items) + 2) // 3), what_prefix="running-CRC module ")


def check_C30(rep):
    quick = rep.tier == "quick"
    rep.rule = ("networks: every distinct (network, state, data) input on which the real expression was evaluated in "
                "amaranth.sim and compared by TLC with the bit-serial definition; modules: distinct (unit, clear|advance, "
                "chunk size, bytes fed so far) cycles of the real modules validated against CrcUnit.tla")
    rep.assume("running-register encoding of the 'next state' networks: bit i = coefficient of x^i (the encoding whose "
               "bit-reversed complement the modules present as the CRC field)")
    rep.assume("at most one advance strobe per cycle (rx_valid/tx_valid; advance_word/3B/2B/1B); clear may coincide "
               "with an advance strobe and wins")
    rep.assume("wide networks: equality on zero + unit vectors extends to all inputs because the real expression is "
               "structurally XOR/NOT/slice/Cat (affine over GF(2)) and the definition is a composition of the linear "
               "one-bit shift (TLC: ShiftLinear)")
    check_networks(rep, quick)
    check_units(rep, quick)


CHECKS = {"C30": check_C30}
