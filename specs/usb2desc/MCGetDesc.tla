----------------------------- MODULE MCGetDesc -----------------------------
(* Bounded instance of GetDesc.  The family of configurations (descriptor tables with sparse indices,  *)
(* lengths around the packet-size multiples, MaxPkt in {8,16,32,64}) is written by the harness as JSON   *)
(* (so that the very same configurations can be instantiated as real gateware); TLC enumerates every     *)
(* configuration, every request (existing and missing descriptors x the wLength corner values derived    *)
(* from the configuration), every ACK / no-ACK / NAK schedule and early status stages.                   *)
EXTENDS GetDesc, TLC, Json, IOUtils

MCConfigs == JsonDeserialize(IOEnv.CONFIG_FILE)
MCCfgOf(i) == MCConfigs[i]

MCInit == Init0 /\ cid \in 1..Len(MCConfigs)

\* wValues requested: every descriptor of the table, plus missing ones (absent index of a present type,
\* hole in a sparse index set, absent type inside / beyond the table's type range, type 0)
Missing == {v \in {1, 257, 513, 769, 772, 1024, 2304, 4096} : ~HasDesc(v)}
Wanted  == {C.table[i].v : i \in 1..Len(C.table)} \cup Missing

\* wLength corner values for a request
WLens(v) == LET m == C.maxpkt
                n == IF HasDesc(v) THEN Len(DescOf(v)) ELSE m
            IN {w \in {1, m - 1, m, m + 1, 2 * m, n - 1, n, n + 1, 65535} : w >= 1}

DoSetup     == \E v \in Wanted : \E w \in WLens(v) : Setup(v, w)
ExpectedOut == IF HasDesc(xfer.v) THEN [k |-> "data", bytes |-> ExpectedPacket(xfer, Len(sent))]
                                  ELSE [k |-> "stall", bytes |-> <<>>]
InAcked     == CanIn /\ HasDesc(xfer.v) /\ In(TRUE, ExpectedOut) /\ stage' = "data"
InLast      == CanIn /\ HasDesc(xfer.v) /\ In(TRUE, ExpectedOut) /\ stage' = "complete"
InNotAcked  == CanIn /\ HasDesc(xfer.v) /\ In(FALSE, ExpectedOut)
InNak       == CanIn /\ In(FALSE, [k |-> "nak", bytes |-> <<>>])
InStall     == CanIn /\ ~HasDesc(xfer.v) /\ \E a \in BOOLEAN : In(a, ExpectedOut)
StatusDone  == stage = "complete" /\ Status
StatusEarly == stage = "data" /\ Status

DoReset     == stage \in {"data", "complete"} /\ Reset
MCNext == \/ DoReset \/ DoSetup \/ InAcked \/ InLast \/ InNotAcked \/ InNak \/ InStall \/ StatusDone \/ StatusEarly
MCSpec == MCInit /\ [][MCNext]_vars

ASSUME \A i \in 1..Len(MCConfigs) :
          \A a, b \in 1..Len(MCConfigs[i].table) : MCConfigs[i].table[a].v = MCConfigs[i].table[b].v => a = b

TypeOK == /\ stage \in {"idle", "data", "complete", "stalled"}
          /\ naks \in 0..MaxNak /\ tog \in {0, 1}

\* action-level theorems
StallIffMissing == [][(in'.e = "in") => ((out'.k = "stall") <=> ~HasDesc(xfer.v))]_vars
NoAckNoProgress == [][(in'.e = "in" /\ ~in'.ack) => (sent' = sent /\ tog' = tog)]_vars
ToggleAlternates == [][(in'.e = "in" /\ Len(pkts') > Len(pkts)) => tog' # tog]_vars
=============================================================================
