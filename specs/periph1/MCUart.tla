------------------------------- MODULE MCUart -------------------------------
(* Bounded instance of Uart for exhaustive exploration: divisor and byte width chosen in Init; *)
(* the producer offers words over a small byte alphabet (held until accepted), back-to-back or *)
(* spaced; the transmitter's freedoms (when to raise ready, up to MaxStall cycles of slack     *)
(* before a start bit) are explored exhaustively; single cycles and leaps of up to MaxLeap.     *)
EXTENDS Uart, TLC

CONSTANTS Divisors, Widths, ByteAlpha, MaxAcc, MaxPend, MaxLeap

LimbsOfBytes(bs, w) == << bs[1] + 256 * (IF w >= 2 THEN bs[2] ELSE 0),
                          (IF w >= 3 THEN bs[3] ELSE 0) + 256 * (IF w >= 4 THEN bs[4] ELSE 0) >>
WordsOf(w) == {LimbsOfBytes(bs, w) : bs \in [1..w -> ByteAlpha]}

ASSUME \A w \in Widths : \A x \in WordsOf(w) : LittleEndianOK(x, w)
ASSUME \A w \in Widths : \A bs \in [1..w -> ByteAlpha] : BytesLE(LimbsOfBytes(bs, w), w) = bs

Init == \E d \in Divisors, w \in Widths : InitCfg(d, w)

NoWord == <<0, 0>>

\* what the reference lets the line show in the first cycle of the next step
TxChoices == IF bits # <<>> THEN {bits[1]} ELSE IF pend # <<>> THEN {0, 1} ELSE {1}
\* the words the producer may put on offer now (a word on offer is held)
Offer == IF offered THEN {in.d} ELSE WordsOf(W)

\* a word is accepted (always a single cycle)
Accept == \E wd \in Offer, tx \in TxChoices : Run(1, TRUE, wd, TRUE, tx)
\* n unchanged cycles without acceptance: nothing on offer (ready free), or a word refused
Quiet(n) == \/ /\ ~offered
               /\ \E rdy \in BOOLEAN, tx \in TxChoices : Run(n, FALSE, NoWord, rdy, tx)
            \/ \E wd \in Offer, tx \in TxChoices : Run(n, TRUE, wd, FALSE, tx)
Cycle == Quiet(1)
Leap  == \E n \in 2..MaxLeap : Quiet(n)

Next == Accept \/ Cycle \/ Leap
Spec == Init /\ [][Next]_vars

Bounded == Len(accepted) <= MaxAcc /\ Len(pend) <= MaxPend

TypeOK == /\ D \in Divisors /\ W \in Widths
          /\ \A i \in 1..Len(bits) : bits[i] \in {0, 1}
          /\ \A i \in 1..Len(pend) : pend[i] \in ByteAlpha
=============================================================================
