"""Engine `ss_phys` — USB3 physical layer: C31 scrambling, C32 RX CTC, C33 TX CTC, C34 word alignment, C42 LFPS.

Specifications: specs/ss_phys/{SsLfsr,Scrambler,CtcRx,CtcTx,Aligner,Lfps}.tla (+ MC*/ *Trace modules).
The Python side only builds stimuli, drives the real LUNA modules in amaranth.sim, records what they did and
hands the records to TLC; every verdict comes from TLC evaluating the TLA+ definitions on recorded traces.
"""
import os

from .. import tlc
from ..core import use_repo
from ..pipeline import validate_group

ENGINE = "ss_phys"
SPEC_DIR = "ss_phys"

META = {
    "C31": {
        "text": "The USB3 scrambler LFSR is written bit-serially from Appendix B (x^16+x^5+x^4+x^3+1, seed FFFFh, 8 serial "
                "shifts per symbol, key bit = D15) and checked by TLC against the standard's published key bytes; TLC "
                "explores every valid/ready/hold/COM interleaving of a scrambler->channel->descrambler model and proves "
                "round trip, keystream continuity and control-symbol transparency.  The real ScramblerLFSR (free-running "
                "from FFFFh through its states, every basis state and zero, random advance/clear), the real "
                "Scrambler/Descrambler (TLC-generated and random word streams with any data/control mix, COM at any lane, "
                "stalls, holds, clears, several seeds) and a real Scrambler->Descrambler pipe are recorded cycle by cycle and "
                "every record is validated by TLC against the specification.",
        "note": "Assumes a held word (replaced by SKPs) never carries COM in its first symbol. Quick tier walks a prefix of "
                "the LFSR cycle plus all basis states (the thorough tier walks all 65535 non-zero states and zero). "
                "Trusted base: TLC, amaranth.sim, the recording test benches.",
        "technique": "bit-serial TLA+ LFSR, TLC exhaustive protocol model + batch trace validation of pysim traces",
        "design_ref": "DESIGN.md §5 C31",
    },
    "C32": {
        "text": "TLC explores every sequence of input words with SKPs at any of the 16 position masks (incl. consecutive "
                "all-SKP words, invalid cycles) against a pointer-free Ref (output = input minus SKP, regrouped in fours, any "
                "latency) and proves no loss/duplication/reordering; the real CTCSkipRemover is driven with TLC-generated "
                "and random mask sequences over full 9-bit symbols (incl. data byte 3Ch and other K symbols) and every cycle "
                "is validated by TLC.",
        "note": "Downstream always ready (as wired). Latency is left free up to a buffering bound of 11 symbols.",
        "technique": "TLA+ stream Ref, TLC exhaustive over SKP masks + batch trace validation",
        "design_ref": "DESIGN.md §5 C32",
    },
    "C33": {
        "text": "Ref: output = link stream with idle words replaced by SKP words exactly when idle is offered and two SKP "
                "ordered sets are owed (one owed per 354 transferred symbols, remainder kept); TLC proves on a scaled model "
                "that the incremental credit equals floor(T/354)-sent, nothing but idle is replaced and order is kept.  The "
                "real CTCSkipInserter and the real USB3PhysicalLayer TX path (scrambler+CTC as wired, observed at PHY "
                "tx_data/tx_datak with scrambling on, so a keystream advance over an inserted SKP is visible) are driven "
                "with burst/idle schedules and validated by TLC cycle by cycle.",
        "note": "Assumes can_send_skip only with logical-idle words (as link/layer.py wires it), the TX path never stalls, "
                "non-idle bursts <= 1416 symbols (credit <= 4+1). Output latency free for the stand-alone inserter.",
        "technique": "TLA+ credit Ref, TLC exhaustive (scaled limit) + batch trace validation incl. in-situ physical layer",
        "design_ref": "DESIGN.md §5 C33",
    },
    "C34": {
        "text": "Ref: output symbol stream = input stream regrouped at the current offset; the offset moves only when a "
                "four-symbol alignment pattern (COMx4; SHP SHP SHP EPF / SLC SLC SLC EPF for the packet aligner) is seen at "
                "a byte offset, and that pattern is then presented as a whole word.  TLC explores all COM placements over a "
                "window of words and proves no symbol is lost/duplicated while the offset is unchanged; the real "
                "RxWordAligner and RxPacketAligner are driven with generated and random streams (offset changes, invalid "
                "words, partial COM runs, look-alike data bytes) and validated by TLC.",
        "note": "Streams with more than one alignment match in a 7-symbol window (COM runs longer than four) are outside "
                "the environment (the property does not say which offset wins). Output latency free.",
        "technique": "TLA+ stream Ref, TLC exhaustive over COM placements + batch trace validation",
        "design_ref": "DESIGN.md §5 C34",
    },
    "C42": {
        "text": "Explicit-time Ref of LFPS detection with the USB3.2 Table 6-30 numbers (ns) as spec constants and the clock "
                "period as a parameter: a periodic pattern is reported exactly at the start of a burst that completes the "
                "second consecutive in-window (burst, repeat) pair, warm reset exactly at the end of an in-window burst, "
                "never otherwise; generator = bursts of the typical length at the typical period.  TLC explores all "
                "envelopes over {min-1,min,typ,max,max+1} durations; the real LFPSDetector (polling, reset, ping at clocks "
                "where its windows are simulable), LFPSGenerator and LFPSTransceiver are driven with such envelopes and "
                "random ones, and the event-compressed traces plus the module's timing table are validated by TLC.",
        "note": "Durations are converted to cycles by rounding up; clock periods are chosen so that the table values are "
                "whole cycles. Detector output latency is calibrated once per DUT (not constrained). Generator period may "
                "include one re-arm cycle. Ping is decided in two halves (burst window at 125/250 MHz with a scaled repeat, "
                "repeat window at 1-10 kHz).",
        "technique": "explicit-time TLA+ Ref, TLC exhaustive over boundary envelopes + event-compressed trace validation",
        "design_ref": "DESIGN.md §5 C42",
    },
}

COM = 0x1BC
SKP = 0x13C
IDL = 0x000
SHP = 0x1FB
SLC = 0x1FE
EPF = 0x1F7
END = 0x1FD
SDP = 0x15C
LFSR_SEED = 0xFFFF


def _mc(rep, label, module, cfg, bounds, **kw):
    """Exhaustive TLC run of a bounded model.  SS_PHYS_SKIP_MC=1 (development only: the models do not depend on the tree
    under test) skips it and says so in the evidence."""
    if os.environ.get("SS_PHYS_SKIP_MC"):
        rep.notes.append("development run: exhaustive model %s skipped (SS_PHYS_SKIP_MC)" % label)
        return
    res = tlc.model_check(SPEC_DIR, module, cfg, workers=8, timeout=6000, **kw)
    rep.add_mc(label, res, bounds)


class _EnvGuard:
    """Report proxy handed to validate_group: a trace that TLC rejects on an `env_*` clause left the environment the
    specification assumes - that is a bug of the stimulus generator, never a finding about the gateware.  Such a trace is
    dropped and counted (evidence: coverage.stimuli_outside_env); everything else goes to the real Report."""

    def __init__(self, rep):
        self._rep = rep

    def __getattr__(self, name):
        return getattr(self._rep, name)

    def violation(self, signature, what, replay):
        if str(signature.get("clause", "")).startswith("env_"):
            ex = self._rep.extra.setdefault("stimuli_outside_env", {"count": 0, "examples": []})
            ex["count"] += 1
            if len(ex["examples"]) < 3:
                ex["examples"].append(what[:400])
            note = "stimulus outside the assumed environment dropped (clause %s); not a verdict" % signature.get("clause")
            if note not in self._rep.notes:
                self._rep.notes.append(note)
            return "outside_env"
        return self._rep.violation(signature, what, replay)


def _validate(rep, module, cfg, items, **kw):
    return validate_group(_EnvGuard(rep), SPEC_DIR, module, cfg, items, **kw)


def _cfg(name):
    with open(os.path.join(tlc.SPECS, SPEC_DIR, name)) as f:
        return f.read()


def syms(data, ctrl):
    """32-bit data + 4-bit ctrl -> list of four 9-bit symbols (bit 8 = K flag), symbol 0 first."""
    return [((data >> (8 * k)) & 0xFF) | (((ctrl >> k) & 1) << 8) for k in range(4)]


def pack(word):
    data = 0
    ctrl = 0
    for k, s in enumerate(word):
        data |= (s & 0xFF) << (8 * k)
        ctrl |= ((s >> 8) & 1) << k
    return data, ctrl


class Bench:
    """One elaborated design, many runs.  `proc(ctx, stimulus)` is an async function returning the trace."""

    def __init__(self, dut, proc, clocks=None):
        from amaranth.sim import Simulator
        self.dut = dut
        self.sim = Simulator(dut)
        for dom, period in (clocks or {"ss": 8e-9}).items():
            self.sim.add_clock(period, domain=dom)
        self._proc = proc
        self._stim = None
        self._out = None
        self._first = True
        self.sim.add_testbench(self._bench)

    async def _bench(self, ctx):
        self._out = await self._proc(ctx, self._stim)

    def run(self, stimulus):
        self._stim = stimulus
        self._out = None
        if not self._first:
            self.sim.reset()
        self._first = False
        self.sim.run()
        return self._out


# =====================================================================================================
# C31 scrambling
# =====================================================================================================

def with_ss_reset(dut):
    """Harness glue: declare the `ss` clock domain around a DUT so that its reset (ResetSignal("ss")) can be pulsed."""
    from amaranth import Elaboratable, Module, ClockDomain

    class Top(Elaboratable):
        def __init__(self):
            self.cd = ClockDomain("ss")

        def elaborate(self, platform):
            m = Module()
            m.domains.ss = self.cd
            m.submodules.dut = dut
            return m
    top = Top()
    return top, top.cd.rst


def _scfg(kind, seed, sync=False, maxlat=0):
    return {"kind": kind, "seed": seed, "start": seed, "sync": sync, "maxlat": maxlat}


def lfsr_bench(initial_value):
    use_repo()
    from luna.gateware.usb.usb3.physical.scrambling import ScramblerLFSR
    dut = ScramblerLFSR(initial_value=initial_value)

    async def proc(ctx, stim):
        rec = []
        for adv, clr in stim:
            ctx.set(dut.advance, adv)
            ctx.set(dut.clear, clr)
            v = ctx.get(dut.value)
            rec.append({"adv": bool(adv), "clr": bool(clr), "val": [(v >> (8 * k)) & 0xFF for k in range(4)]})
            await ctx.tick("ss")
        return rec
    return Bench(dut, proc)


def scrambler_bench(cls_name, initial_value):
    """initial_value=None: the class is constructed without arguments (its documented default seed applies).
    A stimulus record may carry "rst": the `ss` domain reset is asserted in that cycle (recorded as a restart, like clr)."""
    use_repo()
    from luna.gateware.usb.usb3.physical import scrambling
    dut = getattr(scrambling, cls_name)() if initial_value is None else getattr(scrambling, cls_name)(initial_value=initial_value)
    top, rst = with_ss_reset(dut)

    async def proc(ctx, stim):
        rec = []
        for st in stim:
            d, c = pack(st["w"])
            ctx.set(dut.sink.valid, st["v"])
            ctx.set(dut.sink.data, d)
            ctx.set(dut.sink.ctrl, c)
            ctx.set(dut.source.ready, st["r"])
            ctx.set(dut.hold, st["h"])
            ctx.set(dut.enable, st["en"])
            ctx.set(dut.clear, st["clr"])
            ctx.set(rst, int(bool(st.get("rst"))))
            r = {k: (bool(st[k]) if k != "w" else list(st[k])) for k in ("v", "r", "h", "en", "clr", "w")}
            r["rst"] = bool(st.get("rst"))
            r["clr"] = r["clr"] or r["rst"]           # a domain reset restarts the sequence exactly like `clear`
            r["ov"] = bool(ctx.get(dut.source.valid))
            r["ow"] = syms(ctx.get(dut.source.data), ctx.get(dut.source.ctrl))
            r["ir"] = bool(ctx.get(dut.sink.ready))
            rec.append(r)
            await ctx.tick("ss")
        return rec
    return Bench(top, proc)


def pipe_bench(seed):
    """A real Scrambler feeding a real Descrambler through a small FIFO (held words are dropped, as the SKPs that
    replace them are removed by the receiver).  Only the FIFO glue is harness code."""
    use_repo()
    from amaranth import Elaboratable, Module, Cat, DomainRenamer
    from amaranth.lib.fifo import SyncFIFO
    from luna.gateware.usb.usb3.physical.scrambling import Scrambler, Descrambler

    class Pipe(Elaboratable):
        def __init__(self):
            self.scr = Scrambler(initial_value=seed)
            self.dsc = Descrambler(initial_value=seed)

        def elaborate(self, platform):
            m = Module()
            m.submodules.scr = scr = self.scr
            m.submodules.dsc = dsc = self.dsc
            m.submodules.fifo = fifo = DomainRenamer("ss")(SyncFIFO(width=36, depth=4))
            m.d.comb += [
                fifo.w_data.eq(Cat(scr.source.data, scr.source.ctrl)),
                fifo.w_en.eq(scr.source.valid & ~scr.hold),
                scr.source.ready.eq(fifo.w_rdy),
                dsc.sink.data.eq(fifo.r_data[0:32]),
                dsc.sink.ctrl.eq(fifo.r_data[32:36]),
                dsc.sink.valid.eq(fifo.r_rdy),
                fifo.r_en.eq(dsc.sink.ready),
            ]
            return m

    dut = Pipe()
    scr, dsc = dut.scr, dut.dsc

    async def proc(ctx, stim):
        rec = []
        for st in stim:
            d, c = pack(st["w"])
            ctx.set(scr.sink.valid, st["v"])
            ctx.set(scr.sink.data, d)
            ctx.set(scr.sink.ctrl, c)
            ctx.set(scr.hold, st["h"])
            ctx.set(scr.enable, st["en"])
            ctx.set(dsc.enable, st["en"])
            ctx.set(dsc.source.ready, st["r"])
            took = ctx.get(scr.sink.valid) and ctx.get(scr.sink.ready) and not st["h"]
            got = ctx.get(dsc.source.valid) and ctx.get(dsc.source.ready)
            dw = syms(ctx.get(dsc.sink.data), ctx.get(dsc.sink.ctrl))
            rec.append({"tx": [list(st["w"])] if took else [],
                        "rx": [syms(ctx.get(dsc.source.data), ctx.get(dsc.source.ctrl))] if got else [],
                        "h": bool(st["h"]), "v": bool(st["v"]), "r": bool(st["r"]),
                        # diagnosis only: a COM-first word offered to either module while it cannot be transferred
                        "com_stalled": bool((st["v"] and st["w"][0] == COM and not ctx.get(scr.sink.ready)) or
                                            (ctx.get(dsc.sink.valid) and dw[0] == COM and not ctx.get(dsc.sink.ready)))})
            await ctx.tick("ss")
        return rec
    return Bench(dut, proc)


def phy_loop_bench(sync_frequency=125e6):
    """The real USB3PhysicalLayer with its PHY transmit pins looped back to its receive pins (one cycle later):
    sink -> scrambler -> TX CTC -> [phy] -> RX CTC -> word aligner -> descrambler -> packet aligner -> source."""
    use_repo()
    from luna.gateware.usb.usb3.physical.layer import USB3PhysicalLayer
    from luna.gateware.interface.pipe import PIPEInterface
    phy = PIPEInterface(width=4)
    phy._MustUse__silence = True
    dut = USB3PhysicalLayer(phy=phy, sync_frequency=sync_frequency)

    async def proc(ctx, stim):
        rec = []
        ctx.set(dut.tx_electrical_idle, 0)
        pending = None          # link word taken in the previous cycle (is it replaced by SKPs on the wire?)
        for w, idle, en in stim:
            d, c = pack(w)
            ctx.set(dut.sink.valid, 1)
            ctx.set(dut.sink.data, d)
            ctx.set(dut.sink.ctrl, c)
            ctx.set(dut.can_send_skp, idle)
            ctx.set(dut.enable_scrambling, en)
            txd, txk = ctx.get(phy.tx_data), ctx.get(phy.tx_datak)
            ctx.set(phy.rx_data, txd)
            ctx.set(phy.rx_datak, txk)
            wire = syms(txd, txk)
            r = {"tx": [], "rx": [], "wire": wire}
            # the word taken last cycle went out un-replaced unless the wire now carries a SKP word in its place
            if pending is not None and not (pending[1] and wire == [SKP] * 4):
                r["tx"] = [pending[0]]
            pending = (list(w), bool(idle)) if ctx.get(dut.sink.ready) else None
            if ctx.get(dut.source.valid):
                r["rx"] = [syms(ctx.get(dut.source.data), ctx.get(dut.source.ctrl))]
            rec.append(r)
            await ctx.tick("ss")
        return rec
    return Bench(dut, proc, clocks={"ss": 8e-9, "sync": 8e-9})


def _rand_word(rng, kind=None):
    kind = kind or rng.choice(["idle", "data", "data", "mix", "com4", "comfirst", "comlater", "bcdata", "skp", "frame"])
    rb = lambda: rng.randrange(256)
    if kind == "idle":
        return [0, 0, 0, 0]
    if kind == "data":
        return [rb(), rb(), rb(), rb()]
    if kind == "mix":
        return [rb() | (rng.randrange(2) << 8) for _ in range(4)]
    if kind == "com4":
        return [COM] * 4
    if kind == "comfirst":
        return [COM, rb(), rb() | (rng.randrange(2) << 8), rb()]
    if kind == "comlater":
        w = [rb(), rb(), rb(), rb()]
        w[rng.randrange(1, 4)] = COM
        return w
    if kind == "bcdata":
        return [0xBC, rb(), rb(), 0xBC]
    if kind == "skp":
        return [SKP, SKP, rb(), SKP] if rng.random() < 0.5 else [SKP] * 4
    return rng.choice([[SLC, SLC, SLC, EPF], [SHP, SHP, SHP, EPF], [END, END, END, EPF], [SDP, SDP, SDP, EPF]])


def scr_stimulus(rng, n, witness=False, en_prob=0.85):
    """Random per-cycle inputs for a stand-alone scrambler.  Clean stimuli never stall a word whose first symbol is
    COM (KF_C31_com_stall: the gateware restarts its LFSR while such a word is merely *offered*); witness stimuli do."""
    stim = []
    en = rng.random() < en_prob
    p_valid, p_ready, p_hold = rng.choice([(1.0, 1.0, 0.0), (0.9, 0.8, 0.15), (0.6, 0.5, 0.3), (1.0, 0.7, 0.0), (0.8, 1.0, 0.3)])
    word = _rand_word(rng)
    for _ in range(n):
        if rng.random() < 0.02:
            en = not en
        v = rng.random() < p_valid
        r = rng.random() < p_ready
        h = rng.random() < p_hold
        clr = rng.random() < 0.01
        if word[0] == COM:
            h = False                      # HoldLegal
            if witness:
                r = rng.random() < 0.4
            else:
                r = True
        stim.append({"v": v, "r": r, "h": h, "en": en, "clr": clr, "w": list(word)})
        if (v and r) or not v or rng.random() < 0.1:   # a producer may also withdraw/replace an un-accepted word
            word = _rand_word(rng)
    return stim


def pipe_stimulus(rng, n, witness=False):
    """Word stream + scrambler-side hold / descrambler-side stall pattern for the pipe.  `en` is constant (a word must
    be descrambled under the enable it was scrambled with).  Clean: the pipe is drained and un-stalled around every
    COM-first word, so neither end ever sees such a word stalled; witness: no such care."""
    base = scr_stimulus(rng, n, witness=witness)
    en = rng.random() < 0.9
    out = []
    for st in base:
        st = dict(st, clr=False, en=en)
        if st["w"][0] == COM and st["v"] and not witness:
            out += [{"v": False, "r": True, "h": False, "en": en, "clr": False, "w": [0, 0, 0, 0]}] * 6
            st["r"] = True
            out.append(st)
            out += [{"v": False, "r": True, "h": False, "en": en, "clr": False, "w": [0, 0, 0, 0]}] * 4
        else:
            out.append(st)
    out += [{"v": False, "r": True, "h": False, "en": en, "clr": False, "w": [0, 0, 0, 0]}] * 8
    return out


def classify_scr(trace, matched, status, meta):
    if trace["cfg"]["kind"] == "pipe":
        # round trip broken: was a COM-first word offered to either end while it could not be transferred?
        pattern = "other"
        if status == "round_trip_mismatch" and any(r.get("com_stalled", False) for r in trace["steps"][max(0, matched - 14):matched]):
            pattern = "com_first_word_offered_while_stalled"
        return {"clause": status, "pattern": pattern}

    # KF_C31_com_stall: before the failing cycle a COM-first word was offered while it could not be transferred
    # (ready low), and no resynchronising event (a transferred COM-first word, or clr) lies in between.
    steps = trace["steps"]
    pattern = "other"
    if status == "data_symbol_keystream":
        for j in range(matched - 1, 0, -1):
            p = steps[j - 1]
            if p["v"] and p["w"][0] == COM and not p["r"]:
                pattern = "com_first_word_offered_while_stalled"
                break
            if p["clr"] or (p["v"] and p["r"] and p["w"][0] == COM):
                break
    return {"clause": status, "pattern": pattern}


def check_C31(rep):
    quick = rep.tier == "quick"
    rng = rep.rng
    rep.rule = ("real-module cycles validated against Scrambler.tla/SsLfsr.tla; non-trivial = a transferred word with at "
                "least one data symbol scrambled, a COM restart, a held or stalled word, or an LFSR state visited; "
                "distinct by (kind, word class, valid, ready, hold, enable)")
    rep.assume("a word held for SKP insertion never has COM in its first symbol (it is logical-idle filler)")
    rep.assume("scrambler and descrambler are compared from equal LFSR states and with the same enable")

    # 0. the LFSR definitions themselves: published vectors, serial bit-sequence shift = integer shift
    _mc(rep, "MCLfsr (definitional checks, %s states)" % ("all 65536" if not quick else "basis+512"), "MCLfsr",
        tlc.render_cfg(_cfg("MCLfsr.cfg.tmpl"), {"Full": not quick}), {"Full": not quick})
    # 1. exhaustive exploration of the protocol model (real LFSR, tabulated over the reachable states)
    for words, starts, mw in ([("WordsQuick", {65535, 4660}, 3)] if quick else
                              [("WordsQuick", {65535, 4660, 1}, 4), ("WordsMore", {65535, 4660}, 3)]):
        cfg = tlc.render_cfg(_cfg("MCScrambler.cfg.tmpl"), {"Words": words, "Starts": starts, "MaxWords": mw})
        _mc(rep, "MCScrambler %s Starts=%s MaxWords=%d" % (words, sorted(starts), mw), "MCScrambler", cfg,
            {"Words": words, "Starts": sorted(starts), "MaxWords": mw, "Seed": 65535})

    items = []

    # 2. the LFSR itself: free run from FFFFh, every basis state and zero, random advance/clear
    n_free = 3000 if quick else 65535 + 5
    b = lfsr_bench(LFSR_SEED)
    tr = b.run([(1, 0)] * n_free)
    rep.add_eval(len(tr))
    items.append(({"cfg": _scfg("lfsr", LFSR_SEED), "steps": tr},
                  {"dut": "ScramblerLFSR", "origin": "free-run", "n": n_free}))
    rep.nontriv(("lfsr", "free-run", n_free))
    stim = [(int(rng.random() < 0.7), int(rng.random() < 0.05)) for _ in range(400 if quick else 4000)]
    tr = b.run(stim)
    rep.add_eval(len(tr))
    items.append(({"cfg": _scfg("lfsr", LFSR_SEED), "steps": tr},
                  {"dut": "ScramblerLFSR", "origin": "random advance/clear"}))
    basis = [0] + [1 << k for k in range(16)] + [rng.randrange(1, 65535) for _ in range(4 if quick else 40)]
    for v in basis:
        bb = lfsr_bench(v)
        tr = bb.run([(1, 0), (1, 0), (0, 0), (1, 0), (1, 1), (1, 0)])
        rep.add_eval(len(tr))
        rep.nontriv(("lfsr", "state", v))
        items.append(({"cfg": _scfg("lfsr", v), "steps": tr},
                      {"dut": "ScramblerLFSR(initial_value=%#x)" % v, "origin": "basis/one-step"}))

    # 3. Scrambler / Descrambler stand-alone: TLC-generated behaviours (spec -> code) ...
    benches = {}

    def bench_for(cls, seed):
        if (cls, seed) not in benches:
            benches[(cls, seed)] = scrambler_bench(cls, seed)
        return benches[(cls, seed)]

    cfg = tlc.render_cfg(_cfg("MCScrambler_sim.cfg.tmpl"), {"Words": "WordsMore", "Starts": {65535}, "MaxWords": 10})
    behs = tlc.simulate(SPEC_DIR, "MCScrambler", cfg, num=40 if quick else 300, depth=30, seed=rep.seed * 13 + 1, timeout=1800)
    for bh in behs:
        stim = []
        for act, st in bh[1:]:
            if act != "TxCycle":
                continue
            i = st["in"]
            stim.append({"v": i["valid"], "r": i["ready"], "h": i["hold"], "en": i["en"], "clr": False, "w": list(i["w"])})
        if not stim:
            continue
        # clean class only: a COM-first word is never stalled
        for s_ in stim:
            if s_["w"][0] == COM:
                s_["r"] = True
        for cls in ("Scrambler", "Descrambler"):
            tr = bench_for(cls, LFSR_SEED).run(stim)
            rep.add_eval(len(tr))
            items.append(({"cfg": _scfg("scr", LFSR_SEED), "steps": tr},
                          {"dut": cls, "origin": "tlc-simulate"}))

    # ... and random streams beyond the model's alphabet (code -> spec), several seeds
    seeds = [LFSR_SEED, 0x7DBD, 0x0001] if quick else [LFSR_SEED, 0x7DBD, 0x0001, 0x8000, 0x1234, 0]
    for seed in seeds:
        for cls in ("Scrambler", "Descrambler"):
            for _ in range(3 if quick else 25):
                stim = scr_stimulus(rng, 120 if quick else 400)
                tr = bench_for(cls, seed).run(stim)
                rep.add_eval(len(tr))
                items.append(({"cfg": _scfg("scr", seed), "steps": tr},
                              {"dut": "%s(initial_value=%#x)" % (cls, seed), "origin": "random"}))
    # systematic sweep: a stall (1-2 cycles), a hold or an invalid cycle at every offset around a COMx4 / COM-first /
    # plain word, scrambling on (clean class: the COM-first word itself is never stalled)
    for mid in ([COM] * 4, [COM, 0x11, 0x122, 0x33], [0xBC, 0x44, 0x55, 0x66]):
        for what in ("stall1", "stall2", "hold", "invalid"):
            for pos in range(5):
                words = [[0xA0 + k, 0x5A, 0x1FE if k == 1 else 0xC3, k] for k in range(2)] + [mid] + \
                        [[0x0F, 0xF0 + k, 0x3C, 0x99] for k in range(2)] + [[0, 0, 0, 0]]
                stim = []
                for k, w in enumerate(words):
                    base = {"v": True, "r": True, "h": False, "en": True, "clr": False, "w": list(w)}
                    if k == pos:
                        if what.startswith("stall") and w[0] != COM:
                            stim += [dict(base, r=False)] * int(what[-1])
                        elif what == "hold" and w[0] != COM:
                            base = dict(base, h=True)
                        elif what == "invalid":
                            stim.append(dict(base, v=False, w=[0x1BC, 1, 2, 3]))
                    stim.append(base)
                for cls in ("Scrambler", "Descrambler"):
                    tr = bench_for(cls, LFSR_SEED).run(stim)
                    rep.add_eval(len(tr))
                    items.append(({"cfg": _scfg("scr", LFSR_SEED), "steps": tr}, {"dut": cls, "origin": "sweep %s@%d" % (what, pos)}))
    # configuration class: constructed without arguments (documented defaults: Scrambler 7DBDh, Descrambler FFFFh)
    for cls, dflt in (("Scrambler", 0x7DBD), ("Descrambler", 0xFFFF)):
        for _ in range(2 if quick else 10):
            tr = bench_for(cls, None).run(scr_stimulus(rng, 100 if quick else 300))
            rep.add_eval(len(tr))
            rep.nontriv(("cfg", cls, "default-constructed"))
            items.append(({"cfg": _scfg("scr", dflt), "steps": tr}, {"dut": "%s() [default seed %#x]" % (cls, dflt), "origin": "random"}))
    # clear / enable / domain reset at unusual moments: alone, together with a stall, a hold, a COM-first word, an invalid
    # cycle, in two consecutive cycles; enable dropped or raised for exactly one word right after a transfer
    for what in ("clr", "clr+stall", "clr+hold", "clr+invalid", "clr*2", "rst", "rst+stall", "rst+hold", "en_off1", "en_on1"):
        for pos in range(4):
            words = [[0x31, 0x32, 0x133, 0x34], [COM, 0x41, 0x42, 0x43] if pos % 2 else [0x51, 0x52, 0x53, 0x54],
                     [0x61, 0x162, 0x63, 0x64], [0x71, 0x72, 0x73, 0x74], [0, 0, 0, 0]]
            stim = []
            for k, w in enumerate(words):
                base = {"v": True, "r": True, "h": False, "en": what != "en_on1", "clr": False, "w": list(w)}
                if k == pos:
                    key = "rst" if what.startswith("rst") else "clr"
                    if what.startswith(("clr", "rst")):
                        base[key] = True
                    if what.endswith("+stall") and w[0] != COM:
                        base["r"] = False
                        stim.append(dict(base))
                        base = dict(base, r=True)
                        base[key] = False
                    elif what.endswith("+hold") and w[0] != COM:
                        base["h"] = True
                    elif what.endswith("+invalid"):
                        stim.append(dict(base, v=False))
                        base["clr"] = False
                    elif what == "clr*2":
                        stim.append(dict(base, r=(w[0] == COM)))
                    elif what == "en_off1":
                        base["en"] = False
                    elif what == "en_on1":
                        base["en"] = True
                stim.append(base)
            for cls in ("Scrambler", "Descrambler"):
                tr = bench_for(cls, LFSR_SEED).run(stim)
                rep.add_eval(len(tr))
                rep.nontriv(("ctl", cls, what, pos))
                items.append(({"cfg": _scfg("scr", LFSR_SEED), "steps": tr}, {"dut": cls, "origin": "control sweep %s@%d" % (what, pos)}))
    # witness class for KF_C31_com_stall
    for _ in range(2 if quick else 10):
        stim = scr_stimulus(rng, 150, witness=True, en_prob=1.0)
        tr = bench_for("Scrambler", LFSR_SEED).run(stim)
        rep.add_eval(len(tr))
        items.append(({"cfg": _scfg("scr", LFSR_SEED), "steps": tr},
                      {"dut": "Scrambler", "origin": "witness:com-first word stalled"}))

    # 4. round trip through a real Scrambler -> real Descrambler
    pb = pipe_bench(LFSR_SEED)
    for n_pipe in range(5 if quick else 40):
        witness = n_pipe == 0
        stim = pipe_stimulus(rng, 150 if quick else 400, witness)
        tr = pb.run(stim)
        rep.add_eval(len(tr))
        items.append(({"cfg": _scfg("pipe", LFSR_SEED, maxlat=6),
                       "steps": tr},
                      {"dut": "Scrambler->FIFO->Descrambler",
                       "origin": "witness:com-first word stalled" if witness else "random"}))

    # 5. as wired: the whole physical layer, TX looped back to RX, scrambling on, SKPs inserted and removed on the way
    lb = phy_loop_bench(sync_frequency=[125e6, 60e6, 200e6][rep.seed % 3])     # only feeds the PHY reset controller
    for _ in range(2 if quick else 12):
        # cycle 0: sink.ready is still low (nothing taken); then a COMx4 word aligns the receiver and restarts both LFSRs
        sched = [([0, 0, 0, 0], 0), ([COM] * 4, 0), ([0x4A, 0x4A, 0x4A, 0x4A], 0)] + [([0, 0, 0, 0], 1)] * 3
        for w, idle in link_schedule(rng, 500 if quick else 1500, SKIP_LIMIT, style=rng.choice(["short", "mixed", "idleheavy"])):
            if w[0] == SKP:
                w = [0x3C, 0x3C, 0x3C, 0x3C]       # a SKP from the link layer would be removed by the receiver
            if w == [SHP, SHP, SHP, EPF] or w == [SLC, SLC, SLC, EPF] or w[0] != COM:
                sched.append((w, idle))
            else:
                sched.append(([COM] * 4, 0))          # training-set style COM words only (keeps the word aligner unambiguous)
        sched += [([0, 0, 0, 0], 0)] * 12
        # no COM run longer than four: separate consecutive COM words
        fixed = []
        for w, idle in sched:
            if fixed and w == [COM] * 4 and fixed[-1][0] == [COM] * 4:
                fixed.append(([0x11, 0x22, 0x33, 0x44], 0))
            fixed.append((w, idle))
        tr = lb.run([(w, idle, 1) for w, idle in fixed])
        rep.add_eval(len(tr))
        items.append(({"cfg": _scfg("pipe", LFSR_SEED, sync=True, maxlat=12), "steps": tr},
                      {"dut": "USB3PhysicalLayer sink -> phy tx=rx -> source", "origin": "random link schedule, scrambling on"}))

    for tr, meta in items:
        if tr["cfg"]["kind"] == "scr":
            for r in tr["steps"]:
                if r["v"]:
                    w = r["w"]
                    cls = ("com1" if w[0] == COM else "com" if COM in w else "ctrl" if any(x >= 256 for x in w) else "data")
                    rep.nontriv(("scr", cls, r["r"], r["h"], r["en"], sum(1 for x in w if x < 256)))
    rep.sample({"dut": items[0][1], "first_steps": items[0][0]["steps"][:4]})
    rep.sample({"dut": items[-1][1], "first_steps": items[-1][0]["steps"][:6]})

    _validate(rep, "ScramblerTrace", _cfg("ScramblerTrace.cfg.tmpl"), items,
                   classify=classify_scr, steps_of=lambda t: len(t["steps"]), timeout=3000)


# =====================================================================================================
# C32 receive CTC
# =====================================================================================================

CTC_CAP = 11


def ctcrx_bench():
    use_repo()
    from luna.gateware.usb.usb3.physical.ctc import CTCSkipRemover
    dut = CTCSkipRemover()
    top, rst = with_ss_reset(dut)

    async def proc(ctx, stim):
        rec = []
        ctx.set(dut.source.ready, 1)
        for v, w in stim:
            is_rst = v == "rst"           # ("rst", word): domain reset pulsed, no input word offered
            v = 0 if is_rst else v
            ctx.set(rst, int(is_rst))
            d, c = pack(w)
            ctx.set(dut.sink.valid, v)
            ctx.set(dut.sink.data, d)
            ctx.set(dut.sink.ctrl, c)
            rec.append({"v": bool(v), "w": list(w), "ov": bool(ctx.get(dut.source.valid)),
                        "ow": syms(ctx.get(dut.source.data), ctx.get(dut.source.ctrl)),
                        "removed": bool(ctx.get(dut.skip_removed)), "fill": int(ctx.get(dut.bytes_in_buffer)),
                        "rst": is_rst})
            await ctx.tick("ss")
        return rec
    return Bench(top, proc)


# symbols that must NOT be removed: data byte 3Ch (same code as SKP, K flag clear), other K symbols, plain data
_NON_SKP = [0x03C, 0x1BC, 0x15C, 0x1FB, 0x1F7, 0x1FD, 0x13D, 0x11C, 0x000, 0x0FF, 0x03D, 0x13C ^ 0x100]


def _fill_symbol(rng, counter):
    if rng.random() < 0.3:
        return rng.choice(_NON_SKP)
    return (counter * 37 + 11) & 0xFF | ((rng.random() < 0.15) << 8) if ((counter * 37 + 11) & 0xFF) != 0x3C else 0x03C


def ctcrx_word(rng, mask, counter):
    w = []
    for k in range(4):
        if mask >> k & 1:
            w.append(SKP)
        else:
            sym = _fill_symbol(rng, counter[0])
            counter[0] += 1
            if sym == SKP:
                sym = 0x03C
            w.append(sym)
    return w


FLUSH = [(1, [0x101 + k, 0x02 + k, 0x03 + k, 0x104 + k]) for k in range(0, 16, 4)]


def ctcrx_random(rng, n):
    counter = [rng.randrange(256)]
    stim = []
    mood, left = None, 0
    for _ in range(n):
        if left == 0:
            mood = rng.choice(["none", "sparse", "dense", "allskp", "pairs", "gaps"])
            left = rng.randint(2, 10)
        left -= 1
        v = 1
        if mood == "none":
            mask = 0
        elif mood == "sparse":
            mask = rng.choice([0, 0, 0, 1, 2, 4, 8, 3, 12])
        elif mood == "dense":
            mask = rng.randrange(16)
        elif mood == "allskp":
            mask = rng.choice([15, 15, 15, rng.randrange(16)])
        elif mood == "pairs":
            mask = rng.choice([3, 12, 6, 15, 0])
        else:
            mask = rng.randrange(16)
            v = int(rng.random() < 0.6)
        stim.append((v, ctcrx_word(rng, mask, counter)))
    return stim + FLUSH


def ctcrx_structured(rng, first_masks):
    """Every ordered pair (and, for the given first masks, triple) of SKP masks in adjacent words, at every buffer phase."""
    counter = [1]
    stim = []
    for a in first_masks:
        for b in range(16):
            for c in (0, 15, rng.randrange(16)):
                for phase in range(4):
                    # phase: leave `phase` symbols in the buffer first
                    pre = (1 << (4 - phase)) - 1 if phase else 0
                    stim.append((1, ctcrx_word(rng, pre & 0xF if phase else 0, counter)))
                    for m in (a, b, c):
                        stim.append((1, ctcrx_word(rng, m, counter)))
                    stim.append((1, ctcrx_word(rng, 0, counter)))
    return stim + FLUSH


def classify_ctcrx(trace, matched, status, meta):
    k = matched
    recent = trace[max(0, k - 4):k]
    masks = [sum(1 << j for j in range(4) if r["w"][j] == SKP) for r in recent if r["v"]]
    pattern = "other"
    if any(m == 15 for m in masks[-3:]) and sum(1 for m in masks[-3:] if m) >= 2:
        pattern = "adjacent_skp_words"
    elif any(masks[-3:]):
        pattern = "after_skp_mask_%s" % "_".join("%x" % m for m in masks[-3:])
    return {"clause": status, "pattern": pattern}


def check_C32(rep):
    quick = rep.tier == "quick"
    rng = rep.rng
    rep.rule = ("CTCSkipRemover cycles validated against CtcRx.tla; non-trivial = a valid input word containing at least "
                "one SKP; distinct by (SKP mask, previous mask, symbols buffered before the word)")
    rep.assume("source.ready is always asserted (as wired in USB3PhysicalLayer)")
    rep.assume("delivery latency is free; at most %d non-SKP symbols may be outstanding" % CTC_CAP)

    for mw in ([3] if quick else [3, 4]):
        cfg = tlc.render_cfg(_cfg("MCCtcRx.cfg.tmpl"), {"Cap": CTC_CAP, "MaxWords": mw})
        _mc(rep, "MCCtcRx MaxWords=%d Cap=%d (all 16 SKP masks per word)" % (mw, CTC_CAP), "MCCtcRx", cfg,
            {"MaxWords": mw, "Cap": CTC_CAP, "masks": 16})

    bench = ctcrx_bench()
    items = []
    # spec -> code: TLC-generated mask sequences
    cfg = tlc.render_cfg(_cfg("MCCtcRx_sim.cfg.tmpl"), {"Cap": CTC_CAP, "MaxWords": 1000})
    behs = tlc.simulate(SPEC_DIR, "MCCtcRx", cfg, num=30 if quick else 300, depth=40, seed=rep.seed * 5 + 2, timeout=1800)
    for bh in behs:
        counter = [rng.randrange(256)]
        stim = []
        for _, st in bh[1:]:
            i = st["in"]
            mask = sum(1 << k for k in range(4) if i["w"][k] == SKP)
            stim.append((int(i["valid"]), ctcrx_word(rng, mask, counter)))
        items.append((bench.run(stim + FLUSH), {"dut": "CTCSkipRemover", "origin": "tlc-simulate"}))
    # code -> spec: structured adjacency sweep and random schedules
    firsts = list(range(16))
    if quick:
        firsts = [15, 3, 1, 8] + rng.sample([m for m in range(16) if m not in (15, 3, 1, 8)], 2)
    for a in firsts:
        items.append((bench.run(ctcrx_structured(rng, [a])), {"dut": "CTCSkipRemover", "origin": "structured first-mask=%x" % a}))
    for _ in range(10 if quick else 150):
        items.append((bench.run(ctcrx_random(rng, 200 if quick else 500)), {"dut": "CTCSkipRemover", "origin": "random"}))
    # `ss` domain reset with 0..7 symbols buffered: nothing buffered before may be delivered afterwards
    for fill_mask in (0, 8, 12, 14, 1, 3, 7, 15):
        for pre in (1, 2):
            counter = [rng.randrange(256)]
            stim = [(1, ctcrx_word(rng, 0, counter)) for _ in range(pre)] + [(1, ctcrx_word(rng, fill_mask, counter))]
            stim += [("rst", [0, 0, 0, 0])] + [(1, ctcrx_word(rng, m, counter)) for m in (0, fill_mask, 0, 0)]
            items.append((bench.run(stim + FLUSH), {"dut": "CTCSkipRemover", "origin": "ss reset after mask %x" % fill_mask}))

    for tr, meta in items:
        rep.add_eval(len(tr))
        prev = 0
        for r in tr:
            if r["v"]:
                m = sum(1 << j for j in range(4) if r["w"][j] == SKP)
                if m:
                    rep.nontriv((m, prev, r["fill"]))
                prev = m
    rep.sample({"dut": items[0][1], "first_cycles": items[0][0][:6]})
    rep.sample({"dut": items[-1][1], "first_cycles": items[-1][0][:6]})
    cfg = tlc.render_cfg(_cfg("CtcRxTrace.cfg.tmpl"), {"Cap": CTC_CAP})
    _validate(rep, "CtcRxTrace", cfg, items, classify=classify_ctcrx, timeout=3000)


# =====================================================================================================
# C33 transmit CTC
# =====================================================================================================

SKIP_LIMIT = 354
MAX_BURST_WORDS = 354          # Env assumption: a non-idle burst is at most 1416 symbols (4 owed sets + carry)
MAX_OWED = 5                   # ... and at most this many SKP ordered sets are ever owed (CtcTx.tla!MaxOwed)


def ctctx_bench(limit):
    use_repo()
    from luna.gateware.usb.usb3.physical.ctc import CTCSkipInserter
    cls = CTCSkipInserter if limit == CTCSkipInserter.SKIP_BYTE_LIMIT else \
        type("CTCSkipInserterScaled", (CTCSkipInserter,), {"SKIP_BYTE_LIMIT": limit})
    dut = cls()

    async def proc(ctx, stim):
        rec = []
        ctx.set(dut.source.ready, 1)
        ctx.set(dut.sink.valid, 0)
        await ctx.tick("ss").repeat(2)          # sink.ready follows source.ready one cycle late
        for w, idle in stim:
            d, c = pack(w)
            ctx.set(dut.sink.valid, 1)
            ctx.set(dut.sink.data, d)
            ctx.set(dut.sink.ctrl, c)
            ctx.set(dut.can_send_skip, idle)
            rec.append({"w": list(w), "idle": bool(idle), "rdy": bool(ctx.get(dut.sink.ready)),
                        "hold": bool(ctx.get(dut.sending_skip)), "ov": bool(ctx.get(dut.source.valid)),
                        "ow": syms(ctx.get(dut.source.data), ctx.get(dut.source.ctrl)), "en": False})
            await ctx.tick("ss")
        return rec
    return Bench(dut, proc)


def phy_tx_bench(sync_frequency=125e6):
    """The real USB3PhysicalLayer; only its transmit path is driven/observed here."""
    use_repo()
    from luna.gateware.usb.usb3.physical.layer import USB3PhysicalLayer
    from luna.gateware.interface.pipe import PIPEInterface
    phy = PIPEInterface(width=4)
    phy._MustUse__silence = True               # used as a bag of signals only
    dut = USB3PhysicalLayer(phy=phy, sync_frequency=sync_frequency)

    async def proc(ctx, stim):
        rec = []
        ctx.set(dut.tx_electrical_idle, 0)
        first = True
        for w, idle, en in stim:
            d, c = pack(w)
            ctx.set(dut.sink.valid, 1)
            ctx.set(dut.sink.data, d)
            ctx.set(dut.sink.ctrl, c)
            ctx.set(dut.can_send_skp, idle)
            ctx.set(dut.enable_scrambling, en)
            r = {"w": list(w), "idle": bool(idle), "rdy": bool(ctx.get(dut.sink.ready)), "en": bool(en),
                 "ow": syms(ctx.get(phy.tx_data), ctx.get(phy.tx_datak)), "hold": False, "ov": True}
            if not (first and not r["rdy"]):     # the very first cycle after reset: ready not yet up, nothing taken
                rec.append(r)
            first = False
            await ctx.tick("ss")
        return rec
    return Bench(dut, proc, clocks={"ss": 8e-9, "sync": 8e-9})


def _link_word(rng, kind):
    rb = lambda: rng.randrange(256)
    if kind == "zero":
        return [0, 0, 0, 0]
    if kind == "hdr":
        return rng.choice([[SHP, SHP, SHP, EPF], [SLC, SLC, SLC, EPF], [SDP, SDP, SDP, EPF], [END, END, END, EPF]])
    if kind == "com":
        return rng.choice([[COM] * 4, [COM, rb(), rb(), rb()]])
    if kind == "skplike":
        return [SKP, SKP, SKP, SKP]            # the link layer itself never sends this; must pass through untouched
    return [rb(), rb(), rb(), rb()]


def link_schedule(rng, n, limit, style=None):
    """[(word, idle)] : bursts of non-idle words (<= the assumed maximum) separated by idle filler of any length.
    Env assumption: idle is offered often enough that the SKP debt stays within MAX_OWED ordered sets.  The generator
    keeps the same books as the environment would (symbols sent, sets owed, a SKP word taken at an idle word when two
    are owed) and ends a burst early rather than let the debt pass the bound."""
    per_credit = max(1, limit // 4)
    style = style or rng.choice(["short", "long", "tight", "mixed", "idleheavy"])
    out = []
    elapsed, owed = 0, 0

    def account(idle):
        nonlocal elapsed, owed
        ins = idle and owed >= 2
        crossed = elapsed + 4 >= limit
        elapsed = elapsed + 4 - limit if crossed else elapsed + 4
        owed += (1 if crossed else 0) - (2 if ins else 0)

    def debt_after_data_word():
        return owed + (1 if elapsed + 4 >= limit else 0)

    while len(out) < n:
        if style == "short":
            burst, extra = rng.randint(1, 2 * per_credit), rng.randint(0, 5)
        elif style == "long":
            burst, extra = rng.randint(2 * per_credit, 4 * per_credit), rng.randint(0, 3)
        elif style == "tight":
            burst, extra = rng.randint(max(1, per_credit - 2), max(1, 2 * per_credit - 3)), 0
        elif style == "idleheavy":
            burst, extra = rng.randint(0, 5), rng.randint(per_credit, 3 * per_credit)
        else:
            burst, extra = rng.randint(0, 4 * per_credit), rng.randint(0, 2 * per_credit)
        burst = min(burst, MAX_BURST_WORDS, 4 * per_credit)
        gap = 1 + extra if style == "tight" else (burst // (2 * per_credit)) + 1 + extra
        for _ in range(burst):
            if debt_after_data_word() > MAX_OWED:
                break
            kind = rng.choice(["data"] * 6 + ["zero", "zero", "hdr", "com"] + (["skplike"] if rng.random() < 0.05 else []))
            out.append((_link_word(rng, kind), 0))
            account(False)
        while gap > 0 or owed > MAX_OWED - 2:
            out.append(([0, 0, 0, 0], 1))
            account(True)
            gap -= 1
    return out[:n]


def link_sweep(limit, around_credit=2):
    """Systematic alignment sweep: an idle opportunity (1, 2 or 3 idle words) at every word offset -3..+3 around the
    cycle in which the `around_credit`-th ordered set becomes owed, then again around the following one."""
    per2 = (around_credit * limit + 3) // 4          # words until the credit is reached
    scheds = []
    for d in range(-3, 4):
        for gap in (1, 2, 3):
            k = max(1, per2 + d)
            sched = [([0x10 + (j & 0x7F), 0x21, 0x132 if j % 7 == 0 else 0x32, j & 0xFF], 0) for j in range(k)]
            sched += [([0, 0, 0, 0], 1)] * gap
            sched += [([0x77, j & 0xFF, 0, 0x55], 0) for j in range(max(1, (limit + 3) // 4 + d))]
            sched += [([0, 0, 0, 0], 1)] * gap + [([1, 2, 3, 4], 0)] * 3
            scheds.append((sched, "sweep d=%d gap=%d" % (d, gap)))
    return scheds


def classify_ctctx(trace, matched, status, meta):
    return {"clause": status, "pattern": "other"}


def check_C33(rep):
    quick = rep.tier == "quick"
    rng = rep.rng
    rep.rule = ("transmit-path cycles validated against CtcTx.tla; non-trivial = a cycle in which a SKP word is inserted, or "
                "an idle word passes with sets owed < 2, or a non-idle word passes while sets are owed; distinct by "
                "(dut, limit, kind of cycle, scrambling, run length bucket)")
    rep.assume("can_send_skip is asserted only together with the logical-idle word (link/layer.py drives both from arbiter.idle)")
    rep.assume("the transmit path is never stalled (PHY takes a word every cycle); recording starts once sink.ready is up")
    rep.assume("non-idle bursts are at most %d symbols and idle is offered often enough that at most 5 ordered sets "
               "(4 from a maximum burst + carry) are ever owed" % (4 * MAX_BURST_WORDS))

    for lim, ml, mb in ([(10, 10, 6)] if quick else [(10, 11, 6), (14, 11, 8), (8, 10, 10)]):
        cfg = tlc.render_cfg(_cfg("MCCtcTx.cfg.tmpl"), {"Limit": lim, "MaxLen": ml, "MaxBurst": mb})
        _mc(rep, "MCCtcTx Limit=%d MaxLen=%d MaxBurst=%d" % (lim, ml, mb), "MCCtcTx", cfg, {"Limit": lim, "MaxLen": ml, "MaxBurst": mb})

    by_limit = {}

    def add(limit, kind, tr, meta):
        rep.add_eval(len(tr))
        by_limit.setdefault(limit, []).append(({"cfg": {"kind": kind, "limit": limit}, "steps": tr}, meta))

    # spec -> code: behaviours of the scaled model replayed into the real inserter built with the same scaled limit
    lim = 10
    cfg = tlc.render_cfg(_cfg("MCCtcTx_sim.cfg.tmpl"), {"Limit": lim, "MaxLen": 1000, "MaxBurst": 6})
    behs = tlc.simulate(SPEC_DIR, "MCCtcTx", cfg, num=25 if quick else 200, depth=60, seed=rep.seed * 3 + 5, timeout=1800)
    b10 = ctctx_bench(lim)
    for bh in behs:
        stim = [([x & 0xFF for x in st["in"]["w"]], int(st["in"]["idle"])) for _, st in bh[1:]]
        add(lim, "ctc", b10.run(stim), {"dut": "CTCSkipInserter(SKIP_BYTE_LIMIT=10)", "origin": "tlc-simulate"})
    # code -> spec: random link schedules, scaled limits and the real 354
    for limit, count, n in ([(12, 4, 300), (354, 5, 1200)] if quick else [(12, 30, 400), (22, 30, 600), (354, 40, 3000)]):
        bench = ctctx_bench(limit)
        for _ in range(count):
            add(limit, "ctc", bench.run(link_schedule(rng, n, limit)),
                {"dut": "CTCSkipInserter(SKIP_BYTE_LIMIT=%d)" % limit, "origin": "random"})
    # class-constant value classes: multiple of 4 (12, 16, 64), = 2 mod 4 (10, 354), odd / 2^k+-1 (9, 15, 17, 33), tiny (5)
    limit_classes = [9, 15, 16, 17, 33, 64, 5]
    extra_limits = [limit_classes[rep.seed % len(limit_classes)], limit_classes[(rep.seed + 3) % len(limit_classes)]] if quick \
        else limit_classes
    for limit in extra_limits:
        bench = ctctx_bench(limit)
        rep.nontriv(("cfg", "SKIP_BYTE_LIMIT", limit))
        for _ in range(2 if quick else 8):
            add(limit, "ctc", bench.run(link_schedule(rng, 200 if quick else 500, limit)),
                {"dut": "CTCSkipInserter(SKIP_BYTE_LIMIT=%d)" % limit, "origin": "random"})
        for sched, origin in (link_sweep(limit)[::3 if quick else 1] if limit >= 9 else []):
            add(limit, "ctc", bench.run(sched), {"dut": "CTCSkipInserter(SKIP_BYTE_LIMIT=%d)" % limit, "origin": origin})
    for limit in (12, SKIP_LIMIT):
        bench = ctctx_bench(limit)
        for sched, origin in link_sweep(limit) + (link_sweep(limit, 4) if limit != SKIP_LIMIT or not quick else []):
            add(limit, "ctc", bench.run(sched), {"dut": "CTCSkipInserter(SKIP_BYTE_LIMIT=%d)" % limit, "origin": origin})
    # in situ: the physical layer's transmit path, observed at the PHY, scrambling mostly on
    pb = phy_tx_bench(sync_frequency=[60e6, 200e6, 125e6][rep.seed % 3])      # only feeds the PHY reset controller
    for sched, origin in link_sweep(SKIP_LIMIT)[::3 if quick else 1]:
        add(SKIP_LIMIT, "phy", pb.run([(w, idle, 1) for w, idle in sched]),
            {"dut": "USB3PhysicalLayer.sink -> phy.tx_data", "origin": origin, "scrambling": True})
    for k in range(3 if quick else 20):
        en = 0 if k == 1 else 1
        sched = link_schedule(rng, 800 if quick else 3000, SKIP_LIMIT, style=["tight", "mixed", "long"][k % 3])
        add(SKIP_LIMIT, "phy", pb.run([(w, idle, en) for w, idle in sched]),
            {"dut": "USB3PhysicalLayer.sink -> phy.tx_data", "origin": "random", "scrambling": bool(en)})

    for limit, items in sorted(by_limit.items()):
        for tr, meta in items:
            run = 0
            for r in tr["steps"]:
                skp_out = r["hold"]
                run = run + 1 if not r["idle"] else 0
                rep.nontriv((tr["cfg"]["kind"], limit, r["idle"], skp_out, r["en"], min(run, 400) // 50))
        rep.sample({"dut": items[0][1], "limit": limit, "first_cycles": items[0][0]["steps"][:4]})
        cfg = tlc.render_cfg(_cfg("CtcTxTrace.cfg.tmpl"), {"Limit": limit})
        _validate(rep, "CtcTxTrace", cfg, items, classify=classify_ctctx,
                       steps_of=lambda t: len(t["steps"]), timeout=3000)


# =====================================================================================================
# C34 word alignment
# =====================================================================================================

ALIGNERS = {
    "RxWordAligner": ("WordAlignerPatterns", [[COM, COM, COM, COM]], {COM}),
    "RxPacketAligner": ("PacketAlignerPatterns", [[SHP, SHP, SHP, EPF], [SLC, SLC, SLC, EPF]], {SHP, SLC, EPF}),
}


def aligner_bench(cls_name):
    use_repo()
    from luna.gateware.usb.usb3.physical import alignment
    dut = getattr(alignment, cls_name)()
    top, rst = with_ss_reset(dut)

    async def proc(ctx, stim):
        rec = []
        for v, w in stim:
            is_rst = v == "rst"
            v = 0 if is_rst else v
            ctx.set(rst, int(is_rst))
            d, c = pack(w)
            ctx.set(dut.sink.valid, v)
            ctx.set(dut.sink.data, d)
            ctx.set(dut.sink.ctrl, c)
            rec.append({"v": bool(v), "w": list(w), "ov": bool(ctx.get(dut.source.valid)),
                        "ow": syms(ctx.get(dut.source.data), ctx.get(dut.source.ctrl)),
                        "ooff": int(ctx.get(dut.alignment_offset)), "rst": is_rst})
            await ctx.tick("ss")
        return rec
    return Bench(top, proc)


def aligner_stream(rng, n_syms, patterns, style=None):
    """A symbol stream with alignment patterns at arbitrary byte positions (=> all four offsets, offset changes),
    near-miss patterns, look-alike data bytes, partial runs; never two pattern starts within four symbols (Unambiguous)."""
    style = style or rng.choice(["sparse", "dense", "ts", "noise"])
    pat_syms = sorted({x for p_ in patterns for x in p_})
    out = []

    def filler(k):
        for _ in range(k):
            r = rng.random()
            if r < 0.70:
                out.append(rng.randrange(256))
            elif r < 0.80:
                out.append(rng.choice(pat_syms) & 0xFF)            # same code, K flag clear: not a pattern symbol
            elif r < 0.90:
                out.append(rng.choice([SKP, SDP, END, 0x19C, 0x17C]))
            else:
                out.append(rng.choice(pat_syms))                   # isolated pattern symbol
        # never leave a run that could extend a following pattern into an ambiguous one
    while len(out) < n_syms:
        gap = {"sparse": rng.randint(9, 40), "dense": rng.randint(4, 9), "ts": 12, "noise": rng.randint(4, 30)}[style]
        if style == "ts" and rng.random() < 0.15:
            gap += rng.randint(1, 3)                               # a slipped symbol: the offset changes
        filler(gap)
        r = rng.random()
        pat = list(rng.choice(patterns))
        if style == "noise" and r < 0.5:
            # near miss: truncated pattern, or one symbol wrong / K flag dropped
            if rng.random() < 0.5:
                pat = pat[:rng.randint(1, 3)]
            else:
                k = rng.randrange(4)
                pat[k] = pat[k] & 0xFF if rng.random() < 0.5 else rng.randrange(256)
        # keep pattern symbols adjacent to the pattern from forming a longer run (COM x5 would be ambiguous)
        if out and out[-1] == pat[0]:
            out[-1] = rng.randrange(256)
        out.extend(pat)
        nxt = rng.randrange(256)
        out.append(nxt)
    # sanitise runs of five or more identical pattern symbols
    for i in range(4, len(out)):
        if out[i] in pat_syms and all(out[i - j] == out[i] for j in range(1, 5)):
            out[i] = rng.randrange(256)
    return out[:n_syms - n_syms % 4]


def aligner_stimulus(rng, symbols, p_invalid, pat_syms=(COM,)):
    stim = []
    for i in range(0, len(symbols), 4):
        while rng.random() < p_invalid:
            # the contents of a bubble are don't-care: random symbols, or (half of the time) alignment symbols
            if rng.random() < 0.5:
                k = rng.randint(1, 4)
                stim.append((0, [rng.choice(pat_syms) for _ in range(k)] + [rng.randrange(512) for _ in range(4 - k)]))
            else:
                stim.append((0, [rng.randrange(512) for _ in range(4)]))
        stim.append((1, symbols[i:i + 4]))
    stim += [(0, [0, 0, 0, 0])] * 3
    return stim


def aligner_sweep(patterns):
    """Every ordered pair of byte offsets (a -> b), with an invalid cycle at each position -1..+2 around the second
    pattern (or none): pattern at offset a, one ordered set of data, a slip, pattern at offset b, data."""
    out = []
    n = 0
    for pat in patterns:
        for a in range(4):
            for b in range(4):
                for inv in (None, -1, 0, 1, 2):
                    n += 1
                    symbols = [0x40 + k for k in range(4 + a)] + list(pat) + [0x80 + ((n * 13 + k) & 0x3F) for k in range(12)]
                    slip = (b - a) % 4
                    symbols += [0xE0 + k for k in range(slip)] + list(pat)
                    second = (len(symbols) - 4) // 4          # index of the word in which the second pattern starts
                    symbols += [0xC0 + k for k in range(12 + (4 - len(symbols) % 4) % 4)]
                    symbols = symbols[:len(symbols) - len(symbols) % 4]
                    stim = []
                    for wi in range(len(symbols) // 4):
                        if inv is not None and wi == second + inv:
                            stim.append((0, [0x1BC, 0x1BC, 0x0BC, 0x1FB]))
                        stim.append((1, symbols[4 * wi:4 * wi + 4]))
                    stim += [(0, [0, 0, 0, 0])] * 3
                    out.append((stim, "sweep %d->%d invalid@%s" % (a, b, inv)))
    return out


def aligner_bubble_sweep(patterns):
    """Invalid cycles (bubbles) whose don't-care contents look like alignment symbols, directly behind a valid word that
    ends in 0..3 symbols of a pattern, for every current offset s: a real pattern establishes offset s; a valid raw word
    ends in the first t symbols of a pattern; the bubble carries the next 0..4 pattern symbols (t+lead >= 4 would complete
    the pattern if bubbles were looked at), a whole pattern word or four times its first symbol; plain valid data
    follows.  Invalid cycles are transparent, so the offset must not move and the data must stay regrouped at s."""
    out = []
    n = 0
    for pat in patterns:
        pat = list(pat)
        for s_ in range(4):
            for t in range(4):
                variants = [((pat[t:] + pat)[:lead] + [0x0BC, 0x017, 0x0FB, 0x0F7][:4 - lead], "lead%d" % lead) for lead in range(5)]
                variants += [(pat, "whole"), ([pat[0]] * 4, "first*4")]
                for bubble, vname in variants:
                    n += 1
                    symbols = [0x40 + k for k in range(4 + s_)] + pat + [0x80 + ((n * 7 + k) & 0x3F) for k in range(8)]
                    symbols += [0xD0 + k for k in range((4 - len(symbols) % 4) % 4)]      # up to a raw word boundary
                    symbols += [0x60 + k for k in range(4 - t)] + pat[:t]                 # valid word ending in t pattern symbols
                    words = [symbols[i:i + 4] for i in range(0, len(symbols), 4)]
                    stim = [(1, w) for w in words]
                    stim.append((0, list(bubble)))
                    if n % 2:
                        stim.append((0, list(bubble)))                                    # two bubbles in a row
                    stim += [(1, [0x21 + 4 * k, 0x22 + 4 * k, 0x123 + 4 * k, 0x24 + 4 * k]) for k in range(5)]
                    stim += [(0, [0, 0, 0, 0])] * 3
                    out.append((stim, "bubble sweep off=%d tail=%d bubble=%s" % (s_, t, vname)))
    return out


def classify_aligner(trace, matched, status, meta):
    return {"clause": status, "pattern": "other"}


def check_C34(rep):
    quick = rep.tier == "quick"
    rng = rep.rng
    rep.rule = ("aligner cycles validated against Aligner.tla; non-trivial = a valid word whose window contains an alignment "
                "pattern, or the first words after an offset change; distinct by (dut, pattern offset, previous offset, "
                "invalid cycle adjacent)")
    rep.assume("at most one alignment pattern starts within any window of two consecutive words (COM runs are exactly four long)")
    rep.assume("symbols presented before the first input word (reset contents of the aligner) are not constrained; latency free")

    runs = [("WordAlignerPatterns", {COM}, 4, 0), ("WordAlignerPatterns", {COM}, 3, 1), ("PacketAlignerPatterns", {SHP, EPF}, 2, 1)]
    if not quick:
        runs = [("WordAlignerPatterns", {COM}, 5, 0), ("WordAlignerPatterns", {COM}, 4, 2),
                ("PacketAlignerPatterns", {SHP, EPF}, 3, 1), ("PacketAlignerPatterns", {SLC, EPF}, 3, 0)]
    for pats, special, mw, mi in runs:
        cfg = tlc.render_cfg(_cfg("MCAligner.cfg.tmpl"), {"Patterns": pats, "Special": special, "MaxWords": mw, "MaxInvalid": mi})
        _mc(rep, "MCAligner %s Special=%s MaxWords=%d MaxInvalid=%d" % (pats, sorted(special), mw, mi), "MCAligner", cfg,
            {"Patterns": pats, "Special": sorted(special), "MaxWords": mw, "MaxInvalid": mi},
            allow_uncovered=("InvalidWord",) if mi == 0 else ())

    for cls, (pats_name, patterns, special) in ALIGNERS.items():
        bench = aligner_bench(cls)
        items = []
        # spec -> code
        cfg = tlc.render_cfg(_cfg("MCAligner_sim.cfg.tmpl"), {"Patterns": pats_name, "Special": special if cls == "RxWordAligner" else {SHP, EPF},
                                                             "MaxWords": 12, "MaxInvalid": 4})
        behs = tlc.simulate(SPEC_DIR, "MCAligner", cfg, num=20 if quick else 150, depth=18, seed=rep.seed * 11 + len(cls), timeout=1800)
        for bh in behs:
            stim = []
            for _, st in bh[1:]:
                i = st["in"]
                if i["valid"]:
                    stim.append((1, [x if x < 512 else ((x * 29 + 7) & 0xFF) for x in i["w"]]))
                else:
                    stim.append((0, [rng.randrange(512) for _ in range(4)]))
            stim += [(0, [0, 0, 0, 0])] * 3
            items.append((bench.run(stim), {"dut": cls, "origin": "tlc-simulate"}))
        # code -> spec: systematic offset-pair sweep, then random streams
        for stim, origin in aligner_sweep(patterns) + aligner_bubble_sweep(patterns):
            items.append((bench.run(stim), {"dut": cls, "origin": origin}))
        # `ss` domain reset at each offset: afterwards offset 0, no memory of the previous word
        for a in range(4):
            for pat in patterns:
                symbols = [0x40 + k for k in range(4 + a)] + list(pat) + [0x80 + k for k in range(8 + (4 - a) % 4)]
                stim = [(1, symbols[i:i + 4]) for i in range(0, len(symbols) - len(symbols) % 4, 4)]
                stim += [("rst", [0x1BC, 0x1BC, 0x1BC, 0x1BC])]
                stim += [(1, [0xA0 + 4 * k, 0xA1 + 4 * k, 0x1A2 + 4 * k, 0xA3 + 4 * k]) for k in range(4)] + [(0, [0, 0, 0, 0])] * 3
                items.append((bench.run(stim), {"dut": cls, "origin": "ss reset at offset %d" % a}))
        for k in range(24 if quick else 200):
            symbols = aligner_stream(rng, 400 if quick else 800, patterns)
            stim = aligner_stimulus(rng, symbols, rng.choice([0.0, 0.0, 0.15, 0.4]), sorted(special))
            items.append((bench.run(stim), {"dut": cls, "origin": "random"}))
        for tr, meta in items:
            rep.add_eval(len(tr))
            prev_off = 0
            prev_valid = True
            tail = 0
            for r in tr:
                if r["v"]:
                    tail = 0
                    for x in reversed(r["w"]):
                        if x not in special:
                            break
                        tail += 1
                elif r["w"][0] in special:
                    lead = next((k for k, x in enumerate(r["w"]) if x not in special), 4)
                    rep.nontriv((cls, "bubble", prev_off, tail, lead))
                if r["ov"]:
                    if r["ow"] in patterns or r["ooff"] != prev_off:
                        rep.nontriv((cls, r["ooff"], prev_off, prev_valid, r["ow"] in patterns))
                    prev_off = r["ooff"]
                prev_valid = r["v"]
        rep.sample({"dut": cls, "origin": items[-1][1]["origin"], "first_cycles": items[-1][0][:5]})
        cfg = tlc.render_cfg(_cfg("AlignerTrace.cfg.tmpl"), {"Patterns": pats_name})
        _validate(rep, "AlignerTrace", cfg, items, classify=classify_aligner, timeout=3000)


# =====================================================================================================
# C42 LFPS
# =====================================================================================================

def _ceil_agrees(freq, t_s):
    """Does the float expression ceil(freq*t) used by the gateware equal the exact ceil(t/period)?  (At some scaled clocks
    125e6-style products such as 1e7*1e-5 come out as 100.00000000000001; those clocks are not used.)"""
    from fractions import Fraction
    from math import ceil
    return ceil(freq * t_s) == ceil(Fraction(freq) * Fraction(str(t_s)))


def _ns(t_s):
    return 0 if t_s is None else int(round(t_s * 1e9))


def lfps_tables():
    use_repo()
    from luna.gateware.usb.usb3.physical import lfps
    return {"polling": lfps._PollingLFPS, "ping": lfps._PingLFPS, "reset": lfps._ResetLFPS}, lfps


def usable_clock(pat, period_ns, generator=False):
    """Detectors use the min/max values, the generator the typical ones."""
    f = 1e9 / period_ns
    ts = [pat.burst.t_typ, pat.repeat.t_typ] if generator else \
        [pat.burst.t_min, pat.burst.t_max] + ([pat.repeat.t_min, pat.repeat.t_max] if pat.repeat is not None else [])
    return all(_ceil_agrees(f, t) for t in ts if t is not None)


class _Tap:
    """Harness glue around a DUT output strobe: counts strobes and remembers the cycle number of the last one, so that
    long quiet stretches can be simulated with tick().repeat(n) instead of sampling every cycle."""

    def __init__(self, dut, strobes):
        from amaranth import Elaboratable, Module, Signal

        class Tap(Elaboratable):
            def __init__(self):
                self.cyc = Signal(32)
                self.n = [Signal(16, name="n%d" % i) for i in range(len(strobes))]
                self.last = [Signal(32, name="last%d" % i) for i in range(len(strobes))]

            def elaborate(self, platform):
                m = Module()
                m.submodules.dut = dut
                m.d.ss += self.cyc.eq(self.cyc + 1)
                for i, sig in enumerate(strobes):
                    with m.If(sig):
                        m.d.ss += [self.n[i].eq(self.n[i] + 1), self.last[i].eq(self.cyc)]
                return m
        self.top = Tap()


def det_bench(dut, sig_in, strobes):
    """Generic envelope driver.  stimulus = ([(level, cycles), ...], lat).  Returns per strobe the event list."""
    tap = _Tap(dut, strobes).top

    async def proc(ctx, stim):
        segs, lat = stim
        # timeline of input edges
        edges = []
        c = 0
        level = 0
        for lv, n in segs:
            if lv != level:
                edges.append((c, lv))
                level = lv
            c += n
        total = c
        points = sorted([(cyc, 0, lv) for cyc, lv in edges] + [(cyc + lat + 1, 1, k) for k, (cyc, _) in enumerate(edges)]
                        + [(total + lat + 1, 2, None)])
        now = 0
        reads = {}
        final = None
        for cyc, kind, arg in points:
            if cyc > now:
                await ctx.tick("ss").repeat(cyc - now)
                now = cyc
            if kind == 0:
                ctx.set(sig_in, arg)
            else:
                snap = [(ctx.get(tap.n[i]), ctx.get(tap.last[i])) for i in range(len(strobes))]
                if kind == 1:
                    reads[arg] = snap
                else:
                    final = snap
        out = []
        for i in range(len(strobes)):
            evs = []
            seen = 0
            prev_c = 0
            for k, (cyc, lv) in enumerate(edges):
                n, last = reads[k][i]
                here = 1 if (n > seen and last == cyc + lat) else 0
                evs.append({"e": "rise" if lv else "fall", "dt": cyc - prev_c, "det": here, "stray": n - seen - here,
                            "at": cyc})
                seen = n
                prev_c = cyc
            n, last = final[i]
            evs.append({"e": "end", "dt": total - prev_c, "det": 0, "stray": n - seen, "at": total})
            out.append(evs)
        return out
    return Bench(tap, proc)


def calibrate_latency(bench, pc, periodic, which=0):
    """Output latency of a detector = (cycle of its first report) - (cycle of the edge that completes a canonical, typical
    pattern).  Not constrained by the property; measured once per DUT."""
    b = pc["btyp"] or (pc["bmin"] + pc["bmax"]) // 2
    if periodic:
        segs = [(0, 5)] + [(1, b), (0, pc["rtyp"] - b)] * 3 + [(1, b), (0, 12)]
        edge = 5 + 2 * pc["rtyp"]
    else:
        segs = [(0, 5), (1, b), (0, 12)]
        edge = 5 + b
    for lat in range(0, 7):
        evs = bench.run((segs, lat))[which]
        hit = [e for e in evs if e["det"] and e["at"] == edge]
        if hit:
            return lat
    return 2


def envelope_segments(events):
    """[(e, dt)] from a spec behaviour -> [(level, cycles)]"""
    segs = []
    for e, dt in events:
        if e == "rise":
            segs.append((0, dt))
        elif e == "fall":
            segs.append((1, dt))
    segs.append((0, 12))
    return segs


def random_envelope(rng, pc, periodic, n_bursts, avoid=None):
    """Bursts / periods around the window boundaries (+-2), typical, far out, with an occasional glitch or long silence.
    `avoid(b)` excludes burst lengths (clean stimuli stay clear of an open finding's trigger)."""
    def pick(lo, typ, hi):
        r = rng.random()
        if r < 0.45:
            return typ if typ else (lo + hi) // 2
        c = rng.choice([lo - 2, lo - 1, lo, lo + 1, hi - 1, hi, hi + 1, hi + 2, (lo + hi) // 2, hi * 2, max(1, lo // 2)])
        return max(1, c)
    segs = [(0, rng.randint(3, 20))]
    mood_good = rng.random() < 0.6
    for _ in range(n_bursts):
        if rng.random() < 0.1:
            mood_good = not mood_good
        for _try in range(20):
            b = (pc["btyp"] or (pc["bmin"] + pc["bmax"]) // 2) if (mood_good and rng.random() < 0.8) else pick(pc["bmin"], pc["btyp"], pc["bmax"])
            if not (avoid and avoid(b)):
                break
        if periodic:
            per = pc["rtyp"] if (mood_good and rng.random() < 0.8) else pick(pc["rmin"], pc["rtyp"], pc["rmax"])
            if per == pc["rmax"] + 1:
                per += 1                       # KF_C42_stale_edge (c): a burst starting exactly one cycle after the timeout
            gap = max(2, per - b)              # KF_C42_stale_edge (a,b): never a one-cycle gap
        else:
            gap = rng.randint(2, 30)
        segs += [(1, b), (0, gap)]
    segs.append((0, 12))
    return segs


def gen_bench(pattern, freq, resets=()):
    use_repo()
    from luna.gateware.usb.usb3.physical.lfps import LFPSGenerator
    dut = LFPSGenerator(pattern, freq)
    return _gen_bench_for(dut, dut.generate, dut.send_signaling, dut.drive_electrical_idle, resets)


def det_reset_bench(dut, sig_in, strobe):
    """Per-cycle envelope driver with `ss` domain reset pulses.  stimulus = ([(level, cycles)], {reset cycles}, lat)."""
    top, rst = with_ss_reset(dut)

    async def proc(ctx, stim):
        segs, resets, lat = stim
        levels = []
        for lv, n in segs:
            levels += [lv] * n
        det = []
        for c, lv in enumerate(levels + [0] * (lat + 2)):
            ctx.set(sig_in, lv)
            ctx.set(rst, int(c in resets))
            if ctx.get(strobe):
                det.append(c)
            await ctx.tick("ss")
        marks = [(c, "rise" if levels[c] else "fall") for c in range(1, len(levels)) if levels[c] != levels[c - 1]]
        if levels and levels[0]:
            marks.insert(0, (0, "rise"))
        marks = sorted(marks + [(c, "reset") for c in resets])
        evs, prev, used = [], 0, set()
        for c, e in marks:
            here = [d for d in det if d == c + lat]
            stray = [d for d in det if prev + lat < d < c + lat and d not in used]
            used.update(here + stray)
            evs.append({"e": e, "dt": c - prev, "det": len(here), "stray": len(stray), "at": c})
            prev = c
        evs.append({"e": "end", "dt": len(levels) - prev, "det": 0, "stray": len([d for d in det if d not in used]), "at": len(levels)})
        return evs
    return Bench(top, proc)


def _gen_bench_for(dut, sig_gen, sig_send, sig_idle, resets=()):
    top, rst = with_ss_reset(dut)
    dut = top

    async def proc(ctx, n_cycles):
        evs = []
        ctx.set(sig_gen, 1)
        level = 0
        prev = 0
        idle_ok = True
        for c in range(n_cycles):
            ctx.set(rst, int(c in resets))
            if c in resets:
                evs.append({"e": "reset", "dt": c - prev, "idle_ok": idle_ok, "at": c})
                await ctx.tick("ss")
                level, prev, idle_ok = 0, c, True
                continue
            snd = ctx.get(sig_send)
            if not ctx.get(sig_idle):
                idle_ok = False
            if snd != level:
                evs.append({"e": "rise" if snd else "fall", "dt": c - prev, "idle_ok": idle_ok, "at": c})
                level, prev, idle_ok = snd, c, True
            await ctx.tick("ss")
        evs.append({"e": "end", "dt": n_cycles - prev, "idle_ok": idle_ok, "at": n_cycles})
        return evs
    return Bench(dut, proc)


def _lcfg(kind, pattern, period, scaled=None):
    r = scaled or (0, 0, 0)
    return {"kind": kind, "pattern": pattern, "period": int(period), "rmin": r[0], "rtyp": r[1], "rmax": r[2]}


def _cycles(pattern_ns, period):
    c = lambda t: (t + period - 1) // period
    return {k: c(v) for k, v in pattern_ns.items()}


TABLE_NS = {   # for stimulus construction only (what durations to try); the deciding copy is Lfps.tla!Table
    "polling": {"bmin": 600, "btyp": 1000, "bmax": 1400, "rmin": 6000, "rtyp": 10000, "rmax": 14000},
    "ping": {"bmin": 40, "btyp": 0, "bmax": 200, "rmin": 160000000, "rtyp": 200000000, "rmax": 240000000},
    "reset": {"bmin": 80000000, "btyp": 100000000, "bmax": 120000000, "rmin": 0, "rtyp": 0, "rmax": 0},
}
PING_SCALED_REPEAT = (1600, 2000, 2400)      # ns: ping-shaped pattern with a repeat window simulable next to its burst window


def _stale_edge_trigger(steps, upto, pc, periodic):
    """KF_C42_stale_edge: a burst begins in the very cycle the detector has returned to waiting (one-cycle gap after an
    evaluated burst, or a period of exactly repeat-max + 1) - looked for in the few events before the failing one."""
    lastb = None
    hits = []
    for k, r in enumerate(steps[:upto]):
        if r["e"] == "fall":
            lastb = r["dt"]
        elif r["e"] == "rise" and lastb is not None:
            if r["dt"] == 1 and (not periodic or lastb < pc["bmin"]):
                hits.append(k)
            if periodic and pc["bmin"] <= lastb <= pc["bmax"] and lastb + r["dt"] == pc["rmax"] + 1:
                hits.append(k)
    return any(upto - k <= 6 for k in hits)


def classify_lfps(trace, matched, status, meta):
    cfg = trace["cfg"]
    pattern = "other"
    if cfg["kind"] == "det" and status == "in_window_pattern_not_reported":
        ns = dict(TABLE_NS[cfg["pattern"]])
        if cfg["rmax"]:
            ns.update(rmin=cfg["rmin"], rtyp=cfg["rtyp"], rmax=cfg["rmax"])
        if _stale_edge_trigger(trace["steps"], matched, _cycles(ns, cfg["period"]), cfg["pattern"] != "reset"):
            pattern = "burst_begins_in_cycle_detector_returns_to_waiting"
    if cfg["kind"] == "table" and cfg["pattern"] == "ping" and status == "table_burst_max":
        pattern = "ping_burst_max_160ns"
    if cfg["kind"] == "det" and cfg["pattern"] == "ping" and status == "in_window_pattern_not_reported":
        falls = [r["dt"] for r in trace["steps"][:matched] if r["e"] == "fall"][-2:]
        if pattern == "other" and any(160 < b * cfg["period"] <= 200 for b in falls):
            pattern = "ping_burst_between_160ns_and_200ns"
    return {"clause": status, "pattern": pattern}


def check_C42(rep):
    quick = rep.tier == "quick"
    rng = rep.rng
    rep.rule = ("LFPS envelope events validated against Lfps.tla; non-trivial = an edge at which a report is due, or at which "
                "a burst/period lies within 2 cycles of a window boundary; distinct by (pattern, clock period, event kind, "
                "boundary distance of burst, boundary distance of period, reported)")
    rep.assume("durations become cycles by rounding up; the clocks used divide the Table 6-30 values, except the ping "
               "repeat-window half (1-10 kHz) where the 40-200 ns burst window degenerates to exactly one cycle")
    rep.assume("the detector's constant output latency is not constrained (measured once per DUT); generator period may include "
               "one re-arm cycle; ping is decided in two halves (burst window with a scaled repeat window; repeat window at 1-10 kHz)")
    tables, lfps = lfps_tables()
    from luna.gateware.usb.usb3.physical.lfps import LFPSDetector, LFPS, LFPSTiming, LFPSTransceiver

    # 1. exhaustive exploration of the detector Ref over boundary envelopes
    mcs = [("polling", 200, 4), ("reset", 1000000, 3), ("ping", 1000000, 4)]
    if not quick:
        mcs = [("polling", 200, 5), ("polling", 8, 4), ("reset", 1000000, 4), ("ping", 1000000, 5), ("ping", 100000, 4)]
    for pat, per, mb in mcs:
        cfg = tlc.render_cfg(_cfg("MCLfps.cfg.tmpl"), {"Period": per, "PatName": '"%s"' % pat, "MaxBursts": mb, "AvoidKF": False})
        _mc(rep, "MCLfps %s Period=%dns MaxBursts=%d" % (pat, per, mb), "MCLfps", cfg, {"pattern": pat, "Period_ns": per, "MaxBursts": mb})

    items = []

    # 2. the module's timing table against Table 6-30
    for name, pat in tables.items():
        step = {"bmin": _ns(pat.burst.t_min), "btyp": _ns(pat.burst.t_typ), "bmax": _ns(pat.burst.t_max),
                "rmin": _ns(pat.repeat.t_min) if pat.repeat else 0, "rtyp": _ns(pat.repeat.t_typ) if pat.repeat else 0,
                "rmax": _ns(pat.repeat.t_max) if pat.repeat else 0, "periodic": pat.repeat is not None}
        items.append(({"cfg": _lcfg("table", name, 8), "steps": [step]}, {"dut": "lfps._%sLFPS constants" % name.capitalize(),
                                                                           "origin": "table"}))
        rep.add_eval(1)

    # 3. detectors
    ping_scaled = LFPS(burst=lfps._PingLFPSBurst,
                       repeat=LFPSTiming(t_typ=PING_SCALED_REPEAT[1] / 1e9, t_min=PING_SCALED_REPEAT[0] / 1e9,
                                         t_max=PING_SCALED_REPEAT[2] / 1e9))
    plans = [   # (label, pattern name, pattern object, period ns, scaled repeat, behaviours from TLC?, n random)
        ("polling", "polling", tables["polling"], 200, None, True, 10),
        ("polling", "polling", tables["polling"], 8, None, False, 3),
        ("reset", "reset", tables["reset"], 1000000, None, True, 10),
        ("ping(repeat half)", "ping", tables["ping"], 1000000, None, True, 6),
        ("ping(burst half, scaled repeat)", "ping", ping_scaled, 8, PING_SCALED_REPEAT, False, 12),
    ]
    # clock-frequency value classes (ss_clk_frequency): 250 / 62.5 / 25 MHz besides 125 MHz (default, passed by omission)
    # and 5 MHz; 62.5 MHz gives non-integral cycle counts (37.5 -> 38), i.e. the rounding-up convention is exercised
    clock_classes = [4, 16, 40]
    if quick:
        plans.append(("polling", "polling", tables["polling"], 16, None, False, 3))
        plans.append(("polling", "polling", tables["polling"], [4, 40][rep.seed % 2], None, False, 3))
    else:
        plans += [("polling", "polling", tables["polling"], 16, None, False, 10),
                  ("ping(burst half, scaled repeat)", "ping", ping_scaled, 16, PING_SCALED_REPEAT, False, 10),
                  ("reset", "reset", tables["reset"], 250000, None, False, 6)]
    if not quick:
        plans += [("polling", "polling", tables["polling"], 4, None, False, 10),
                  ("polling", "polling", tables["polling"], 40, None, True, 40),
                  ("reset", "reset", tables["reset"], 100000, None, False, 10),
                  ("ping(repeat half)", "ping", tables["ping"], 100000, None, False, 6),
                  ("ping(burst half, scaled repeat)", "ping", ping_scaled, 4, PING_SCALED_REPEAT, False, 40)]
        plans = [(a, b_, c, d, e, f_, n * 4) for a, b_, c, d, e, f_, n in plans]
    for label, pname, pobj, period, scaled, use_tlc, n_random in plans:
        if not usable_clock(pobj, period):
            rep.notes.append("clock period %d ns skipped for %s: float rounding in the gateware's ceil(f*t)" % (period, label))
            continue
        freq = 1e9 / period
        ns = dict(TABLE_NS[pname])
        if scaled:
            ns.update(rmin=scaled[0], rtyp=scaled[1], rmax=scaled[2])
        pc = _cycles(ns, period)
        periodic = pobj.repeat is not None
        # 125 MHz is the documented default: construct without the argument there
        dut = LFPSDetector(pobj) if period == 8 else LFPSDetector(pobj, ss_clk_frequency=freq)
        rep.nontriv(("cfg", "LFPSDetector", label, period, "default-arg" if period == 8 else "explicit"))
        bench = det_bench(dut, dut.signaling_received, [dut.detect])
        lat = calibrate_latency(bench, pc, periodic)
        if lat != 2:
            rep.drift.append({"dut": "LFPSDetector %s" % label, "output_latency_cycles": lat, "expected": 2})
        meta0 = {"dut": "LFPSDetector(%s, %.6g Hz)" % (label, freq), "latency": lat}
        disputed = (lambda b: 160 < b * period <= 200) if pname == "ping" else None
        envs = []
        if use_tlc:
            cfg = tlc.render_cfg(_cfg("MCLfps_sim.cfg.tmpl"), {"Period": period, "PatName": '"%s"' % pname, "MaxBursts": 6,
                                                                  "AvoidKF": True})
            behs = tlc.simulate(SPEC_DIR, "MCLfps", cfg, num=12 if quick else 80, depth=14, seed=rep.seed * 17 + period % 1000, timeout=1800)
            for bh in behs:
                envs.append((envelope_segments([(st["in"]["e"], st["in"]["dt"]) for _, st in bh[1:]]), "tlc-simulate"))
        for _ in range(n_random):
            envs.append((random_envelope(rng, pc, periodic, rng.randint(4, 9), avoid=disputed), "random"))
        if disputed and any(disputed(b) for b in range(pc["bmin"], pc["bmax"] + 1)):
            b_w = max(b for b in range(pc["bmin"], pc["bmax"] + 1) if disputed(b))
            envs.append(([(0, 5)] + [(1, b_w), (0, pc["rtyp"] - b_w)] * 4 + [(0, 12)], "witness:ping burst in (160 ns, 200 ns]"))
        # witnesses for KF_C42_stale_edge
        bt = pc["btyp"] or (pc["bmin"] + pc["bmax"]) // 2
        if periodic:
            good = [(1, bt), (0, pc["rtyp"] - bt)]
            envs.append(([(0, 5)] + good + [(1, bt), (0, pc["rmax"] + 1 - bt)] + good * 3 + [(0, 12)],
                         "witness:period of exactly repeat-max+1 cycles"))
            if pc["bmin"] > 1:
                envs.append(([(0, 5), (1, pc["bmin"] - 1), (0, 1)] + good * 3 + [(0, 12)],
                             "witness:one-cycle gap after a too-short burst"))
        else:
            envs.append(([(0, 5), (1, bt), (0, 1), (1, bt), (0, 9), (1, bt), (0, 12)], "witness:one-cycle gap between bursts"))
        for segs, origin in envs:
            evs = bench.run((segs, lat))[0]
            rep.add_eval(sum(n for _, n in segs))
            items.append(({"cfg": _lcfg("det", pname, period, scaled), "steps": evs}, dict(meta0, origin=origin)))

    # 3b. `ss` domain reset pulsed while the line is idle: every earlier burst must be forgotten (a periodic pattern needs
    #     two new good pairs, whatever was measured before)
    for pname, period in (("polling", 200), ("reset", 1000000)):
        pobj = tables[pname]
        pc = _cycles(TABLE_NS[pname], period)
        periodic = pobj.repeat is not None
        dut = LFPSDetector(pobj, ss_clk_frequency=1e9 / period)
        rb = det_reset_bench(dut, dut.signaling_received, dut.detect)
        b = pc["btyp"]
        gap = (pc["rtyp"] - b) if periodic else 30
        for after_burst in (1, 2, 3):
            for off in (6, gap // 2, gap - 6):
                segs = [(0, 8)] + [(1, b), (0, gap)] * 6 + [(0, 10)]
                at = 8 + (after_burst - 1) * (b + gap) + b + off
                evs = rb.run((segs, {at}, 2))
                rep.add_eval(sum(n for _, n in segs))
                rep.nontriv(("reset", pname, after_burst, off))
                items.append(({"cfg": _lcfg("det", pname, period), "steps": evs},
                              {"dut": "LFPSDetector(%s, %.6g Hz)" % (pname, 1e9 / period), "origin": "ss reset in gap %d +%d" % (after_burst, off),
                               "latency": 2}))

    # 4. generators (polling is the only pattern LUNA transmits)
    for period in ([8, 4] if quick else [8, 4, 2, 1, 200, 40]):
        pobj = tables["polling"]
        if not usable_clock(pobj, period, generator=True):
            rep.notes.append("clock period %d ns skipped for the generator (float rounding in ceil(f*t))" % period)
            continue
        pc = _cycles(TABLE_NS["polling"], period)
        gb = gen_bench(pobj, 1e9 / period)
        n_cyc = pc["rtyp"] * 3 + pc["btyp"] + 7
        evs = gb.run(n_cyc)
        rep.add_eval(n_cyc)
        items.append(({"cfg": _lcfg("gen", "polling", period), "steps": evs},
                      {"dut": "LFPSGenerator(polling, %.6g Hz)" % (1e9 / period), "origin": "generate held high"}))
        # `ss` domain reset in the middle of a burst and in the middle of the wait: a fresh typical pattern must follow
        for resets in ({2 + pc["btyp"] // 2}, {2 + pc["rtyp"] + pc["btyp"] + 40}, {2 + pc["btyp"] // 3, 2 + pc["btyp"] // 3 + pc["rtyp"] // 2}):
            evs = gen_bench(pobj, 1e9 / period, resets).run(n_cyc)
            rep.add_eval(n_cyc)
            rep.nontriv(("reset", "gen", period, len(resets)))
            items.append(({"cfg": _lcfg("gen", "polling", period), "steps": evs},
                          {"dut": "LFPSGenerator(polling, %.6g Hz)" % (1e9 / period), "origin": "generate high, ss reset at %s" % sorted(resets)}))

    # 5. the transceiver as instantiated in the physical layer (125 MHz): polling envelope in, all three detectors out;
    #    send_polling -> generator outputs
    trx = LFPSTransceiver()
    tb = det_bench(trx, trx.signaling_received, [trx.polling_detected, trx.reset_detected, trx.ping_detected])
    pc = _cycles(TABLE_NS["polling"], 8)
    lat = calibrate_latency(tb, pc, True, which=0)
    for k in range(2 if quick else 10):
        segs = random_envelope(rng, pc, True, rng.randint(4, 7))
        out = tb.run((segs, lat))
        rep.add_eval(sum(n for _, n in segs))
        for which, pname in enumerate(["polling", "reset", "ping"]):
            items.append(({"cfg": _lcfg("det", pname, 8), "steps": out[which]},
                          {"dut": "LFPSTransceiver().%s_detected (125 MHz)" % pname, "origin": "random polling-like envelope",
                           "latency": lat}))
    if not quick:
        trx4 = LFPSTransceiver(ss_clk_freq=250e6)
        tb4 = det_bench(trx4, trx4.signaling_received, [trx4.polling_detected, trx4.reset_detected, trx4.ping_detected])
        pc4 = _cycles(TABLE_NS["polling"], 4)
        lat4 = calibrate_latency(tb4, pc4, True, which=0)
        for k in range(6):
            segs = random_envelope(rng, pc4, True, rng.randint(4, 7))
            out = tb4.run((segs, lat4))
            rep.add_eval(sum(n for _, n in segs))
            for which, pname in enumerate(["polling", "reset", "ping"]):
                items.append(({"cfg": _lcfg("det", pname, 4), "steps": out[which]},
                              {"dut": "LFPSTransceiver(ss_clk_freq=250e6).%s_detected" % pname, "origin": "random polling-like envelope",
                               "latency": lat4}))
    trx2 = LFPSTransceiver()
    gb = _gen_bench_for(trx2, trx2.send_polling, trx2.send_signaling, trx2.drive_electrical_idle)
    n_cyc = pc["rtyp"] * 2 + pc["btyp"] + 7
    evs = gb.run(n_cyc)
    rep.add_eval(n_cyc)
    items.append(({"cfg": _lcfg("gen", "polling", 8), "steps": evs},
                  {"dut": "LFPSTransceiver().send_signaling (125 MHz)", "origin": "send_polling held high"}))

    for tr, meta in items:
        cfg = tr["cfg"]
        if cfg["kind"] != "det":
            rep.nontriv((cfg["kind"], cfg["pattern"], cfg["period"]))
            continue
        ns = dict(TABLE_NS[cfg["pattern"]])
        if cfg["rmax"]:
            ns.update(rmin=cfg["rmin"], rtyp=cfg["rtyp"], rmax=cfg["rmax"])
        pc = _cycles(ns, cfg["period"])
        lastb = None
        for r in tr["steps"]:
            near = lambda x, lo, hi: min(abs(x - lo), abs(x - hi)) if min(abs(x - lo), abs(x - hi)) <= 2 else 9
            if r["e"] == "fall":
                lastb = r["dt"]
                if r["det"] or near(r["dt"], pc["bmin"], pc["bmax"]) <= 2:
                    rep.nontriv((cfg["pattern"], cfg["period"], "fall", near(r["dt"], pc["bmin"], pc["bmax"]), r["det"]))
            elif r["e"] == "rise" and lastb is not None and pc["rmax"]:
                d = near(lastb + r["dt"], pc["rmin"], pc["rmax"])
                if r["det"] or d <= 2:
                    rep.nontriv((cfg["pattern"], cfg["period"], "rise", d, r["det"]))
    rep.sample({"dut": items[3][1], "cfg": items[3][0]["cfg"], "events": items[3][0]["steps"][:8]})
    rep.sample({"dut": items[-1][1], "cfg": items[-1][0]["cfg"], "events": items[-1][0]["steps"][:8]})
    _validate(rep, "LfpsTrace", _cfg("LfpsTrace.cfg.tmpl"), items, classify=classify_lfps,
                   steps_of=lambda t: len(t["steps"]), timeout=3000)


CHECKS = {"C31": check_C31, "C32": check_C32, "C33": check_C33, "C34": check_C34, "C42": check_C42}
