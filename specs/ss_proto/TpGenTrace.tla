----------------------------- MODULE TpGenTrace -----------------------------
(***************************************************************************)
(* Trace validation for TpGen.  A trace is a sequence of per-cycle records *)
(*  [ack, stall, nrdy, erdy, ep, rty, seq, addr, hqr   -- inputs            *)
(*   ready, done, hv, dw0lo, dw0hi, dw1lo, dw1hi]      -- outputs observed  *)
(*                                                       in the same cycle  *)
(***************************************************************************)
EXTENDS TpGen, TLC, TLCExt, Json, IOUtils

Logs == JsonDeserialize(IOEnv.TRACE_FILE)

VARIABLES tid, l, status
tvars == <<gvars, tid, l, status>>

ASSUME \A i \in 1..Len(Logs) : TLCSet(i, <<0, "ok">>)

InOf(r)  == [ack |-> r.ack, stall |-> r.stall, nrdy |-> r.nrdy, erdy |-> r.erdy,
             ep |-> r.ep, rty |-> r.rty, seq |-> r.seq, addr |-> r.addr, hqr |-> r.hqr]
OutOf(r) == [ready |-> r.ready, done |-> r.done, hv |-> r.hv,
             dw0lo |-> r.dw0lo, dw0hi |-> r.dw0hi, dw1lo |-> r.dw1lo, dw1hi |-> r.dw1hi]

TInit == Init /\ tid \in 1..Len(Logs) /\ l = 1 /\ status = "ok"

TNext == /\ status = "ok"
         /\ l <= Len(Logs[tid])
         /\ LET r == Logs[tid][l]
                i == InOf(r)
                o == OutOf(r)
                h == IF o.hv THEN DecHdr(o) ELSE NoHdr
                f == Failing(i, o, h) IN
              /\ status' = f
              /\ IF f = "ok" THEN Step(i, o, h) ELSE UNCHANGED gvars
         /\ l' = l + 1
         /\ UNCHANGED tid

TSpec == TInit /\ [][TNext]_tvars

TraceProp == OnePacketPerRequest /\ PacketEqualsRequest /\ Bounded
Verdict == IF status # "ok" THEN status ELSE IF TraceProp THEN "ok" ELSE "prop_invariant"
\* (an invariant failure stops the trace there, so that later steps cannot overwrite it)
Progress == TLCSet(tid, <<l - 1, Verdict>>) /\ Verdict = "ok"
Verdicts == JsonSerialize(IOEnv.VERDICT_FILE, [i \in 1..Len(Logs) |-> TLCGet(i)])
=============================================================================
