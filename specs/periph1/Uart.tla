-------------------------------- MODULE Uart --------------------------------
(***************************************************************************)
(* Reference specification of luna.gateware.interface.uart.UARTTransmitter *)
(* (W = 1) and UARTMultibyteTransmitter (W = byte_width) -- property C49 -- *)
(* written from the doc-strings, the property and the 8N1 convention.       *)
(*                                                                         *)
(* Grain: explicit time.  One step = Run(n, ...) = n >= 1 consecutive clock *)
(* cycles in which the stream inputs (valid, data) and the outputs (ready,  *)
(* tx) do not change; a cycle in which a word is accepted (valid /\ ready)  *)
(* is always a step of its own (n = 1).  Run(n) is a closed form of n       *)
(* single-cycle steps: it checks that no bit boundary with a level change   *)
(* and no deadline is crossed silently inside the leap.                     *)
(*                                                                         *)
(*   Env  : the producer offers words (valid, data); once offered a word is *)
(*          held unchanged until it is accepted (stream discipline).        *)
(*   Ref  : the line is a schedule: `bits` = levels of the frame in progress*)
(*          still to go (current bit first), `left` = cycles the current    *)
(*          bit is still to be held; `pend` = bytes accepted and not yet    *)
(*          started, oldest first.  A frame is start(0), the eight data     *)
(*          bits least-significant first, stop(1); every bit lasts exactly  *)
(*          D cycles; a word is W bytes, least-significant byte first.      *)
(*   Prop : ghost logs: accepted = framed \o pend (nothing lost, duplicated *)
(*          or reordered), the wave of the frame in progress is a prefix of *)
(*          the declarative 8N1 wave of its byte, the line idles high.      *)
(*                                                                         *)
(* Freedom left to the implementation: when it raises `ready` (any cycle:   *)
(* what is accepted is queued and framed in order), and up to MaxStall      *)
(* cycles of slack whenever the line is free although a byte is pending or  *)
(* an offered word is being refused (so: a stop bit is never shorter than   *)
(* D cycles, and the next start bit follows it within MaxStall cycles).     *)
(***************************************************************************)
EXTENDS Naturals, Sequences

CONSTANTS MaxStall      \* slack (cycles) the transmitter may waste while it owes progress

VARIABLES D,            \* configuration: divisor (clock cycles per bit)
          W,            \* configuration: bytes per word (1 for UARTTransmitter)
          bits,         \* Ref: remaining levels of the frame in progress (<<>> = line free)
          left,         \* Ref: cycles the current bit must still be held (0 when line free)
          pend,         \* Ref: bytes accepted, frame not started yet
          stall,        \* Ref: consecutive free-line cycles in which progress was owed
          in,           \* Env: [n, v, d] of the step just taken (d = 16-bit limbs, least significant first)
          out,          \* observed/chosen outputs of the step just taken: [rdy, tx]
          offered,      \* Env bookkeeping: a word is on offer and was not accepted yet
          accepted,     \* ghost: every byte ever accepted, in order
          framed,       \* ghost: every byte whose frame has started, in order
          fwave         \* ghost: per-cycle levels of the most recent frame, as far as it got

vars == <<D, W, bits, left, pend, stall, in, out, offered, accepted, framed, fwave>>

-----------------------------------------------------------------------------
(* 8N1 framing, bit-serially *)
BitsLSB8(b) == [i \in 1..8 |-> (b \div (2 ^ (i - 1))) % 2]
FrameBits(b) == <<0>> \o BitsLSB8(b) \o <<1>>                    \* start, d0..d7, stop
\* declarative wave of a whole frame: every bit held d cycles
FrameWave(b, d) == LET fb == FrameBits(b) IN [i \in 1..(10 * d) |-> fb[((i - 1) \div d) + 1]]

\* A word is given as 16-bit limbs, least-significant limb first; its bytes little-endian:
ByteOf(limbs, k) == (limbs[(k \div 2) + 1] \div (IF k % 2 = 0 THEN 1 ELSE 256)) % 256     \* k = 0 .. W-1
BytesLE(limbs, w) == [k \in 1..w |-> ByteOf(limbs, k - 1)]

Copies(x, k) == [i \in 1..k |-> x]

-----------------------------------------------------------------------------
InitCfg(d, w) ==
    /\ D = d /\ W = w
    /\ bits = <<>> /\ left = 0 /\ pend = <<>> /\ stall = 0
    /\ in = [n |-> 1, v |-> FALSE, d |-> <<0, 0>>] /\ out = [rdy |-> FALSE, tx |-> 1]
    /\ offered = FALSE
    /\ accepted = <<>> /\ framed = <<>> /\ fwave = <<>>

\* Hold level lv for n cycles on a line whose frame in progress is (b, lf).
\* Result: ok, the schedule afterwards, `rest` = cycles that fell after the end of the frame,
\* `at` = number of frame bits still to go where a mismatch was found (10 = start bit, 1 = stop bit).
RECURSIVE Eat(_, _, _, _)
Eat(b, lf, n, lv) ==
    IF n = 0 THEN [ok |-> TRUE, bits |-> b, left |-> lf, rest |-> 0, at |-> 0]
    ELSE IF b = <<>> THEN [ok |-> TRUE, bits |-> <<>>, left |-> 0, rest |-> n, at |-> 0]
    ELSE IF b[1] # lv THEN [ok |-> FALSE, bits |-> b, left |-> lf, rest |-> 0, at |-> Len(b)]
    ELSE IF n < lf THEN [ok |-> TRUE, bits |-> b, left |-> lf - n, rest |-> 0, at |-> 0]
    ELSE Eat(Tail(b), IF Len(b) > 1 THEN D ELSE 0, n - lf, lv)

\* Everything one step decides, as a function of the current state and the step's record.
Outcome(n, v, d, rdy, tx) ==
    LET free0    == bits = <<>>
        starts   == free0 /\ tx = 0                       \* a start bit begins in the first cycle
        spurious == starts /\ pend = <<>>
        b0       == IF starts /\ ~spurious THEN FrameBits(Head(pend)) ELSE bits
        lf0      == IF starts /\ ~spurious THEN D ELSE left
        pend1    == IF starts /\ ~spurious THEN Tail(pend) ELSE pend
        e        == Eat(b0, lf0, n, tx)
        acc      == v /\ rdy
        owes     == pend1 # <<>> \/ (v /\ ~rdy)           \* progress is owed during this step
        stall1   == IF e.ok /\ e.rest > 0 /\ owes THEN (IF free0 THEN stall ELSE 0) + e.rest ELSE 0
        inframe  == n - e.rest
        err      == IF offered /\ (~v \/ d # in.d) THEN "env_word_withdrawn"
                    ELSE IF acc /\ n # 1 THEN "env_accept_not_single_cycle"
                    ELSE IF spurious THEN "start_bit_without_accepted_byte"
                    ELSE IF ~e.ok THEN (IF e.at = 10 THEN "start_bit" ELSE IF e.at = 1 THEN "stop_bit" ELSE "data_bit")
                    ELSE IF stall1 > MaxStall THEN (IF pend1 # <<>> THEN "pending_byte_not_started" ELSE "offered_word_not_accepted")
                    ELSE "ok"
    IN [err |-> err, bits |-> e.bits, left |-> e.left,
        pend |-> pend1 \o (IF acc THEN BytesLE(d, W) ELSE <<>>),
        stall |-> stall1,
        offered |-> v /\ ~rdy,
        accepted |-> accepted \o (IF acc THEN BytesLE(d, W) ELSE <<>>),
        framed |-> framed \o (IF starts /\ ~spurious THEN <<Head(pend)>> ELSE <<>>),
        fwave |-> (IF starts THEN <<>> ELSE fwave) \o Copies(tx, inframe)]

RunR(n, v, d, rdy, tx, o) ==           \* o = Outcome(n, v, d, rdy, tx), computed once by the caller
    /\ o.err = "ok"
    /\ in' = [n |-> n, v |-> v, d |-> d]
    /\ out' = [rdy |-> rdy, tx |-> tx]
    /\ bits' = o.bits /\ left' = o.left /\ pend' = o.pend /\ stall' = o.stall /\ offered' = o.offered
    /\ accepted' = o.accepted /\ framed' = o.framed /\ fwave' = o.fwave
    /\ UNCHANGED <<D, W>>

Run(n, v, d, rdy, tx) == RunR(n, v, d, rdy, tx, Outcome(n, v, d, rdy, tx))

-----------------------------------------------------------------------------
(* Prop *)
\* Nothing accepted is lost, duplicated or reordered on its way to the line.
OrderPreserved == accepted = framed \o pend

\* The frame in progress (or the last one, once finished) is the 8N1 wave of its byte, every bit D cycles.
FrameExact ==
    framed # <<>> =>
        LET w == FrameWave(framed[Len(framed)], D) IN
        /\ Len(fwave) <= 10 * D
        /\ fwave = SubSeq(w, 1, Len(fwave))
        /\ (bits = <<>> <=> Len(fwave) = 10 * D)
        /\ (bits # <<>> => Len(fwave) = 10 * D - ((Len(bits) - 1) * D + left))

\* The line idles high: a step that ends outside a frame ended on an idle cycle or a stop bit.
IdlesHigh == bits = <<>> => out.tx = 1

\* Schedule bookkeeping.
SchedOK == /\ (bits = <<>> <=> left = 0)
           /\ left \in 0..D
           /\ Len(bits) <= 10
           /\ stall \in 0..MaxStall

\* A word goes out least-significant byte first (little-endian): its limbs are rebuilt from the bytes.
LittleEndianOK(limbs, w) ==
    \A j \in 1..((w + 1) \div 2) :
        LET lo == BytesLE(limbs, w)[2 * j - 1]
            hi == IF 2 * j <= w THEN BytesLE(limbs, w)[2 * j] ELSE 0
        IN lo + 256 * hi = (IF 2 * j <= w THEN limbs[j] ELSE limbs[j] % 256)
=============================================================================
