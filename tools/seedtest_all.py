#!/usr/bin/env python3
"""usage: tools/seedtest_all.py [-j N] [name ...]  — run every seeded change (or the named ones) against the check(s) of its property."""
import json, os, subprocess, sys
from concurrent.futures import ThreadPoolExecutor
args = sys.argv[1:]
j = 4
if "-j" in args:
    i = args.index("-j"); j = int(args[i + 1]); del args[i:i + 2]
names = args or sorted(os.listdir("/verif/seeded"))
def run(n):
    d = "/verif/seeded/" + n
    meta = json.load(open(d + "/meta.json"))
    ids = meta.get("checks") or [meta["property"]]
    p = subprocess.run(["/verif/tools/seedtest.py", d + "/patch.diff"] + ids, stdout=subprocess.PIPE, stderr=subprocess.STDOUT, text=True)
    res = [l for l in p.stdout.splitlines() if ": exit=" in l]
    return "%-8s %s" % (n, " ; ".join(res))
with ThreadPoolExecutor(j) as ex:
    for r in ex.map(run, names):
        print(r, flush=True)
