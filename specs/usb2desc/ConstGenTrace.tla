--------------------------- MODULE ConstGenTrace ---------------------------
(***************************************************************************)
(* Trace validation for ConstGen.  Every trace recorded from a real        *)
(* ConstantStreamGenerator / StreamSerializer is                           *)
(*   [cfg   |-> [data, w, big, haslen, olen],                              *)
(*    steps |-> << per-cycle records >>]                                   *)
(* with per-cycle records                                                  *)
(*   [start, sp, ml, ready              -- inputs applied in this cycle     *)
(*    valid, lanes, first, last, done, olen]  -- outputs observed before    *)
(*                                             the clock edge of the cycle  *)
(* (`valid` is the valid mask as an integer, `lanes` the payload split     *)
(* into bytes, lane 0 first).  Batch recipe: register tid holds            *)
(* <<steps matched, first failing clause>>.                                *)
(***************************************************************************)
EXTENDS ConstGen, TLC, TLCExt, Json, IOUtils

Logs == JsonDeserialize(IOEnv.TRACE_FILE)

VARIABLES tid, l, status
tvars == <<vars, tid, l, status>>

ASSUME \A i \in 1..Len(Logs) : TLCSet(i, <<0, "ok">>)

Steps == Logs[tid].steps
InputOf(r)  == [start |-> r.start, sp |-> r.sp, ml |-> r.ml, ready |-> r.ready, rst |-> r.rst]
OutputOf(r) == [valid |-> r.valid, lanes |-> r.lanes, first |-> r.first, last |-> r.last,
                done |-> r.done, olen |-> r.olen]

\* Name of the first failing clause (Env assumptions first: a failure there is a harness error).
Failing(i, o) ==
    IF ~E_start(i) THEN "env_start_while_busy"
    ELSE IF ~E_held(i) THEN "env_inputs_not_held"
    ELSE IF ~E_req(i) THEN "env_illegal_request"
    ELSE IF ~E_clean(i) THEN "env_known_finding_trigger_in_clean_trace"
    ELSE IF ~O_valid(o) THEN "valid"
    ELSE IF ~O_withdrawn(o) THEN "valid_withdrawn"
    ELSE IF ~O_latency(o) THEN "latency"
    ELSE IF ~O_lanes(o) THEN "payload"
    ELSE IF ~O_first(o) THEN "first"
    ELSE IF ~O_last(o) THEN "last"
    ELSE IF ~O_olen(o) THEN "output_length"
    ELSE IF ~O_done(o) THEN "done"
    ELSE IF ~O_donelat(o) THEN "done_latency"
    ELSE "ok"

TInit == /\ tid \in 1..Len(Logs)
         /\ Init0
         /\ cfg = Logs[tid].cfg
         /\ l = 1
         /\ status = "ok"

TNext == /\ status = "ok"
         /\ l <= Len(Steps)
         /\ LET r == Steps[l]
                i == InputOf(r)
                o == OutputOf(r)
                f == Failing(i, o) IN
              /\ status' = f
              /\ IF f = "ok" THEN Step(i, o) ELSE UNCHANGED vars
         /\ l' = l + 1
         /\ UNCHANGED tid

TSpec == TInit /\ [][TNext]_tvars

\* Prop invariants are evaluated on every state of every observed execution.
Progress == TLCSet(tid, <<l - 1, IF PropInv THEN status ELSE "prop_invariant">>)

Verdicts == JsonSerialize(IOEnv.VERDICT_FILE, [i \in 1..Len(Logs) |-> TLCGet(i)])
=============================================================================
