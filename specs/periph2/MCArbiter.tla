----------------------------- MODULE MCArbiter -----------------------------
(* Bounded instance of Arbiter for exhaustive TLC exploration. *)
EXTENDS Arbiter, TLC

CONSTANT MaxBeats          \* bound on the ghost delivery log (keeps the state space finite)

Bounded == Len(dlv) <= MaxBeats
=============================================================================
