------------------------------ MODULE MCUlpiRx ------------------------------
(* Bounded instance of UlpiRx: every PHY behaviour with at most MaxPkts receives of at most
   MaxLen data bytes, RxCmds and aborts anywhere, driven through the reference function. *)
EXTENDS UlpiRx, TLC

CONSTANTS DataBytes, RxCmdBytes, MaxPkts, MaxLen, MaxReads

VARIABLE reads
mvars == <<rvars, reads>>

Inputs == [dir : {0, 1}, nxt : {0, 1}, di : DataBytes \cup RxCmdBytes \cup {0}, rr : {0, 1}]

Starts(i) == (IsTurn(i) /\ i.nxt = 1) \/ (IsCmd(i) /\ RxActiveBit(i.di) /\ ~phyRx)

MCLegal(i) == /\ LegalIn(i)
              /\ IsData(i) => (i.di \in DataBytes /\ plen < MaxLen)
              /\ IsCmd(i) => i.di \in RxCmdBytes
              /\ IsRead(i) => (i.di \in RxCmdBytes /\ reads < MaxReads)   \* read data that looks like an RxCmd
              /\ ~(IsData(i) \/ IsCmd(i) \/ IsRead(i)) => i.di = 0
              /\ Starts(i) => pktNo < MaxPkts

Drive(i) == MCLegal(i) /\ Step(i, RefOut) /\ reads' = IF IsRead(i) THEN reads + 1 ELSE reads

BusIdle    == \E i \in Inputs : i.dir = 0 /\ pdir = 0 /\ Drive(i)      \* incl. NXT of a transmit
TurnAround == \E i \in Inputs : IsTurn(i) /\ Drive(i)
DataByte   == \E i \in Inputs : IsData(i) /\ Drive(i)
RxCommand  == \E i \in Inputs : IsCmd(i) /\ Drive(i)
ReadData   == \E i \in Inputs : IsRead(i) /\ Drive(i)
DirFall    == \E i \in Inputs : i.dir = 0 /\ pdir = 1 /\ Drive(i)

Next == BusIdle \/ TurnAround \/ DataByte \/ RxCommand \/ ReadData \/ DirFall
Spec == Init /\ reads = 0 /\ [][Next]_mvars
=============================================================================
