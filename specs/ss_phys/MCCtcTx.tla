------------------------------- MODULE MCCtcTx -------------------------------
(***************************************************************************)
(* Bounded model of CtcTx with a scaled Limit.  Env per cycle: idle filler, *)
(* a fresh non-idle word (numbered, so drops/reorders are visible) or a     *)
(* non-idle word that merely looks like idle (all-zero packet data).        *)
(* Non-idle bursts are at most MaxBurst words long.                         *)
(***************************************************************************)
EXTENDS CtcTx, TLC

CONSTANTS MaxLen,       \* words per behaviour
          MaxBurst      \* longest run of non-idle words

VARIABLES elapsed, owed,      \* Ref
          in, out,            \* Env input / Ref output of the last cycle
          inLog, outLog,      \* ghost: all link words [w, idle] / all PHY words
          run, nid

vars == <<elapsed, owed, in, out, inLog, outLog, run, nid>>

Init == /\ elapsed = 0 /\ owed = 0
        /\ in = [w |-> IDLW, idle |-> FALSE] /\ out = IDLW
        /\ inLog = <<>> /\ outLog = <<>> /\ run = 0 /\ nid = 1

\* Env (both assumptions of CtcTx): idle only flagged on the idle word; idle is offered before the debt passes MaxOwed
Cycle(i) == /\ IdleLegal(i)
            /\ OwedNext(owed, elapsed, i) <= MaxOwed
            /\ in' = i
            /\ out' = OutWord(owed, i)
            /\ elapsed' = ElapsedNext(elapsed)
            /\ owed' = OwedNext(owed, elapsed, i)
            /\ inLog' = Append(inLog, i)
            /\ outLog' = Append(outLog, OutWord(owed, i))

Idle      == Cycle([w |-> IDLW, idle |-> TRUE]) /\ run' = 0 /\ UNCHANGED nid
Data      == run < MaxBurst /\ Cycle([w |-> <<nid, nid, nid, nid>>, idle |-> FALSE]) /\ run' = run + 1 /\ nid' = nid + 1
ZeroData  == run < MaxBurst /\ Cycle([w |-> IDLW, idle |-> FALSE]) /\ run' = run + 1 /\ UNCHANGED nid

Next == Idle \/ Data \/ ZeroData
Spec == Init /\ [][Next]_vars
Bounded == Len(inLog) <= MaxLen

-----------------------------------------------------------------------------
(* Prop *)
T == 4 * Len(inLog)
RECURSIVE CountSkp(_, _)
CountSkp(log, k) == IF k = 0 THEN 0 ELSE CountSkp(log, k - 1) + (IF log[k] = SKPW THEN 1 ELSE 0)
Inserted == CountSkp(outLog, Len(outLog))

\* one ordered set per Limit symbols, remainder never discarded
CreditClosedForm == /\ owed + 2 * Inserted = T \div Limit
                    /\ elapsed = T % Limit
\* the PHY stream is the link stream, word for word, except idle filler replaced by SKP words
OnlyIdleReplaced == /\ Len(outLog) = Len(inLog)
                    /\ \A k \in 1..Len(inLog) :
                          \/ outLog[k] = inLog[k].w
                          \/ (outLog[k] = SKPW /\ inLog[k].idle /\ inLog[k].w = IDLW)
\* never ahead of schedule, and the debt is bounded when bursts are
NeverAhead     == 2 * Inserted <= T \div Limit
CreditBounded  == owed <= MaxOwed
\* "whenever idle time permits": an idle word goes out un-replaced only when fewer than two sets are owed
AtEveryOpportunity == [][(in'.idle /\ out' # SKPW) => owed < 2]_vars
OnlyWhenOwed       == [][(out' = SKPW /\ in'.w # SKPW) => (owed >= 2 /\ in'.idle)]_vars
=============================================================================
