#!/usr/bin/env python3
"""Print the prompt for an independent 'seeded change' sub-agent: property text + scratch worktree only."""
import json, sys, subprocess, os
pid, n = sys.argv[1], sys.argv[2]
wt = "/tmp/seedwt-%s-%s" % (pid, n)
for l in open("/verif/properties.jsonl"):
    p = json.loads(l)
    if p["id"] == pid:
        break
if not os.path.exists(wt):
    subprocess.run(["git", "-C", "/repo", "worktree", "add", "--detach", "-q", wt, "HEAD"], check=True)
hint = sys.argv[3] if len(sys.argv) > 3 else ""
print(f"""You are helping to evaluate a verification framework by producing ONE realistic, subtle, property-breaking change ("seeded defect") to the LUNA USB gateware library (greatscottgadgets/luna: Amaranth HDL in Python).

Your scratch copy of the repository is a git worktree at {wt} (work ONLY there; do not read or write anything under /verif, /repo or other /tmp/seedwt-* directories; do not commit). Run Python with /venv/bin/python and make the scratch copy importable with `sys.path.insert(0, "{wt}")` / `PYTHONPATH={wt}` (check `luna.__file__` starts with {wt}). The existing test-suite is run with: cd {wt} && PYTHONPATH={wt} /venv/bin/python -m pytest -q -p no:cacheprovider tests/   (93 tests, all must still pass with your change). Every shell command prints a harmless 'WARNING conda.cli.condarc' line. Simulation API is amaranth 0.5.9 `amaranth.sim` (Simulator(dut); sim.add_clock(period, domain=...); sim.add_testbench(async fn(ctx)) with ctx.set/ctx.get/await ctx.tick(domain)); tests/ and luna/gateware/test/ show how modules are driven (older generator-style helpers).

THE PROPERTY your change must break:
  id: {p['id']}
  title: {p['title']}
  statement: {p['statement']}
  quantified over: {p['quantifier']['text']}
  code anchors: {', '.join(p['anchors']['files'])}; mechanisms: {'; '.join(m['name'] + ' @ ' + m.get('where','') for m in p['anchors']['mechanism'])}

WHAT TO PRODUCE
 1. A small source change (typically 1–6 lines, in the anchored files or code they depend on) that makes the property FALSE for some inputs/schedules/histories, while the code still imports, elaborates and passes the whole existing test-suite. It must look like a plausible engineering mistake or over-eager optimisation (off-by-one, wrong/missing gating term, a condition evaluated a cycle early/late, a counter width, a missing reset of a register on one path, a swapped signal, an edge case dropped), NOT sabotage that ordinary use exposes at once. Prefer a change that needs something SPECIFIC to manifest: a particular interleaving or stall pattern, a fault/abort at a particular point, a multi-step sequence of operations, an unusual length/value/configuration, or two cooperating sites that each look fine alone. {hint}
 2. A demonstration: a self-contained script {wt}/demo_{pid}.py (run as `/venv/bin/python demo_{pid}.py <path-to-tree>`; it must insert that path at sys.path[0] before importing luna) that drives the real module(s) in amaranth.sim with the specific triggering scenario and checks the property's observable statement; it must exit 0 (print PASS) on the UNCHANGED tree and exit 1 (print FAIL and what was observed vs expected) on the tree with your change. Verify both: unchanged tree = /repo (read-only use as an import path is fine: `/venv/bin/python demo_{pid}.py /repo`), changed tree = {wt}.
 3. Leave the change applied in the worktree (uncommitted), and write {wt}/patch.diff (`git -C {wt} diff -- luna > {wt}/patch.diff`, source change only, without the demo) and {wt}/meta.json with keys: property, summary (what was changed), needs (what specific input/schedule/history is needed for it to manifest), why_tests_pass (why the existing suite does not notice), demo_cmd.
Before finishing, re-run the test-suite in the worktree with the change applied and confirm 93 passed; confirm demo PASS on /repo and FAIL on {wt}. Final message: the summary, the diff, and the outputs of those three runs.""")
