--------------------------- MODULE PacketTxTrace ---------------------------
(***************************************************************************)
(* Trace validation for PacketTx (C36).  A trace is a list of records:     *)
(* e = "cyc": one clock cycle of the real transmitter (RawPacketTransmitter *)
(* alone, or DataPacketTransmitter + PacketTransmitter), e = "rx": what    *)
(* the real RawHeaderPacketReceiver / DataPacketReceiver reported after    *)
(* the words of the packet just sent were replayed into them.              *)
(***************************************************************************)
EXTENDS PacketTx, TLC, TLCExt, Json, IOUtils

Logs == JsonDeserialize(IOEnv.TRACE_FILE)

VARIABLES x, tid, l, status,
          jv      \* verdict/successor record of the step (assigned once, so Judge is evaluated once)
tvars == <<x, tid, l, status, jv>>

ASSUME \A i \in 1..Len(Logs) : TLCSet(i, <<0, "ok">>)
ASSUME Crc5TableOk
ASSUME Crc32StreamOk

TInit == /\ x = TxInit
         /\ tid \in 1..Len(Logs)
         /\ l = 1
         /\ status = "ok"
         /\ jv = <<>>

TNext == /\ status = "ok"
         /\ l <= Len(Logs[tid])
         /\ \E c \in {StartCrc(x, Logs[tid][l])} : \E y \in {EffOf(x, Logs[tid][l], c)} : jv' = JudgeE(x, y, Logs[tid][l])
         /\ status' = IF jv'.f # "ok" THEN jv'.f
                       ELSE IF l = Len(Logs[tid]) /\ jv'.n.st # "idle" THEN "end_packet_incomplete" ELSE "ok"
         /\ x' = jv'.n
         /\ l' = l + 1
         /\ UNCHANGED tid

TSpec == TInit /\ [][TNext]_tvars

Verdict == status
Progress == TLCSet(tid, <<l - 1, Verdict>>) /\ Verdict = "ok"

Verdicts == JsonSerialize(IOEnv.VERDICT_FILE, [i \in 1..Len(Logs) |-> TLCGet(i)])
=============================================================================
