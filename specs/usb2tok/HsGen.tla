-------------------------------- MODULE HsGen --------------------------------
(***************************************************************************)
(* USBHandshakeGenerator (property C04, generator half).                   *)
(* Grain: one step = one clock cycle of the "usb" domain.                  *)
(*  Env : the three request strobes (any combination, any cycle - also     *)
(*        while a handshake is in flight) and the PHY's tx_ready (any      *)
(*        pattern).                                                        *)
(*  Ref : idle / pending / sending.  A request seen while idle is          *)
(*        accepted; 1..GLat cycles later tx_valid rises with the PID byte  *)
(*        of one of the requested kinds (which one, if several were strobed   *)
(*        together, is left free - the property is silent); tx_valid and   *)
(*        the byte are held until a cycle with tx_ready; the next cycle    *)
(*        tx_valid is low again (one-byte packet) and the generator is     *)
(*        idle.  Requests while pending/sending have no effect.            *)
(*  Prop: over ghost logs: one packet per accepted request, carrying one   *)
(*        of its PIDs with a correct check nibble; nothing else is sent.   *)
(***************************************************************************)
EXTENDS Naturals, Sequences, FiniteSets

CONSTANT GLat        \* tx_valid rises at most GLat cycles after the request cycle

VARIABLES st,        \* "idle" | "pending" | "sending"
          kinds,     \* pending: the kinds requested together
          age,       \* pending: cycles since the request
          byte,      \* sending: the byte on tx_data
          in, out,   \* inputs / outputs of the cycle that led to this state
          reqLog,    \* ghost: accepted requests (sets of kinds), in order
          sentLog    \* ghost: bytes accepted by the PHY, in order

vars == <<st, kinds, age, byte, in, out, reqLog, sentLog>>

Kinds == {"ack", "nak", "stall"}
HsPid(k)  == CASE k = "ack" -> 2 [] k = "nak" -> 10 [] k = "stall" -> 14          \* [USB2.0 Table 8-1]
HsByte(k) == HsPid(k) + 16 * (15 - HsPid(k))                                       \* PID + complemented check nibble
BytesOf(ks) == {HsByte(k) : k \in ks}

Requested(i) == {k \in Kinds : i[k]}

\* first violated clause of the observation relation for inputs i and observed outputs o ("ok" if allowed)
OutViolation(i, o) ==
    IF st = "sending" THEN
        IF ~o.valid THEN "tx_valid_dropped_before_accepted"
        ELSE IF o.data # byte THEN "tx_data_changed_while_waiting"
        ELSE "ok"
    ELSE IF st = "idle" THEN
        (IF o.valid THEN "tx_valid_while_idle" ELSE "ok")    \* (a request is answered from the next cycle on)
    ELSE \* pending
        IF o.valid THEN (IF o.data \in BytesOf(kinds) THEN "ok" ELSE "wrong_handshake_byte")
        ELSE IF age >= GLat THEN "handshake_not_started"
        ELSE "ok"

Init == /\ st = "idle" /\ kinds = {} /\ age = 0 /\ byte = 0
        /\ in = [ack |-> FALSE, nak |-> FALSE, stall |-> FALSE, ready |-> FALSE, rst |-> FALSE]
        /\ out = [valid |-> FALSE, data |-> 0]
        /\ reqLog = <<>> /\ sentLog = <<>>

\* i.rst: the reset of the generator's clock domain is asserted in this cycle (acts at the clock edge ending it; the
\* outputs of the cycle itself are the ordinary ones).  Afterwards the generator is idle: a handshake in flight is
\* abandoned (tx_valid low), a request strobed in the reset cycle is lost, later requests are served as usual.
StepNormal(i, o) ==
    LET accepted == o.valid /\ i.ready                      \* the PHY takes the byte in this cycle
        newreq   == st = "idle" /\ Requested(i) # {}
    IN /\ in' = i /\ out' = o
       /\ st' = IF o.valid THEN (IF accepted THEN "idle" ELSE "sending")
                ELSE IF st = "pending" \/ newreq THEN "pending" ELSE "idle"
       /\ kinds' = IF o.valid THEN {} ELSE IF st = "pending" THEN kinds ELSE Requested(i)
       /\ age' = IF o.valid THEN 0 ELSE IF st = "pending" THEN age + 1 ELSE IF newreq THEN 1 ELSE 0
       /\ byte' = IF o.valid /\ ~accepted THEN o.data ELSE 0
       /\ reqLog' = IF newreq THEN Append(reqLog, Requested(i)) ELSE reqLog
       /\ sentLog' = IF accepted THEN Append(sentLog, o.data) ELSE sentLog

StepReset(i, o) == /\ in' = i /\ out' = o
                   /\ st' = "idle" /\ kinds' = {} /\ age' = 0 /\ byte' = 0
                   /\ reqLog' = <<>> /\ sentLog' = <<>>              \* (the history restarts with a reset)

Step(i, o) == IF i.rst THEN StepReset(i, o) ELSE StepNormal(i, o)

-----------------------------------------------------------------------------
(* Prop *)
Busy == st # "idle"

\* exactly one packet per request accepted while idle (the one in flight counts for its request)
OnePacketPerRequest == Len(sentLog) + (IF Busy THEN 1 ELSE 0) = Len(reqLog)

\* the n-th packet is a single byte: the PID of a kind asked for by the n-th request, check nibble correct
PacketMatchesRequest ==
    \A n \in 1..Len(sentLog) :
        /\ sentLog[n] \in BytesOf(reqLog[n])
        /\ (sentLog[n] % 16) + (sentLog[n] \div 16) = 15

\* the byte is held (tx_valid high, data stable) until the PHY accepts it
HeldUntilAccepted == [][(st = "sending" /\ st' = "sending") => (out'.valid /\ out'.data = byte /\ byte' = byte)]_vars

\* a single-byte packet: the cycle after the accepted one has tx_valid low
SingleByte == [][(out.valid /\ in.ready) => ~out'.valid]_vars

\* requests while busy change nothing
BusyIgnoresRequests == [][(Busy /\ ~in'.rst) => reqLog' = reqLog]_vars

\* a domain reset returns the generator to idle
ResetIdles == [][in'.rst => st' = "idle"]_vars

NeverLate == st = "pending" => age <= GLat
=============================================================================
