---------------------------- MODULE MCUsb2Stack ----------------------------
(* Bounded instance of Usb2Stack: host, FPGA-side streams, the PHY's measurements AND the device's answers at the  *)
(* PHY boundary are all nondeterministic.  A bulk transaction is played packet by packet (token, data packet,      *)
(* device packet, host handshake) and committed as the UsbSerial transaction the harness would record; a device    *)
(* packet is enabled only if every PHY-boundary clause and the transaction clause accept it.  TLC checks that this *)
(* allowed-answer relation implies UsbSerial's exactly-once / in-order theorems and the PHY-boundary theorems:     *)
(* nothing is transmitted unsolicited, the bytes the host read are exactly the bytes that crossed the PHY in       *)
(* well-formed packets inside the response window.                                                                 *)
EXTENDS Usb2Stack, TLC

CONSTANTS Bytes, MaxLog

C == [phy |-> "ulpi", speed |-> "fs", lat |-> 2]

Payloads == UNION {[1..n -> Bytes] : n \in 0..MaxPkt}
Beats == {<<b, l>> : b \in Bytes, l \in BOOLEAN}
Addrs == {0, 5}

\* candidate device packets at the PHY boundary: good and damaged ones, early / in-window / late, PHY-blocked
Crc(p) == <<Usb2Crc16Lo(p), Usb2Crc16Hi(p)>>
Shapes == {[cmd |-> 64 + n, bytes |-> <<>>] : n \in {PID_ACK, PID_NAK, PID_STALL, PID_NYET, 0, 5}}
          \cup {[cmd |-> 64 + n, bytes |-> p \o Crc(p)] : n \in DataPids, p \in Payloads}
          \cup {[cmd |-> 64 + PID_DATA0, bytes |-> <<1, 0, 0>>], [cmd |-> 64 + PID_ACK, bytes |-> <<0>>],
                [cmd |-> 128 + PID_ACK, bytes |-> <<>>], [cmd |-> 64 + PID_DATA1, bytes |-> <<7>>]}
Timings == {[gap |-> 9, blk |-> 0], [gap |-> 10, blk |-> 0], [gap |-> 34, blk |-> 0], [gap |-> 35, blk |-> 0],
            [gap |-> 40, blk |-> 6], [gap |-> 40, blk |-> 5]}
Mk(s, t, lag, drv) == [cmd |-> s.cmd, bytes |-> s.bytes, stp_lag |-> lag, stp_data |-> 0, gap |-> t.gap, blk |-> t.blk, dirdrv |-> drv]
DevPkts == {Mk(s, t, 1, 0) : s \in Shapes, t \in Timings} \cup {Mk(s, [gap |-> 12, blk |-> 0], 2, 0) : s \in Shapes}
           \cup {Mk(s, [gap |-> 12, blk |-> 0], 1, 1) : s \in Shapes}
\* state-independent clauses are evaluated once (constant-level, cached by TLC): intact at the PHY, well-formed, in the window
GoodPkts == {d \in DevPkts : PhyFail(C, d) = "ok" /\ PacketFail(C, WireBytes(C, d)) = "ok" /\ TimeFail(C, d) = "ok"}
ASSUME GoodPkts # {} /\ GoodPkts # DevPkts
\* exactly the 17 well-formed shapes (ACK, NAK, STALL, 2 x 7 data packets with their CRC16) at the 3 in-window timings survive:
\* NYET at full speed, NOPID, a SOF PID, wrong CRC16, handshake with a body, a register-write command, a data packet without
\* CRC, gap 9 (early), 35 (late), 40 of which only 5 are the PHY's own (late), STP one cycle late, bus clash are all rejected
ASSUME Cardinality(GoodPkts) = 17 * 3
ASSUME \A d \in GoodPkts : d.gap >= 10 /\ d.gap - d.blk <= 34 /\ d.stp_lag = 1 /\ d.dirdrv = 0 /\ d.cmd \div 16 = 4

VARIABLES cur,      \* the transaction in progress at the PHY boundary
          act,      \* Env side of the last committed step (for replay into the real stack)
          nSol, nDev,   \* ghost: solicitations issued / device packets seen
          wireIn        \* ghost: payload bytes of device DATA packets the host acknowledged, as seen at the PHY
mcvars == <<svars, cur, act, nSol, nDev, wireIn>>

Idle == [ph |-> "idle"]
Ghost(s, d, w) == nSol' = nSol + s /\ nDev' = nDev + d /\ wireIn' = wireIn \o w

DoTx   == /\ cur.ph = "idle"
          /\ \E b \in Beats : TxBeatsFail(<<b>>) = "ok" /\ TxBeats(<<b>>) /\ act' = [e |-> "tx", beat |-> b]
          /\ UNCHANGED <<wvars, cur>> /\ Ghost(0, 0, <<>>)
DoRx   == /\ cur.ph = "idle"
          /\ \E n \in 1..2 : n <= Held /\ LET bs == SubSeq(hostWritten, Len(rxDelivered) + 1, Len(rxDelivered) + n)
                                          IN RxBeatsFail(bs) = "ok" /\ RxBeats(bs) /\ act' = [e |-> "rx", n |-> n]
          /\ UNCHANGED <<wvars, cur>> /\ Ghost(0, 0, <<>>)

\* --- host packets ---------------------------------------------------------------------------------------------
HostTokenOut == /\ cur.ph = "idle"
                /\ \E a \in Addrs, ok \in BOOLEAN :
                      /\ HostPkt([kind |-> "tok", pid |-> "OUT", addr |-> a, ep |-> 4, crc_ok |-> ok])
                      /\ cur' = [ph |-> "out_tok", addr |-> a, tokok |-> ok]
                /\ UNCHANGED act /\ Ghost(0, 0, <<>>)
HostData == /\ cur.ph = "out_tok"
            /\ \E t \in {0, 1}, p \in Payloads, ok \in BOOLEAN :
                  /\ (cur.tokok /\ ok) \/ (p = <<0>> /\ t = outTog)      \* damaged token / data packet: one representative
                  /\ HostPkt([kind |-> "data", pid |-> "DATA", addr |-> 0, ep |-> 0, crc_ok |-> ok])
                  /\ cur' = [ph |-> "out_data", addr |-> cur.addr, tokok |-> cur.tokok, tog |-> t, payload |-> p, crcok |-> ok]
                  /\ Ghost(IF sol' = "hs" THEN 1 ELSE 0, 0, <<>>)
            /\ UNCHANGED act
HostTokenIn == /\ cur.ph = "idle"
               /\ \E a \in Addrs :
                     /\ HostPkt([kind |-> "tok", pid |-> "IN", addr |-> a, ep |-> 4, crc_ok |-> TRUE])
                     /\ cur' = [ph |-> "in_tok", addr |-> a]
                     /\ Ghost(IF sol' = "in" THEN 1 ELSE 0, 0, <<>>)
               /\ UNCHANGED act
HostSof == /\ cur.ph = "idle"
           /\ HostPkt([kind |-> "sof", pid |-> "SOF", addr |-> 0, ep |-> 0, crc_ok |-> TRUE])
           /\ UNCHANGED <<cur, act>> /\ Ghost(0, 0, <<>>)

\* --- the device's answer at the PHY boundary: any packet every clause accepts ---------------------------------------
\* (an OUT token with a damaged CRC5 is reported by the harness as a transaction to nobody: the device must stay silent)
EffAddr == IF cur.ph = "out_data" /\ ~cur.tokok THEN 127 ELSE cur.addr
HsName(p) == IF p = PID_ACK THEN "ACK" ELSE IF p = PID_NAK THEN "NAK" ELSE IF p = PID_STALL THEN "STALL" ELSE "NYET"
Done(r) == [ph |-> "out_done", addr |-> cur.addr, tokok |-> cur.tokok, tog |-> cur.tog, payload |-> cur.payload,
            crcok |-> cur.crcok, resp |-> r]
DevAnswersOut ==
    /\ cur.ph = "out_data"
    /\ \E d \in GoodPkts :
          /\ SolFail(WireBytes(C, d)) = "ok"
          /\ OutFail(EffAddr, cur.tog, cur.payload, cur.crcok, HsName(d.cmd % 16)) = "ok"
          /\ DevPkt(C, d)
          /\ cur' = Done(HsName(d.cmd % 16))
    /\ UNCHANGED act /\ Ghost(0, 1, <<>>)
DevSilentOut ==
    /\ cur.ph = "out_data"
    /\ OutFail(EffAddr, cur.tog, cur.payload, cur.crcok, "none") = "ok"
    /\ cur' = Done("none")
    /\ UNCHANGED <<svars, act>> /\ Ghost(0, 0, <<>>)
CommitOut ==
    /\ cur.ph = "out_done"
    /\ OutWireFail(cur.resp) = "ok"
    /\ Out(EffAddr, cur.tog, cur.payload, cur.crcok, cur.resp) /\ Consumed
    /\ act' = [e |-> "out", addr |-> EffAddr, tog |-> cur.tog, payload |-> cur.payload, crc_ok |-> cur.crcok]
    /\ cur' = Idle /\ Ghost(0, 0, <<>>)

RespOf(d) == LET p == d.cmd % 16 IN
             IF p \in DataPids THEN [kind |-> "data", pid |-> IF p = PID_DATA1 THEN 1 ELSE 0,
                                     payload |-> SubSeq(d.bytes, 1, Len(d.bytes) - 2)]
             ELSE [kind |-> HsName(p), pid |-> 0, payload |-> <<>>]
DevAnswersIn ==
    /\ cur.ph = "in_tok"
    /\ \E d \in GoodPkts :
          /\ SolFail(WireBytes(C, d)) = "ok"
          /\ InFail(cur.addr, RespOf(d), FALSE) = "ok"
          /\ DevPkt(C, d)
          /\ cur' = [ph |-> "in_resp", addr |-> cur.addr, resp |-> RespOf(d)]
    /\ UNCHANGED act /\ Ghost(0, 1, <<>>)
DevSilentIn ==
    /\ cur.ph = "in_tok"
    /\ InFail(cur.addr, [kind |-> "none", pid |-> 0, payload |-> <<>>], FALSE) = "ok"
    /\ cur' = [ph |-> "in_resp", addr |-> cur.addr, resp |-> [kind |-> "none", pid |-> 0, payload |-> <<>>]]
    /\ UNCHANGED <<svars, act>> /\ Ghost(0, 0, <<>>)
\* the host acknowledges a data packet (handshake crosses the PHY) or its ACK is lost / not sent
HostAckIn ==
    /\ cur.ph = "in_resp" /\ cur.resp.kind = "data"
    /\ sol' = "none" /\ tok' = "none" /\ UNCHANGED bus
    /\ InWireFail(cur.resp) = "ok"
    /\ In(cur.addr, cur.resp, TRUE) /\ pk' = <<>>
    /\ act' = [e |-> "in", addr |-> cur.addr, host_ack |-> TRUE]
    /\ cur' = Idle /\ Ghost(0, 0, cur.resp.payload)
CommitInNoAck ==
    /\ cur.ph = "in_resp"
    /\ InWireFail(cur.resp) = "ok"
    /\ In(cur.addr, cur.resp, FALSE) /\ Consumed
    /\ act' = [e |-> "in", addr |-> cur.addr, host_ack |-> FALSE]
    /\ cur' = Idle /\ Ghost(0, 0, <<>>)

DoSetAddr == /\ cur.ph = "idle" /\ pk = <<>>
             /\ \E a \in Addrs : LET q == [type |-> 0, recipient |-> 0, dirin |-> FALSE, request |-> 5, value |-> 5, index |-> 0, length |-> 0]
                                 IN /\ CtlFail(a, q, "ok", <<>>, 0, 0) = "ok" /\ Ctl(a, q, "ok", <<>>)
                                    /\ act' = [e |-> "ctl", addr |-> a, req |-> q]
             /\ UNCHANGED <<wvars, cur>> /\ Ghost(0, 0, <<>>)

\* a bus reset between two transactions (active or suspended device, either resulting speed): address / configuration 0
DoBusReset == /\ cur.ph = "idle" /\ pk = <<>>
              /\ \E hs \in BOOLEAN : BusReset([hs_host |-> hs])
              /\ act' = [e |-> "reset"]
              /\ UNCHANGED cur /\ Ghost(0, 0, <<>>)

Next == \/ DoBusReset \/ DoTx \/ DoRx \/ HostTokenOut \/ HostData \/ HostTokenIn \/ HostSof
        \/ DevAnswersOut \/ DevSilentOut \/ CommitOut
        \/ DevAnswersIn \/ DevSilentIn \/ HostAckIn \/ CommitInNoAck \/ DoSetAddr
\* behaviour generator for spec -> code replay (tlc -simulate): everything but bus resets (after a reset the data path
\* is outside the trace specification's Env)
NextSim == \/ DoTx \/ DoRx \/ HostTokenOut \/ HostData \/ HostTokenIn \/ HostSof
           \/ DevAnswersOut \/ DevSilentOut \/ CommitOut
           \/ DevAnswersIn \/ DevSilentIn \/ HostAckIn \/ CommitInNoAck \/ DoSetAddr
InitMC == SInit /\ cur = Idle /\ act = [e |-> "init"] /\ nSol = 0 /\ nDev = 0 /\ wireIn = <<>>
Spec == InitMC /\ [][Next]_mcvars
SpecSim == InitMC /\ [][NextSim]_mcvars

\* `bus` (negotiated speed, fresh-after-reset flag) influences no action of this model: hidden from the state identity
View == <<vars, sol, tok, pk, cur, nSol - nDev, wireIn>>
\* C08 through the stack: the address is 0 right after every bus reset (action property)
ResetClears == [][(act' = [e |-> "reset"] /\ act' # act) => (addr' = 0 /\ cfg' = 0)]_mcvars
Bounded == Len(hostWritten) <= MaxLog /\ Len(txOffered) <= MaxLog

-----------------------------------------------------------------------------
(* Theorems *)
\* C20 at the PHY boundary: never more device packets than solicitations, and none outstanding while idle
SolicitedOnly == nDev <= nSol /\ (sol # "none" => nDev < nSol)
\* C57 through the PHY: what the host read is exactly what crossed the PHY boundary in acknowledged DATA packets
HostReadCrossedThePhy == hostRead = wireIn
\* a transaction record is never committed with device packets left unexplained
NothingUnreported == cur.ph = "idle" => pk = <<>>
\* non-vacuity witness (expected to be violated; checked by a separate configuration)
NeverDrained == ~(cur.ph = "idle" /\ EndFail = "ok" /\ Len(hostRead) >= 2 /\ Len(rxDelivered) >= 2)
=============================================================================
