"""Driving real LUNA modules in amaranth.sim and recording traces."""
import warnings

from amaranth.sim import Simulator

warnings.filterwarnings("ignore", category=RuntimeWarning)


class CycleDriver:
    """Drive a synchronous DUT cycle by cycle, many traces on one elaborated design.

    inputs  : {name: Signal}    set at the start of each cycle from the stimulus record
    outputs : {name: Signal}    sampled after the inputs settled, *before* the clock edge
    A stimulus is a list of dicts {name: int}; missing inputs keep their previous value.
    Returns a list of records: inputs of the cycle merged with the observed outputs.
    """

    def __init__(self, dut, inputs, outputs, domain="sync", clocks=None, bool_outputs=(), bool_inputs=()):
        self.dut = dut
        self.inputs = inputs
        self.outputs = outputs
        self.domain = domain
        self.bool_outputs = set(bool_outputs)
        self.bool_inputs = set(bool_inputs)
        self.sim = Simulator(dut)
        clocks = clocks or {domain: 1e-6}
        try:
            for dom, period in clocks.items():
                self.sim.add_clock(period, domain=dom)
        except NameError:
            # this configuration of the DUT has no register in the domain (purely combinational): give every
            # domain a free-running dummy register so that time can advance; the DUT itself is unchanged
            from amaranth import Module, Signal
            top = Module()
            top.submodules.dut = dut
            for dom in clocks:
                tick = Signal(name="verif_tick_" + dom)
                top.d[dom] += tick.eq(~tick)
            self.sim = Simulator(top)
            for dom, period in clocks.items():
                self.sim.add_clock(period, domain=dom)
        self._stim = None
        self._rec = None
        self._first = True
        self.cycles = 0
        self.sim.add_testbench(self._bench)

    async def _bench(self, ctx):
        stim = self._stim
        rec = []
        ins = self.inputs
        outs = self.outputs
        for step in stim:
            for k, v in step.items():
                if k in ins:
                    ctx.set(ins[k], int(v))
            r = {}
            for k, s in ins.items():
                v = ctx.get(s)
                r[k] = bool(v) if k in self.bool_inputs else int(v)
            for k, s in outs.items():
                v = ctx.get(s)
                r[k] = bool(v) if k in self.bool_outputs else int(v)
            rec.append(r)
            await ctx.tick(self.domain)
        self.cycles += len(stim)
        self._rec = rec

    def run(self, stimulus):
        self._stim = stimulus
        self._rec = None
        if not self._first:
            self.sim.reset()
        self._first = False
        self.sim.run()
        return self._rec


def internal_signals(sim):
    """Map hierarchical name -> Signal for every signal of the simulator's elaborated design."""
    out = {}
    for frag, info in sim._design.fragments.items():
        prefix = ".".join(info.name)
        for sig, name in info.signal_names.items():
            out[prefix + "." + name] = sig
    return out
