------------------------------ MODULE SimSpiDev ------------------------------
(* Behaviour generator for spec -> code replay (tlc -simulate): the same cycles, host rules and *)
(* reference as MCSpiDev, but the host follows a `plan` drawn when CS is asserted (how many more *)
(* sample edges it will clock before releasing CS) and does not dither: a quiet cycle is only    *)
(* taken when a transition is not legal yet or when it changes SDI / word_out.  A plain random   *)
(* walk over MCSpiDev!Next almost never clocks a whole word of more than one bit; this one       *)
(* produces multi-word assertions and aborts after every number of edges.                        *)
EXTENDS MCSpiDev

VARIABLE plan      \* sample edges still to be clocked under the current CS assertion

svars == <<vars, plan>>

SimInit == Init /\ plan = 0

CanMove == sckq /\ csq /\ wq                  \* any transition is legal in the next cycle
Changing == \E d \in {0, 1}, w \in WoutAlpha :
               /\ (d # in.sdi \/ w # in.wout)
               /\ Do([in EXCEPT !.sdi = d, !.wout = w])
Waiting == ~CanMove /\ Do(in)

SimNext ==
    \/ /\ ~in.cs /\ in.sck = cpol /\ Select
       /\ plan' \in 0..(3 * WS + 1)
    \/ /\ ~in.cs /\ in.sck # cpol /\ ForeignClock /\ UNCHANGED plan         \* return SCK to idle after an abort
    \/ /\ in.cs /\ plan > 0
       /\ \/ Sample /\ plan' = plan - 1
          \/ Shift /\ UNCHANGED plan
    \/ /\ in.cs /\ plan = 0 /\ Deselect /\ UNCHANGED plan
    \/ /\ (Changing \/ Waiting) /\ UNCHANGED plan

SimSpec == SimInit /\ [][SimNext]_svars
=============================================================================
