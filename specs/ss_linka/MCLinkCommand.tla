--------------------------- MODULE MCLinkCommand ---------------------------
(* Bounded instance of LinkCommand: every Env schedule of the composition   *)
(* generator -> corrupting channel -> detector within the bounds.           *)
EXTENDS LinkCommand, TLC

CONSTANTS Cmds, Subs,        \* command / sub-type values the Env may request
          Corrs,             \* corruption codes the channel may apply (subset of 0..52)
          MaxCmds,           \* commands per behaviour
          InjWords,          \* words the Env may inject directly into the detector
          CheckStatic        \* evaluate the static wire-format theorems in this run (they do not depend on the bounds)

VARIABLES s,     \* composite Ref state
          in     \* the cycle record that led to this state (Env inputs and Ref-allowed outputs)
vars == <<s, in>>

NoRec == [gen |-> FALSE, cmd |-> 0, sub |-> 0, rdy |-> FALSE, corr |-> 0, ow |-> NoWord, done |-> FALSE,
          src |-> "none", iw |-> NoWord, nc |-> FALSE, dcmd |-> 0, dsub |-> 0, dcls |-> 0, dtyp |-> 0]

Init == s = CompInit /\ in = NoRec

\* detector-side choices of a cycle: input source and whether the owed report is shown now
DetChoices ==
    LET srcs == {<<"none", NoWord>>}
                \cup (IF s.chan # <<>> THEN {<<"chan", s.chan[1].w>>} ELSE {})
                \cup {<<"inj", x>> : x \in InjWords}
    IN {[src |-> c[1], iw |-> c[2], nc |-> n] : c \in srcs, n \in (IF s.t.pend # <<>> THEN Bool ELSE {FALSE})}

Cycle(gen, cmd, sub, rdy, corr) ==
    \E ow \in GenOutputs(s.g), dc \in DetChoices :
       LET p == IF dc.nc THEN s.t.pend[1] ELSE [cmd |-> 0, sub |-> 0]
           r == [gen |-> gen, cmd |-> cmd, sub |-> sub, rdy |-> rdy,
                 corr |-> IF s.g.st = "cmd" /\ rdy THEN corr ELSE 0,
                 ow |-> ow, done |-> (s.g.st = "cmd" /\ rdy),
                 src |-> dc.src, iw |-> dc.iw, nc |-> dc.nc,
                 dcmd |-> p.cmd, dsub |-> p.sub, dcls |-> p.cmd \div 4, dtyp |-> p.cmd % 4]
       IN /\ CompFailing(s, r) = "ok"
          /\ s' = CompNext(s, r)
          /\ in' = r

\* generator idle and not asked
Quiet   == s.g.st = "idle" /\ \E rdy \in Bool : Cycle(FALSE, 0, 0, rdy, 0)
\* a request is accepted
Request == s.g.st = "idle" /\ Len(s.sent) < MaxCmds
           /\ \E c \in Cmds, u \in Subs, rdy \in Bool : Cycle(TRUE, c, u, rdy, 0)
\* header / command phases; generate may stay asserted (it must be ignored), inputs may change
SendHdr == s.g.st = "hdr" /\ \E gen \in Bool, rdy \in Bool : Cycle(gen, (s.g.cmd + 5) % 16, 0, rdy, 0)
SendCmd == s.g.st = "cmd" /\ \E gen \in Bool, rdy \in Bool, k \in Corrs : Cycle(gen, 0, (s.g.sub + 3) % 16, rdy, k)

Next == Quiet \/ Request \/ SendHdr \/ SendCmd
Spec == Init /\ [][Next]_vars

-----------------------------------------------------------------------------
RoundTripInv == RoundTrip(s)
\* nothing is ever reported that was not an acceptable command word following LCSTART
ReportsBounded == Len(s.reports) <= s.njudged + (IF s.injected THEN 1000 ELSE 0)
\* a report is shown within the latency bound
OwedIsYoung == s.t.pend = <<>> \/ s.t.pend[1].age < MaxReportLat
TypeOK == /\ s.g.st \in {"idle", "hdr", "cmd"}
          /\ Len(s.chan) <= 2 * MaxCmds
          /\ s.njudged <= Len(s.sent)

\* static wire-format theorems: all 16 x 16 commands, all 36 single-bit and 16 both-copy corruptions
ASSUME CheckStatic => \A c \in 0..15, u \in 0..15 : WireFormatOk(c, u)
ASSUME Crc5TableOk
ASSUME CheckStatic => \A c \in 0..15, u \in 0..15 : AllCorruptionsRejected(c, u)
=============================================================================
