#!/venv/bin/python
"""Regenerate /verif/MANIFEST.json from the bindings' META tables (single source of truth)."""
import json
import os
import sys

VERIF = os.path.dirname(os.path.dirname(os.path.abspath(__file__)))
sys.path.insert(0, VERIF)
from harness import registry  # noqa: E402

BASELINE_OFF = "cd /repo && env -u LUNA_VERIF /venv/bin/python -m pytest -ra -q -p no:cacheprovider --timeout=900 --continue-on-collection-errors"


def main():
    props = [json.loads(l) for l in open(os.path.join(VERIF, "properties.jsonl"))]
    meta = registry.all_meta()
    na_reasons = {}
    p = os.path.join(VERIF, "tools", "not_applicable.json")
    if os.path.exists(p):
        na_reasons = json.load(open(p))
    claimed = set(json.load(open(os.path.join(VERIF, "tools", "claimed.json"))))   # integrated (committed) checks only
    checks = []
    na = []
    import importlib
    enabled = registry._enabled_extras()
    comp = {}          # property -> [composition engines contributing an EXTRA sub-check]
    comp_engines = {}
    for name in registry._modules():
        if name in registry.BROKEN or (enabled is not None and name not in enabled):
            continue
        mod = importlib.import_module("harness.bindings." + name)
        ex = getattr(mod, "EXTRA", {})
        if ex:
            comp_engines[name] = sorted(ex)
            for pid in ex:
                comp.setdefault(pid, []).append(name)
    for pr in props:
        pid = pr["id"]
        if pid in meta and pid in claimed:
            m = meta[pid]
            checks.append({
                "property_id": pid,
                "quick_cmd": "./check %s --tier quick" % pid,
                "thorough_cmd": "./check %s --tier thorough" % pid,
                "evidence_file": "/verif/evidence/%s.json" % pid,
                "replay_cmd_template": "./check %s --replay {path}" % pid,
                "engine": m["engine"],
                "level_claimed": {"category": m.get("category", "model_checking"), "text": m["text"],
                                  "design_ref": m.get("design_ref", "DESIGN.md §5 " + pid)},
                "level_note": m["note"],
                "technique": m["technique"] + ("" if pid not in comp else
                    " Additionally the composition engine(s) %s (own TLA+ specification of the composed layers under "
                    "specs/<engine>/, TLC-checked, traces of the real composed gateware validated by TLC) contribute "
                    "sub-checks that run under the same command and report into the same evidence file."
                    % ", ".join(comp[pid])),
            })
        else:
            na.append({"property_id": pid,
                       "reason": na_reasons.get(pid, "no check registered yet: the TLA+ engine for this property "
                                                     "has not been built (see DESIGN.md §5 for the plan)")})
    engines = []
    for e, ps in registry.ENGINES.items():
        ps = [p for p in ps if p in claimed]
        if not ps:
            continue
        engines.append({"name": e, "path": "specs/%s + harness/bindings/%s.py" % (getattr(
            __import__("harness.bindings." + e, fromlist=["SPEC_DIR"]), "SPEC_DIR", e), e),
            "serves_properties": ps,
            "kind_free_text": "TLA+ specification checked by TLC, bound to the gateware by pysim trace validation"})
    for e, ps in sorted(comp_engines.items()):
        engines.append({"name": e, "path": "specs/%s + harness/bindings/%s.py" % (e, e),
                        "serves_properties": [p for p in ps if p in claimed],
                        "kind_free_text": "composition engine: TLA+ specification of several composed LUNA layers checked by "
                                          "TLC, bound to the real composed gateware by pysim trace validation; contributes "
                                          "sub-checks (EXTRA) to properties owned by leaf engines"})
    man = {
        "version": 1,
        "setup_cmd": "./setup.sh",
        "hooks": {"guard": "LUNA_VERIF",
                  "enable": "not needed: traces are recorded from outside through amaranth.sim (checks export LUNA_VERIF=1 for completeness)",
                  "baseline_off_cmd": BASELINE_OFF,
                  "source_commits": [], "add_only": True},
        "engines": engines,
        "checks": checks,
        "not_applicable": na,
        "notes": "Model-based verification with explicit TLA+ specifications (specs/), TLC exhaustive runs on bounded "
                 "models, and conformance in both directions against the real Amaranth gateware simulated with "
                 "amaranth.sim. Exit 0 = held (possibly KNOWN-FINDING lines), 1 = VIOLATION, 2 = machinery ERROR. "
                 "See DESIGN.md.",
    }
    with open(os.path.join(VERIF, "MANIFEST.json"), "w") as f:
        json.dump(man, f, indent=1)
    print("MANIFEST: %d checks, %d not_applicable" % (len(checks), len(na)))


if __name__ == "__main__":
    main()
