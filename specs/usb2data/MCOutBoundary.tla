---------------------------- MODULE MCOutBoundary ----------------------------
(* Bounded instance of OutBoundary: every raw-stream history and strobe placement within the  *)
(* bounds, and every output the relation allows.  Actions are split by the Ref branch taken.   *)
EXTENDS OutBoundary, TLC

CONSTANTS Data,        \* payload alphabet
          MaxLen,      \* bytes per packet
          MaxPkts,     \* packets
          Strobes,     \* subset of {"c", "x"}: which input strobes the environment uses
          MaxResets    \* number of domain resets

VARIABLES npk, nrst
mcvars == <<vars, npk, nrst>>

MCInputs ==
    LET cs == IF "c" \in Strobes THEN BOOLEAN ELSE {FALSE}
        xs == IF "x" \in Strobes THEN BOOLEAN ELSE {FALSE}
    IN  {[v |-> FALSE, n |-> FALSE, p |-> 0, c |-> c, x |-> x] : c \in cs, x \in xs}      \* low (only legal if >= 1 byte)
        \cup (IF in.v \/ (ph = "idle" /\ age >= MinGap /\ npk < MaxPkts)
              THEN {[v |-> TRUE, n |-> FALSE, p |-> 0, c |-> c, x |-> x] : c \in cs, x \in xs} ELSE {})
        \cup (IF (in.v /\ Len(bytes) < MaxLen) \/ (~in.v /\ ph = "idle" /\ age >= MinGap /\ npk < MaxPkts)
              THEN {[v |-> TRUE, n |-> TRUE, p |-> d, c |-> c, x |-> x] : d \in Data, c \in cs, x \in xs} ELSE {})

RightP(i) == IF Nout0(i) + 1 <= Len(Bytes1(i)) THEN Bytes1(i)[Nout0(i) + 1] ELSE 0

MCOutputs(i) ==
    {[v |-> n, n |-> n, p |-> IF n THEN RightP(i) ELSE 0, f |-> n /\ Nout0(i) = 0, l |-> l, c |-> c, x |-> x] :
        n, l, c, x \in BOOLEAN}

Do(i, o) == /\ Legal(i) /\ Failing(i, o) = "ok" /\ Step(i, o)
            /\ npk' = npk + (IF Rise(i) THEN 1 ELSE 0) /\ UNCHANGED nrst

MidBeat     == \E i \in MCInputs : \E o \in MCOutputs(i) : OBeat(o) /\ ~o.l /\ Do(i, o)
LastBeat    == \E i \in MCInputs : \E o \in MCOutputs(i) : OBeat(o) /\ o.l /\ Do(i, o)
CompleteOut == \E i \in MCInputs : \E o \in MCOutputs(i) : o.c /\ Do(i, o)
InvalidOut  == \E i \in MCInputs : \E o \in MCOutputs(i) : o.x /\ Do(i, o)
Quiet       == \E i \in MCInputs : \E o \in MCOutputs(i) : ~OBeat(o) /\ ~o.c /\ ~o.x /\ Do(i, o)

DomainReset == /\ nrst < MaxResets /\ ResetLegal(NoIn)
               /\ \E o \in MCOutputs(NoIn) : Failing(NoIn, o) = "ok" /\ ResetStep(NoIn, o)
               /\ nrst' = nrst + 1 /\ UNCHANGED npk

MCInit == Init /\ npk = 0 /\ nrst = 0
MCNext == MidBeat \/ LastBeat \/ CompleteOut \/ InvalidOut \/ Quiet \/ DomainReset
MCSpec == MCInit /\ [][MCNext]_mcvars
=============================================================================
