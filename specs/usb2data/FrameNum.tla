------------------------------ MODULE FrameNum ------------------------------
(***************************************************************************)
(* C21 -- frame / microframe numbers of USBDevice track the received SOFs. *)
(* Written from the property statement and [USB2.0 8.3.1, 8.3.5, 8.4.3].   *)
(* Grain: one step = one packet seen on the bus (SOF-event grain).          *)
(*                                                                         *)
(*  Env  : `ev.bytes` = the bytes of the packet (any packet: SOFs with any  *)
(*         frame number, with good or bad CRC5, truncated, overlong, bad    *)
(*         PID check; tokens, data, handshakes, garbage).  No bound on how  *)
(*         often a frame number repeats.                                    *)
(*  Ref  : frame, micro.  A well-formed SOF (3 bytes, SOF PID with correct  *)
(*         check nibble, CRC5 correct -- bit-serial CRC5 of CRC.tla) sets   *)
(*         frame to its 11-bit number; micro := 0 if the number changed,    *)
(*         micro + 1 (the 3-bit output counts modulo 8) if it repeats; the  *)
(*         new-frame strobe fires (once) iff                                *)
(*         the number changed; sof_detected fires once.  Any other packet   *)
(*         changes nothing and fires nothing.                               *)
(*         Observed per event: ev.nf / ev.sd = number of cycles new_frame / *)
(*         sof_detected were high during the packet and the idle time after *)
(*         it; ev.frame / ev.micro sampled at the end of that window.       *)
(*  Prop : over the ghost history `hist` of accepted SOF frame numbers.     *)
(***************************************************************************)
EXTENDS Naturals, Sequences, CRC

VARIABLES ev,          \* the last event [bytes, nf, sd, frame, micro]
          frame, micro,
          wf,          \* ghost: the last event was a well-formed SOF (cached: the CRC5 is costly for TLC)
          f0, m0,      \* ghost: initial values
          hist         \* ghost: frame numbers of the well-formed SOFs so far

vars == <<ev, frame, micro, wf, f0, m0, hist>>

SofPidByte == 5 + 16 * (15 - 5)          \* PID 0101, check nibble 1010
WellFormedSof(b) == Len(b) = 3 /\ b[1] = SofPidByte /\ Usb2TokenOk(b[2], b[3])
FrameOf(b) == (b[2] + 256 * b[3]) % 2048

\* the bytes of a SOF for frame f (used by the bounded model; `flip` corrupts one CRC bit)
SofBytes(f, flip) == LET c == Usb2Crc5(f)
                         cc == IF flip = 0 THEN c ELSE IF (c \div (2 ^ (flip - 1))) % 2 = 1 THEN c - 2 ^ (flip - 1) ELSE c + 2 ^ (flip - 1)
                         w == f + 2048 * cc
                     IN <<SofPidByte, w % 256, w \div 256>>

Legal(e) == TRUE                         \* every packet sequence is legal

Failing(e) ==
    IF ~Legal(e) THEN "env_illegal_input"
    ELSE IF WellFormedSof(e.bytes) THEN
        LET f == FrameOf(e.bytes)
            changed == f # frame
        IN IF e.frame # f THEN "frame_number"
           ELSE IF e.micro # (IF changed THEN 0 ELSE (micro + 1) % 8) THEN "microframe_number"
           ELSE IF e.nf # (IF changed THEN 1 ELSE 0) THEN "new_frame_strobe"
           ELSE IF e.sd # 1 THEN "sof_detected_strobe"
           ELSE "ok"
    ELSE IF e.frame # frame THEN "frame_changed_without_sof"
    ELSE IF e.micro # micro THEN "microframe_changed_without_sof"
    ELSE IF e.nf # 0 THEN "new_frame_strobe_without_sof"
    ELSE IF e.sd # 0 THEN "sof_detected_without_sof"
    ELSE "ok"

Step(e) == /\ ev' = e
           /\ frame' = e.frame
           /\ micro' = e.micro
           /\ wf' = WellFormedSof(e.bytes)
           /\ hist' = IF wf' THEN Append(hist, FrameOf(e.bytes)) ELSE hist
           /\ UNCHANGED <<f0, m0>>

NoEv == [bytes |-> <<>>, nf |-> 0, sd |-> 0, frame |-> 0, micro |-> 0]

InitWith(f, m) == /\ frame = f /\ micro = m /\ wf = FALSE /\ f0 = f /\ m0 = m /\ hist = <<>>
                  /\ ev = [NoEv EXCEPT !.frame = f, !.micro = m]

-----------------------------------------------------------------------------
(* Prop *)
Full == <<f0>> \o hist                       \* reported numbers over time, starting with the initial one
RECURSIVE TrailRunAt(_, _)
TrailRunAt(s, k) == IF k <= 1 THEN k ELSE IF s[k] = s[k - 1] THEN 1 + TrailRunAt(s, k - 1) ELSE 1
TrailRun(s) == TrailRunAt(s, Len(s))          \* length of the run of equal elements at the end of s

\* the reported frame number is that of the last well-formed SOF
FrameIsLastSof == frame = Full[Len(Full)]
\* the microframe number counts the SOFs that repeated the current frame number since it last changed
MicroCountsRepeats == micro = (IF TrailRun(Full) = Len(Full) THEN m0 + Len(hist) ELSE TrailRun(Full) - 1) % 8
\* the new-frame strobe of the last event: exactly when it was a well-formed SOF whose number differs from the one before
StrobeIffChange == (ev.nf = 1) <=> (wf /\ Len(Full) >= 2 /\ Full[Len(Full)] # Full[Len(Full) - 1])
StrobeOnce == ev.nf \in {0, 1} /\ ev.sd \in {0, 1} /\ (ev.sd = 1 <=> wf)
TypeOK == frame \in 0..2047 /\ micro \in 0..7
=============================================================================
