"""Engine `usb2ctl` — C06 C07 C08 C10 C20: the control path of a real USBDevice vs specs/usb2ctl/Usb2Ctl.tla.

One transaction-level TLA+ specification (Usb2Ctl.tla: Env = host packets, Ref = address / configuration /
control-transfer record / packet context, Judge = allowed device responses, Step = Ref update chosen by the
observed response) serves the five properties.  Every check
  1. has TLC explore the *complete* reachable state graph of the specification over a finite alphabet of host
     packets and device responses (no bound on the number of transfers or on the interleaving) and check the
     property's theorems on it,
  2. drives the real gateware (a USBDevice over UTMI with a standard control endpoint, a bulk IN and a bulk OUT
     endpoint; for C06 also a stand-alone USBSetupDecoder at full and high speed) with TLC-simulated host
     behaviours and with structured random host behaviours beyond the model's alphabet, and
  3. lets TLC validate every recorded transaction (Usb2CtlTrace.tla).
A rejected trace is a VIOLATION of the property that owns the failing clause (CLAUSE_OWNER); the spec also
reports which known-finding trigger (KF_* predicate) the trace had hit before, which is the `pattern` of the
signature matched against known_findings.d/usb2ctl.json.
"""
import os
import resource
import time

from .. import tlc
from ..core import use_repo
from ..pipeline import validate_group
from ..tlaval import TlaSet

ENGINE = "usb2ctl"
SPEC_DIR = "usb2ctl"

_NOTE = ("Host assumptions (Env): SETUP tokens go to endpoint 0 and their data packet is DATA0; data packets follow a "
         "SETUP/OUT token; the host only ACKs data it was just sent; the status stage of a control read is a DATA1 "
         "ZLP; the host also ACKs data of devices at other addresses (the device sees that ACK, not the token); no further IN after the data stage ended; implemented standard requests are pursued only in their "
         "canonical form [USB2.0 9.4] (a non-canonical one is only checked up to its SETUP ACK). Descriptor contents "
         "are not judged here (engine usb2desc): any payload of legal length passes. Full speed over UTMI (12 MHz "
         "timer table), response window 2..18 bit times. Trusted base: TLC, amaranth.sim, the host/PHY model "
         "(hosts/utmi.py + hosts/usb2dev.py). Exhaustive only for the finite-alphabet model; real-gateware traces are "
         "sampled. Open findings are carved out by the spec's KF_* predicates; their witness stimuli run in the "
         "owning property's check.")

META = {
    "C06": {"text": "TLC proves on the transaction-level specification that a SETUP token arms the decoder for exactly "
                    "the next packet, that this packet is accepted iff it is a CRC-valid 8-byte DATA0, decoded "
                    "little-endian from its bytes alone and ACKed, for every history of tokens, corrupted/short/long/"
                    "truncated data, foreign traffic and resets; the real USBDevice and a stand-alone USBSetupDecoder "
                    "(FS and HS timer tables) are driven with such histories (TLC-generated and random, all 256 byte "
                    "values) and TLC validates every recorded transaction: setup.received strobes, decoded fields, "
                    "exactly one ACK no earlier than the inter-packet gap, no ACK otherwise.",
            "note": _NOTE, "technique": "TLA+ transaction spec, TLC exhaustive + trace validation of pysim traces",
            "design_ref": "DESIGN.md §5 C06"},
    "C07": {"text": "The specification's control-transfer record (setup/data/status stage machine of USB2 8.5.3) is "
                    "explored exhaustively by TLC (any number of transfers, abandoned at any stage, interleaved with "
                    "traffic to other endpoints/addresses) with theorems: data on ep0 only in its stage, status "
                    "direction, fresh transfer after every SETUP, other traffic invisible; the real device is driven "
                    "through complete, repeated and abandoned transfers with interleaved bulk traffic and TLC checks "
                    "every response (DATA/ZLP/ACK/STALL/none, toggles) against the allowed set for the stage.",
            "note": _NOTE, "technique": "TLA+ transaction spec, TLC exhaustive + trace validation of pysim traces",
            "design_ref": "DESIGN.md §5 C07"},
    "C08": {"text": "TLC proves on the specification that address/configuration change only by a bus reset or by the "
                    "host's ACK of the status ZLP of that very SET_ADDRESS/SET_CONFIGURATION (once, with the request's "
                    "value); on the real device the active address/configuration are sampled after every bus packet "
                    "and probed with tokens at old and new address through transfers with lost status ACKs, retried "
                    "status stages, bus resets and interleaved bulk IN transactions, and TLC validates each step.",
            "note": _NOTE, "technique": "TLA+ transaction spec, TLC exhaustive + trace validation of pysim traces",
            "design_ref": "DESIGN.md §5 C08"},
    "C10": {"text": "TLC proves on the specification that an unsupported/unclaimed request is never answered with DATA "
                    "or ACK, changes no state and is STALLed at the first data-stage IN or at the status stage; the "
                    "real device (standard handler + fallback stall handler) receives a sweep of unsupported standard "
                    "requests, CLEAR_FEATURE variants and class/vendor/reserved-type requests in all direction/length "
                    "shapes (incl. requests differing from supported ones only in the type bits) and TLC validates "
                    "every response and the unchanged address/configuration.",
            "note": _NOTE, "technique": "TLA+ transaction spec, TLC exhaustive + trace validation of pysim traces",
            "design_ref": "DESIGN.md §5 C10"},
    "C20": {"text": "Every packet the real device puts on UTMI under mixed control/bulk/foreign/corrupted host traffic "
                    "with random PHY tx_ready stalls and rx_valid gaps is judged by TLC from its raw bytes: a valid "
                    "one-byte handshake or DATA0/1 with bit-serially recomputed CRC16, at most one packet per host "
                    "packet, only after an IN token or a good data packet addressed to the device (theorem Solicited "
                    "on the model), inside the 2..18 bit-time window and never while the host is still sending.",
            "note": _NOTE, "technique": "TLA+ transaction spec, TLC exhaustive + trace validation of pysim traces",
            "design_ref": "DESIGN.md §5 C20"},
}

# which property a failing clause of Usb2CtlTrace!Failing belongs to
CLAUSE_OWNER = {
    "setup_ack": {"C06"}, "setup_ack_early": {"C06"}, "setup_strobe": {"C06"}, "setup_fields": {"C06"},
    "stray_data_ack": {"C06", "C07", "C20"},     # (C07: answering another device's data disturbs the control transfer)
    "ep0_in_resp": {"C07"}, "ep0_out_resp": {"C07"},
    "addr_obs": {"C08"}, "cfg_obs": {"C08"}, "resp_foreign_addr": {"C08", "C20"},
    "ep_toggle": {"C10", "C07", "C08"},      # another endpoint's data toggle moved by a STALLed request / foreign traffic
    "unsup_resp": {"C10", "C07"}, "unsup_state": {"C10"},       # the stage protocol also binds unsupported requests
    "pkt_multi": {"C20"}, "pkt_malformed": {"C20"}, "resp_overlap": {"C20"}, "resp_early": {"C20"},
    "resp_late": {"C20"}, "unsolicited": {"C20"}, "ep_resp": {"C20"},
    "prop_invariant": {"C06", "C07", "C08", "C10", "C20"},
}
ENV_CLAUSES = ("env_illegal", "env_crc_flag")

# SetupTable rows of MCUsb2Ctl.tla each property's exhaustive run uses (quick tier); thorough = all rows
MC_ROWS = {"C06": [1, 3, 5, 15], "C07": [1, 2, 8, 10], "C08": [2, 3, 4, 13], "C10": [2, 7, 8, 11, 12], "C20": [1, 3, 7, 8]}
ALL_ROWS = list(range(1, 16))
MC_UNCOVERED = {"C06": ("ACommitCfg", "AAckStatus"), "C07": ("ACommitAddr", "ACommitCfg"), "C08": ("AAckStatus",),
                "C10": ("ACommitAddr", "ACommitCfg", "AAckStatus"), "C20": ("ACommitCfg", "AAckStatus")}


class _Phase:
    """Wall / CPU (self + children, i.e. TLC) seconds of one phase of a check, appended to rep.notes."""

    def __init__(self, rep, name):
        self.rep, self.name = rep, name

    @staticmethod
    def _cpu():
        a, b = resource.getrusage(resource.RUSAGE_SELF), resource.getrusage(resource.RUSAGE_CHILDREN)
        return a.ru_utime + a.ru_stime + b.ru_utime + b.ru_stime

    def __enter__(self):
        self.t, self.c = time.time(), self._cpu()

    def __exit__(self, *exc):
        self.rep.notes.append("phase %s: wall %.1fs cpu %.1fs" % (self.name, time.time() - self.t, self._cpu() - self.c))


def _cfg(name):
    with open(os.path.join(tlc.SPECS, SPEC_DIR, name)) as f:
        return f.read()


# =================================================================================================
# host-side script generation
# =================================================================================================
def S(bm, req, val, idx, length):
    return [bm & 0xFF, req & 0xFF, val & 0xFF, (val >> 8) & 0xFF, idx & 0xFF, (idx >> 8) & 0xFF,
            length & 0xFF, (length >> 8) & 0xFF]


def tok(pid, addr, ep, **kw):
    d = {"a": "tok", "pid": pid, "addr": addr, "ep": ep}
    d.update(kw)
    return d


def dat(pid, payload, **kw):
    d = {"a": "data", "pid": pid, "bytes": list(payload)}
    d.update(kw)
    return d


def sof_at(addr, hi=0, **kw):
    """A SOF whose frame number has the low 7 bits `addr` (what an address-matching token detector would compare)."""
    d = {"a": "sof", "frame": (addr & 0x7F) | ((hi & 0xF) << 7)}
    d.update(kw)
    return d


ACK = {"a": "hs", "pid": "ACK"}
FACK = {"a": "hs", "pid": "ACK", "if_data": False}      # the host's ACK of another device's data (after a foreign IN token)


def classify_setup(s8, skip=(), claimed=()):
    """Python mirror of Usb2Ctl!ClassOf, used only to *steer generation* (never for verdicts)."""
    bm, req = s8[0], s8[1]
    if 256 * ((bm >> 5) & 3) + req in claimed:
        return "gray"
    if (bm >> 5) & 3 == 0 and req in skip:
        return "unsup"
    val, idx, ln = s8[2] | s8[3] << 8, s8[4] | s8[5] << 8, s8[6] | s8[7] << 8
    d_in, typ, rc = bm >> 7, (bm >> 5) & 3, bm & 31
    if typ != 0 or req not in (0, 1, 5, 6, 8, 9):
        return "unsup"
    canon = {0: d_in and rc in (0, 1, 2) and val == 0 and ln == 2,
             1: (not d_in) and rc in (0, 1, 2) and ln == 0,
             5: (not d_in) and rc == 0 and ln == 0 and idx == 0 and val < 128,
             6: d_in and rc == 0 and ln > 0,
             8: d_in and rc == 0 and ln == 1 and val == 0 and idx == 0,
             9: (not d_in) and rc == 0 and ln == 0 and idx == 0 and val < 256}[req]
    if not canon:
        return "gray"
    if req == 1 and not (rc == 2 and val == 0):
        return "unsup"
    return "sup"


ALL_NOISE = ["foreign_in", "foreign_in_ack", "foreign_in_ack", "foreign_out", "foreign_out", "foreign_setup", "sof",
             "sof_addr", "sof_addr", "junk", "badtok", "ping",
             "bulk_in", "bulk_in", "bulk_in_noack", "bulk_out", "bulk_out_bad", "none_ep", "long_bad", "src"]
NO_FOREIGN_ACK = [k for k in ALL_NOISE if k != "foreign_in_ack"]


class Gen:
    """Builds host scripts transaction by transaction, keeping the host's view of the device address."""

    def __init__(self, rng, desc_len, max0=64, bulk=True, skip=(), claimed=()):
        self.rng = rng
        self.skip, self.claimed = tuple(skip), tuple(claimed)
        self.desc_len = desc_len          # {wValue: total length} of the descriptors the device has
        self.max0 = max0
        self.bulk = bulk
        self.addr = 0
        self.s = []
        self.src_on = False
        self.tainted = False

    # ---- primitives -----------------------------------------------------------------------------
    def emit(self, *acts):
        self.s.extend(acts)

    def other_addr(self):
        while True:
            a = self.rng.randrange(128)
            if a != self.addr:
                return a

    def setup(self, s8, how="good"):
        """One SETUP transaction; how: good | crc | short | long | tokonly | trunc | badtok"""
        a = self.addr
        if how == "good":
            self.emit(tok("SETUP", a, 0), dat("DATA0", s8))
        elif how == "crc":
            self.emit(tok("SETUP", a, 0), dat("DATA0", s8, ok=False, flip=self.rng.randint(1, 16)))
        elif how == "short":
            self.emit(tok("SETUP", a, 0), dat("DATA0", s8[:self.rng.randint(0, 7)]))
        elif how == "long":
            self.emit(tok("SETUP", a, 0), dat("DATA0", s8 + [self.rng.randrange(256)
                                                                for _ in range(self.rng.randint(1, 3))]))
        elif how == "tokonly":
            self.emit(tok("SETUP", a, 0), {"a": "idle", "n": self.rng.randint(20, 40)})
        elif how == "trunc":
            self.emit(tok("SETUP", a, 0), dat("DATA0", s8, trunc=self.rng.randint(1, 10)))
        elif how == "badtok":
            self.emit(tok("SETUP", a, 0, ok=False), dat("DATA0", s8))
        elif how == "trail":
            # a complete packet with a valid CRC16 over a prefix of the payload, then more bytes before rx_active falls
            n = self.rng.choice([8, 8, 8, 7, 1, 0])
            self.emit(tok("SETUP", a, 0), dat("DATA0", s8[:n], suffix=[self.rng.randrange(256)
                                                                        for _ in range(self.rng.randint(1, 6))]))
        else:
            raise ValueError(how)

    def disarm(self):
        """A token addressed to the device that is not a SETUP (takes the setup decoder out of its wait)."""
        ep = self.rng.choice([1, 2, 3] if self.bulk else [3, 4])
        self.emit(tok("IN", self.addr, ep))
        if ep == 1:
            self.emit(ACK)

    def in0(self, ack=True):
        self.emit(tok("IN", self.addr, 0))
        if ack:
            self.emit(ACK)

    def status_out(self, ok=True):
        self.emit(tok("OUT", self.addr, 0), dat("DATA1", [], ok=ok))

    def noise(self, kinds=None):
        """One packet / transaction that is not part of a control transfer of this device."""
        r = self.rng
        k = r.choice(kinds or ALL_NOISE)
        if k == "foreign_in_ack":
            self.emit(tok("IN", self.other_addr(), r.randrange(16)), dict(FACK))
        elif k == "foreign_in":
            self.emit(tok("IN", self.other_addr(), r.randrange(16)))
        elif k == "ping":
            self.emit(tok("PING", self.addr, r.choice([0, 0, 2])))
        elif k == "foreign_out":
            self.emit(tok("OUT", self.other_addr(), r.choice([0, 0, r.randrange(16)])),
                      dat(r.choice(["DATA0", "DATA1"]), [r.randrange(256) for _ in range(r.choice([0, 1, 3, 8, 8, 12]))]))
        elif k == "foreign_setup":
            self.emit(tok("SETUP", self.other_addr(), 0), dat("DATA0", [r.randrange(256) for _ in range(8)]))
        elif k == "sof":
            self.emit({"a": "sof", "frame": r.randrange(2048), "ok": r.random() < 0.8})
        elif k == "sof_addr":
            self.emit(sof_at(self.addr + r.choice([0, 0, 0, 1, 127]), r.randrange(16)))
        elif k == "junk":
            self.emit({"a": "junk", "bytes": r.choice([[0x00], [0xFF, 0x12], [0xA5, 1, 2, 3], [0x69], [0xE1, 0x00],
                                                        [0x2D, 0x00]])})       # bad PIDs, a truncated SETUP token
        elif k == "badtok":
            self.emit(tok(r.choice(["IN", "OUT", "SETUP"]), self.addr, 0, ok=False))
        elif k == "bulk_in" and self.bulk:
            self.emit(tok("IN", self.addr, 1), ACK)
        elif k == "bulk_in_noack" and self.bulk:
            self.emit(tok("IN", self.addr, 1))
        elif k == "bulk_out" and self.bulk:
            self.emit(tok("OUT", self.addr, 2),
                      dat(r.choice(["DATA0", "DATA1"]), [r.randrange(256) for _ in range(r.randint(0, 8))]))
        elif k == "bulk_out_bad" and self.bulk:
            self.emit(tok("OUT", self.addr, 2),
                      dat("DATA0", [r.randrange(256) for _ in range(r.randint(0, 8))], ok=False, flip=r.randint(1, 16)))
        elif k == "none_ep":
            self.emit(tok("IN", self.addr, r.choice([3, 7, 15])))
        elif k == "long_bad":
            self.emit(tok("OUT", self.other_addr(), 1),
                      dat("DATA1", [r.randrange(256) for _ in range(r.randint(9, 20))], ok=False))
        elif k == "src" and self.bulk:
            self.src_on = not self.src_on
            self.emit({"a": "src", "en": int(self.src_on)})
        else:
            self.emit(tok("IN", self.other_addr(), 0))

    # ---- requests -------------------------------------------------------------------------------
    def rand_supported(self):
        r = self.rng
        k = r.choice(["get_status", "get_config", "get_desc", "get_desc", "set_config", "clear_halt", "set_address",
                      "get_desc_missing"])
        if k == "get_status":
            return S(0x80 | r.choice([0, 1, 2]), 0, 0, r.choice([0, 0, 1, 0x81]), 2)
        if k == "get_config":
            return S(0x80, 8, 0, 0, 1)
        if k == "get_desc":
            v = r.choice(sorted(self.desc_len))
            total = self.desc_len[v]
            for _ in range(20):
                ln = r.choice([1, 2, 8, 9, 18, total, total + 1, 64, 255, r.randint(1, 300)])
                n = min(ln, total)
                if not (n % self.max0 == 0 and n < ln):       # ZLP-terminated reads are usb2desc's business
                    return S(0x80, 6, v, r.choice([0, 0x409]), ln)
            return S(0x80, 6, v, 0, 1)
        if k == "get_desc_missing":
            return S(0x80, 6, r.choice([0x0600, 0x0700, 0x0105, 0x0F00, 0x2100]), 0, r.randint(1, 64))
        if k == "set_config":
            return S(0, 9, r.choice([0, 1, 1, 1, 2, 255]), 0, 0)
        if k == "clear_halt":
            return S(2, 1, 0, r.choice([0x81, 0x02, 0x00]), 0)
        return S(0, 5, r.choice([1, 5, 0x55, 0x7F, 0x2A, r.randrange(1, 128)]), 0, 0)

    def rand_unsupported(self, std_only=False):
        r = self.rng
        shape = r.choice(["in", "in", "nodata", "out"])
        ln = {"in": r.choice([1, 2, 8, 64, 0x1234]), "nodata": 0, "out": r.choice([1, 2, 8])}[shape]
        d_in = 0x80 if shape == "in" or (shape == "nodata" and r.random() < 0.3) else 0
        pick = r.random()
        if pick < 0.4:         # standard request the device does not implement
            req = r.choice([2, 3, 4, 7, 10, 11, 12, 13, 0x30, 0xFF, r.randrange(13, 256)])
            return S(d_in | r.choice([0, 1, 2, 3]), req, r.randrange(65536), r.randrange(65536), ln)
        if pick < 0.55:        # CLEAR_FEATURE other than ENDPOINT_HALT on an endpoint
            rc, val = r.choice([(0, 1), (0, 2), (1, 0), (2, 1), (0, 0), (1, 5)])
            return S(rc, 1, val, r.choice([0, 0x81, 2]), 0)
        if std_only:
            return S(d_in, r.choice([3, 7, 10, 11, 12]), 0, 0, ln)
        typ = r.choice([1, 2, 3])     # class / vendor / reserved: nobody claims them
        req = r.choice([0, 1, 5, 6, 8, 9, r.randrange(256)])      # often a number that is implemented as *standard*
        val = r.choice([5, 1, 0x100, r.randrange(65536)])
        return S(d_in | (typ << 5) | r.choice([0, 1, 2, 3]), req, val, r.choice([0, r.randrange(65536)]), ln)

    def n_data_packets(self, s8):
        v, ln = s8[2] | s8[3] << 8, s8[6] | s8[7] << 8
        if s8[1] == 6:
            total = min(ln, self.desc_len.get(v, 0))
        else:
            total = min(ln, 2 if s8[1] == 0 else 1)
        return max(1, -(-total // self.max0))

    def transfer(self, s8, stop="done", lose_ack=0.0, noise=0.0, noise_kinds=None, early_status=False):
        """A whole control transfer for a supported or unsupported request, as a well-behaved host runs it.
        stop: 'done' (all stages) | 'setup' | 'data' | 'status_noack' (where an abandoning host stops)."""
        r = self.rng
        cls = classify_setup(s8, self.skip, self.claimed)
        d_in, ln = s8[0] >> 7, s8[6] | s8[7] << 8

        def maybe_noise():
            while noise and r.random() < noise:
                self.noise(noise_kinds)

        self.setup(s8)
        maybe_noise()
        if stop == "setup" or cls == "gray":
            return
        if ln > 0 and d_in:
            if cls == "unsup" or (s8[1] == 6 and (s8[2] | s8[3] << 8) not in self.desc_len):
                self.in0()                      # STALL expected
                maybe_noise()
                return
            n = 1 if early_status else self.n_data_packets(s8)
            for i in range(n):
                if lose_ack and r.random() < lose_ack:
                    self.in0(ack=False)          # our ACK got lost: the device must send the packet again
                    while noise and r.random() < noise:     # (carve-out FA: no foreign-address ACK before the retry)
                        self.noise(NO_FOREIGN_ACK)
                self.in0()
                maybe_noise()
                if stop == "data":
                    return
            x = r.random()
            if x < 0.15:
                self.status_out(ok=False)        # corrupted status packet, retried
            elif x < 0.22:
                self.emit(tok("OUT", self.addr, 0), dat("DATA1", [], suffix=[r.randrange(256)]))   # ZLP + trailing byte
            elif x < 0.28:
                self.emit(tok("PING", self.addr, 0))
            if x < 0.28:
                maybe_noise()                    # ... and whatever else the bus carries before the retry
            self.status_out()
        elif ln > 0:
            # host-to-device data stage: only unsupported requests have one
            for _ in range(r.randint(1, 2)):
                self.emit(tok("OUT", self.addr, 0), dat(r.choice(["DATA1", "DATA0"]),
                                                        [r.randrange(256) for _ in range(min(ln, 8))]))
                maybe_noise()
            if stop == "data":
                return
            self.in0()
        else:
            if cls == "sup":
                while lose_ack and r.random() < lose_ack:
                    self.in0(ack=False)          # status ZLP seen, ACK lost: the host asks again
                    while noise and r.random() < noise:     # (carve-out FA)
                        self.noise(NO_FOREIGN_ACK)
                if stop == "status_noack":
                    self.in0(ack=False)
                    return
            self.in0()
            if cls == "sup" and s8[1] == 5:
                old, self.addr = self.addr, s8[2] & 0x7F
                if r.random() < 0.7:             # probe both addresses
                    self.emit(tok("IN", old, 0) if old != self.addr else tok("IN", self.addr, 3))
                    self.emit(tok("IN", self.addr, 3))
        maybe_noise()

    def reset(self):
        self.emit({"a": "reset"})
        self.addr = 0


# ---- profiles: what each property's random stimuli emphasise ---------------------------------------
def gen_clean(rng, prop, desc_len, max0, n_transfers, skip=(), claimed=()):
    """A host behaviour inside the Env *and* outside every open finding's trigger (as far as a generator that
    does not see the device's answers can tell; TLC decides, see `pattern`)."""
    g = Gen(rng, desc_len, max0, skip=skip, claimed=claimed)
    r = rng
    if r.random() < 0.6:
        g.emit({"a": "src", "en": 1})
        g.src_on = True
    noise = {"C06": 0.35, "C07": 0.35, "C08": 0.3, "C10": 0.2, "C20": 0.5}[prop]

    def stop_for(s8):
        """Where an (occasionally impatient) host stops pursuing the transfer."""
        return r.choice(["done"] * 5 + ["setup", "data", "status_noack"])

    for _ in range(n_transfers):
        x = r.random()
        if prop == "C06" and x < 0.5:
            # a SETUP that must be refused / is lost (sometimes right after an accepted one), then the retry
            how = r.choice(["crc", "short", "long", "tokonly", "trunc", "trunc", "badtok", "crc", "trail", "trail"])
            s8 = g.rand_supported() if r.random() < 0.5 else [r.randrange(256) for _ in range(8)]
            if how == "trunc" and r.random() < 0.6:
                g.emit(tok("SETUP", g.addr, 0), dat("DATA0", s8, trunc=r.choice([1, 1, 2, 3])))
            else:
                g.setup(s8, how)
            if r.random() < 0.3:
                g.disarm()
            while r.random() < 0.4:
                g.noise()
            if r.random() < 0.5:
                # decoding of arbitrary bytes: any non-standard type may follow freely
                s8 = [r.randrange(256) for _ in range(8)]
                s8[0] = (s8[0] & 0x9F) | (r.choice([1, 2, 3]) << 5)
                g.transfer(s8, stop=r.choice(["setup", "done"]))
                continue
        if prop == "C08" and x < 0.55:
            s8 = S(0, 5, r.choice([5, 0x55, 1, 0x7F, r.randrange(128)]), 0, 0) if r.random() < 0.6 else \
                S(0, 9, r.choice([0, 1, 1, 7, 255]), 0, 0)
            g.transfer(s8, stop=stop_for(s8), lose_ack=0.35, noise=noise)
            if r.random() < 0.25:
                g.reset()
            continue
        if (prop == "C10" and x < 0.8) or x < 0.3:
            s8 = g.rand_unsupported()
            g.transfer(s8, stop=r.choice(["done", "done", "done", "setup", "data"]), noise=noise)
            continue
        if prop in ("C07", "C20") and x < 0.4:
            # host-illegal ep0 tokens after a transfer
            s8 = g.rand_unsupported() if r.random() < 0.5 else g.rand_supported()
            g.transfer(s8, stop=r.choice(["setup", "data", "done"]), noise=noise)
            if r.random() < 0.3:
                g.emit(tok("IN", g.addr, 0))
            if r.random() < 0.2:
                g.emit(tok("OUT", g.addr, 0), dat("DATA1", []))
            continue
        s8 = g.rand_supported()
        g.transfer(s8, stop=stop_for(s8), lose_ack=0.2 if prop in ("C07", "C20") else 0.0, noise=noise,
                   early_status=r.random() < 0.15)
        if r.random() < 0.08:
            g.reset()
    sc = g.s + sanity(g.addr, cfg_probe=r.random() < 0.5)
    return with_sofs(sc) if r.random() < (0.6 if prop == "C20" else 0.3) else sc


# ---- systematic alignment sweeps (every cycle offset, every stall / gap position) --------------------
def spaced(script, d, only=None):
    """Give every host packet of `script` (or only those whose index is in `only`) the same distance d: the next
    packet starts d cycles after the end of the device's answer (`post`), d cycles after a packet that is not
    answered within its window (`wait` for tokens that expect data / handshakes / noise)."""
    out = []
    for i, a in enumerate(script):
        a = dict(a)
        if only is None or i in only:
            k = a["a"]
            if k == "tok" and a["pid"] == "IN":
                a["post"] = d
            elif k == "tok":
                a["wait"] = d                      # token -> data packet distance
            elif k == "data":
                a["post"] = d
            elif k in ("hs", "sof", "junk"):
                a["wait"] = d
            elif k == "reset":
                a["wait"] = d
            elif k == "src":
                a["n"] = d
        out.append(a)
    return out


def interpose(script, inserts, rotate=0):
    """All variants of `script` with one foreign transaction inserted at one legal position: never between a
    SETUP/OUT token and its data packet, never between the device's data and the host's ACK.  `inserts` is a list
    of transactions; position i gets inserts[(i + rotate) % len] - or every one of them when rotate is None."""
    out = []
    n = 0
    for i in range(1, len(script) + 1):
        prev = script[i - 1]
        nxt = script[i] if i < len(script) else None
        if prev["a"] == "tok" and prev["pid"] in ("SETUP", "OUT") and nxt is not None and nxt["a"] == "data":
            continue
        if nxt is not None and nxt["a"] == "hs":
            continue
        which = range(len(inserts)) if rotate is None else [(n + rotate) % len(inserts)]
        for w in which:
            out.append((i, w, script[:i] + [dict(a) for a in inserts[w]] + script[i:]))
        n += 1
    return out


def with_sofs(script, every=False):
    """`script` with a SOF whose low 7 frame bits equal the address of the preceding token inserted after every IN /
    PING transaction (after every transaction when `every`): a SOF is never answered, whatever its frame number."""
    out = []
    addr = 0
    for i, a in enumerate(script):
        out.append(a)
        if a["a"] == "tok":
            addr = a["addr"]
        nxt = script[i + 1] if i + 1 < len(script) else None
        if nxt is not None and nxt["a"] in ("data", "hs"):
            continue
        ends_in = (a["a"] == "tok" and a["pid"] in ("IN", "PING")) or a["a"] == "hs"
        if ends_in or (every and a["a"] in ("data", "tok")):
            out.append(sof_at(addr + (0, 0, 1, 127)[i % 4], i))
    return out


def sanity(addr, cfg_probe=True):
    """End-of-trace transfer: a wedged decoder / handler / stage machine shows up here (liveness judged at the end
    of the trace), followed by a quiet period in which nothing may be transmitted."""
    s8 = S(0x80, 8, 0, 0, 1) if cfg_probe else S(0x80, 0, 0, 0, 2)
    return [tok("SETUP", addr, 0), dat("DATA0", s8), tok("IN", addr, 0), dict(ACK), tok("OUT", addr, 0), dat("DATA1", []),
            {"a": "idle", "n": 30}]


QUICK_DISTANCES = (2, 3, 4, 5, 6, 7, 9, 12, 16)


def aligned_scripts(prop, desc_len, max0, distances=QUICK_DISTANCES):
    """[(name, script)] - clean-class sweeps: the same scenario at every distance d = 2..16 between consecutive bus
    events, tx_ready stalls at every byte position of every short device packet, rx_valid gaps at every byte position
    of every short host packet; each ends with sanity()."""
    GS, GC, GD = S(0x80, 0, 0, 0, 2), S(0x80, 8, 0, 0, 1), S(0x80, 6, 0x100, 0, 18)
    SA, SC, CH = S(0, 5, 5, 0, 0), S(0, 9, 1, 0, 0), S(2, 1, 0, 0x81, 0)
    VI, VN, VO = S(0xC0, 5, 5, 0, 2), S(0x40, 9, 1, 0, 0), S(0x41, 7, 0, 0, 2)
    on = {"a": "src", "en": 1}
    n_dev = -(-18 // max0)

    def rd(a, s8, n=1, ack_lost=False):
        x = [tok("SETUP", a, 0), dat("DATA0", s8)]
        for _ in range(n):
            if ack_lost:
                x += [tok("IN", a, 0)]
            x += [tok("IN", a, 0), dict(ACK)]
        return x + [tok("OUT", a, 0), dat("DATA1", [])]

    def wr(a, s8, ack_lost=False):
        x = [tok("SETUP", a, 0), dat("DATA0", s8)]
        if ack_lost:
            x += [tok("IN", a, 0)]
        return x + [tok("IN", a, 0), dict(ACK)]

    far = [tok("IN", 9, 1), dict(FACK)]                    # the host ACKs data of the device at address 9
    fout = [tok("OUT", 9, 1), dat("DATA0", [1, 2, 3])]       # OUT transaction to address 9
    bin_ = [tok("IN", 0, 1), dict(ACK)]                      # one bulk IN transaction (observes ep1's toggle)
    sc = {}      # scenario name -> (script, final address)
    if prop == "C06":
        for n in (1, 2):
            # a data packet cut off right after its PID / after one byte, directly after an accepted 8-byte SETUP
            sc["runt-%d-after-good-setup" % n] = (rd(0, GS) + [tok("SETUP", 0, 0), dat("DATA0", GC, trunc=n)] + rd(0, GC), 0)
            sc["runt-%d-after-vendor-setup" % n] = ([tok("SETUP", 0, 0), dat("DATA0", VN), tok("SETUP", 0, 0),
                                                    dat("DATA0", GS, trunc=n), tok("IN", 0, 0)], 0)
        sc["read"] = (rd(0, GS), 0)
        sc["bad-crc-then-good"] = ([tok("SETUP", 0, 0), dat("DATA0", GS, ok=False), tok("IN", 0, 3)] + rd(0, GC), 0)
        sc["long-then-good"] = ([tok("SETUP", 0, 0), dat("DATA0", GS + [1]), tok("IN", 0, 3)] + rd(0, GS), 0)
        sc["foreign-setup-then-good"] = ([tok("SETUP", 9, 0), dat("DATA0", SA), tok("OUT", 0, 2), dat("DATA0", [1] * 8)]
                                         + rd(0, GS), 0)
        sc["back-to-back-setups"] = ([tok("SETUP", 0, 0), dat("DATA0", VI), tok("SETUP", 0, 0), dat("DATA0", VN)] + rd(0, GS), 0)
    if prop == "C07":
        sc["read"] = (rd(0, GS), 0)
        sc["descriptor"] = (rd(0, GD, n_dev), 0)
        sc["data-ack-lost"] = (rd(0, GD, n_dev, ack_lost=True), 0)
        sc["vendor-abandoned"] = ([tok("SETUP", 0, 0), dat("DATA0", VI), tok("IN", 0, 0), tok("SETUP", 0, 0), dat("DATA0", VO),
                                   tok("OUT", 0, 0), dat("DATA1", [1, 2])] + rd(0, GS), 0)
        sc["interleaved"] = ([on, tok("SETUP", 0, 0), dat("DATA0", GS), tok("OUT", 0, 2), dat("DATA0", [1, 2, 3]),
                              tok("IN", 9, 0), tok("IN", 0, 1), tok("IN", 0, 0), dict(ACK), tok("OUT", 9, 0),
                              dat("DATA1", []), tok("OUT", 0, 0), dat("DATA1", [])], 0)
        sc["in-during-status-out"] = ([tok("SETUP", 0, 0), dat("DATA0", GS), tok("IN", 0, 0), dict(ACK), tok("OUT", 0, 0),
                                       dat("DATA1", [], ok=False), tok("IN", 0, 0), tok("OUT", 0, 0), dat("DATA1", [])], 0)
        sc["out-during-status-in"] = ([tok("SETUP", 0, 0), dat("DATA0", S(0, 9, 1, 0, 0)), tok("OUT", 0, 0), dat("DATA1", []),
                                       tok("IN", 0, 0), dict(ACK)], 0)
        sc["status-retry"] = ([tok("SETUP", 0, 0), dat("DATA0", GS), tok("IN", 0, 0), dict(ACK), tok("OUT", 0, 0),
                               dat("DATA1", [], ok=False), tok("OUT", 0, 0), dat("DATA1", [])], 0)
    if prop == "C07":
        sc["foreign-address-traffic"] = ([on] + bin_ + [tok("SETUP", 0, 0), dat("DATA0", GD)] + far + fout
                                         + [tok("IN", 0, 0), dict(ACK)] * n_dev + far + [tok("OUT", 0, 0), dat("DATA1", [])]
                                         + far + bin_, 0)
    if prop == "C08":
        for nm, s8, a_new in (("address", SA, 5), ("config", SC, 0), ("clear-halt", CH, 0)):
            sc["foreign-address-ack-around-set-%s" % nm] = (
                [on] + bin_ + far + [tok("SETUP", 0, 0), dat("DATA0", s8)] + far + fout + [tok("IN", 0, 0), dict(ACK)] + far
                + [tok("IN", a_new, 1), dict(ACK)], a_new)
        # a value of 0 is a value like any other: configuration n then 0, address n then 0 (and the read-back)
        sc["config-n-then-0"] = (wr(0, SC) + rd(0, GC) + wr(0, S(0, 9, 0, 0, 0)) + rd(0, GC) + wr(0, S(0, 9, 7, 0, 0)) + rd(0, GC), 0)
        sc["address-n-then-0"] = (wr(0, SA) + [tok("IN", 5, 3)] + wr(5, S(0, 5, 0, 0, 0)) + [tok("IN", 5, 3), tok("IN", 0, 3)], 0)
        sc["set-address"] = (wr(0, SA) + [tok("IN", 0, 3), tok("IN", 5, 3)], 5)
        sc["set-address-ack-lost"] = (wr(0, SA, ack_lost=True) + [tok("IN", 0, 3), tok("IN", 5, 3)], 5)
        sc["set-config"] = (wr(0, SC), 0)
        sc["set-config-ack-lost-then-bulk"] = ([on] + wr(0, SC, ack_lost=True) + [tok("IN", 0, 1), dict(ACK)], 0)
        sc["clear-halt"] = (wr(0, CH), 0)
        sc["address-then-reset"] = (wr(0, SA) + wr(5, SC) + [{"a": "reset"}], 0)
        sc["bulk-out-between"] = ([tok("SETUP", 0, 0), dat("DATA0", SA), tok("OUT", 0, 2), dat("DATA0", [7] * 8), tok("IN", 0, 1),
                                   tok("IN", 0, 0), dict(ACK)], 5)
    if prop == "C10":
        sc["vendor-in"] = ([tok("SETUP", 0, 0), dat("DATA0", VI), tok("IN", 0, 0), tok("IN", 0, 0)], 0)
        sc["vendor-nodata"] = ([tok("SETUP", 0, 0), dat("DATA0", VN), tok("IN", 0, 0)], 0)
        sc["vendor-out"] = ([tok("SETUP", 0, 0), dat("DATA0", VO), tok("OUT", 0, 0), dat("DATA1", [1, 2]), tok("IN", 0, 0)], 0)
        sc["std-unimplemented"] = ([tok("SETUP", 0, 0), dat("DATA0", S(0x81, 10, 0, 0, 1)), tok("IN", 0, 0)], 0)
        sc["clear-feature-device"] = ([on, tok("SETUP", 0, 0), dat("DATA0", S(0, 1, 1, 0, 0)), tok("IN", 0, 0), tok("IN", 0, 1),
                                       dict(ACK), tok("IN", 0, 0)], None)      # (no sanity: see finding C07)
        for i, s8 in enumerate((S(0, 1, 1, 0x81, 0), S(1, 1, 0, 0x81, 0), S(2, 1, 1, 0x81, 0), S(0x40, 1, 0, 0x81, 0),
                                S(0, 3, 0, 0x81, 0))):
            # a STALLed request naming ep1 IN, then ACKs / data that belong to another device address: ep1's toggle,
            # the address and the configuration must be what they were
            sc["stalled-%d-then-foreign-address-ack" % i] = (
                [on] + bin_ + [tok("SETUP", 0, 0), dat("DATA0", s8), tok("IN", 0, 0)] + far + fout + far + bin_ + bin_, 0)
            sc["foreign-address-ack-before-stall-%d" % i] = (
                [on] + bin_ + [tok("SETUP", 0, 0), dat("DATA0", s8)] + far + [tok("IN", 0, 0)] + bin_, 0)
        sc["early-status"] = ([tok("SETUP", 0, 0), dat("DATA0", VI), tok("OUT", 0, 0), dat("DATA1", [])], 0)
    if prop == "C20":
        sc["read"] = (rd(0, GS), 0)
        sc["bulk-mix"] = ([on, tok("IN", 0, 1), dict(ACK), tok("OUT", 0, 2), dat("DATA0", [5] * 8), tok("IN", 0, 1), dict(ACK),
                           tok("OUT", 0, 2), dat("DATA1", [6], ok=False), tok("IN", 0, 3)], 0)
        sc["source-starts"] = ([tok("SETUP", 0, 0), dat("DATA0", GS), on, tok("IN", 0, 0), dict(ACK), tok("IN", 0, 1), dict(ACK),
                                tok("OUT", 0, 0), dat("DATA1", [])], 0)
        sc["vendor-stall"] = ([tok("SETUP", 0, 0), dat("DATA0", VI), tok("IN", 0, 0)], 0)
        # the bulk IN endpoint ends a transfer of exactly k x MaxPkt with a zero-length packet; then other zero-length
        # packets (status stages, a re-sent ZLP) follow before ep1 has anything else to say
        to_zlp = [on] + bin_ * 3          # 5 bytes, 8 bytes, ZLP
        sc["zlp-then-status-zlp"] = (to_zlp + wr(0, SC) + wr(0, CH) + bin_, 0)
        sc["zlp-then-set-address"] = (to_zlp + wr(0, SA, ack_lost=True) + [tok("IN", 5, 1), dict(ACK)], 5)
        sc["zlp-resent-then-status"] = ([on] + bin_ * 2 + [tok("IN", 0, 1)] + bin_ + wr(0, SC) + rd(0, GS), 0)
    out = []
    for name, (body, a_end) in sc.items():
        for d in distances:
            out.append(("%s@d=%d" % (name, d), spaced(body, d) + (sanity(a_end) if a_end is not None else [])))
    # --- families that are swept over something else than the distance ---------------------------------------
    FOREIGN = [[tok("OUT", 9, 0), dat("DATA1", [])], [tok("OUT", 9, 0), dat("DATA0", [1, 2, 3])],
               [tok("SETUP", 9, 0), dat("DATA0", GC)], [tok("IN", 9, 1), dict(FACK)], [tok("OUT", 9, 1), dat("DATA1", [])]]

    def foreign_everywhere(name, body, a_end, all_from=None):
        """one complete transaction for ANOTHER ADDRESS at every legal position of `body` (every kind of transaction
        from position `all_from` on, kinds rotating before it)"""
        for i, w, sc2 in interpose(body, FOREIGN, rotate=None):
            if (all_from is not None and i >= all_from) or w == i % len(FOREIGN):
                out.append(("%s +foreign%d@%d" % (name, w, i), sc2 + (sanity(a_end) if a_end is not None else [])))

    if prop == "C06":
        # a CRC-valid packet followed by more bytes before rx_active falls (trailing garbage / merged packets)
        for n, ks in ((8, (1, 2, 3, 4, 5, 6)), (7, (1, 2, 3)), (1, (1, 2)), (0, (1, 2, 3))):
            for k in ks:
                out.append(("trail-%d+%d" % (n, k), [tok("SETUP", 0, 0), dat("DATA0", GS[:n], suffix=[0x5A, 0xC3, 0, 0xFF, 1, 0x80][:k])]
                            + rd(0, GC) + sanity(0)))
                if n == 8:
                    out.append(("trail-%d+%d-after-good" % (n, k), rd(0, GC) + [tok("SETUP", 0, 0), dat("DATA0", SA, suffix=[7] * k),
                                                                              tok("IN", 0, 0)] + sanity(0)))
    if prop == "C07":
        base = [tok("SETUP", 0, 0), dat("DATA0", GD)] + [tok("IN", 0, 0), dict(ACK)] * n_dev
        k0 = len(base)
        foreign_everywhere("status-zlp-corrupted", base + [tok("OUT", 0, 0), dat("DATA1", [], ok=False), tok("OUT", 0, 0), dat("DATA1", [])], 0, k0)
        foreign_everywhere("status-token-only", base + [tok("OUT", 0, 0), tok("OUT", 0, 0), dat("DATA1", [])], 0, k0)
        foreign_everywhere("status-after-ping", base + [tok("PING", 0, 0), tok("OUT", 0, 0), dat("DATA1", [])], 0, k0)
        foreign_everywhere("status-zlp-with-trailing-byte", base + [tok("OUT", 0, 0), dat("DATA1", [], suffix=[9]), tok("OUT", 0, 0),
                                                                    dat("DATA1", [])], 0, k0)
        foreign_everywhere("write-status-ack-lost", wr(0, SC, ack_lost=True), 0)
        foreign_everywhere("out-data-stage", [tok("SETUP", 0, 0), dat("DATA0", VO), tok("OUT", 0, 0), dat("DATA1", [1, 2]), tok("IN", 0, 0)], 0)
    if prop == "C08":
        foreign_everywhere("set-address-ack-lost", wr(0, SA, ack_lost=True) + [tok("IN", 0, 3), tok("IN", 5, 3)], 5)
        foreign_everywhere("set-config", [on] + bin_ + wr(0, SC) + bin_, 0)
        foreign_everywhere("clear-halt-ack-lost", [on] + bin_ + wr(0, CH, ack_lost=True) + bin_, 0)
    if prop == "C10":
        foreign_everywhere("vendor-in", [tok("SETUP", 0, 0), dat("DATA0", VI), tok("IN", 0, 0), tok("IN", 0, 0)], 0)
        foreign_everywhere("stalled-clear-feature", [on] + bin_ + [tok("SETUP", 0, 0), dat("DATA0", S(1, 1, 0, 0x81, 0)), tok("IN", 0, 0)] + bin_, 0)
        foreign_everywhere("vendor-out", [tok("SETUP", 0, 0), dat("DATA0", VO), tok("OUT", 0, 0), dat("DATA1", [1, 2]), tok("IN", 0, 0)], 0)
    if prop == "C20":
        foreign_everywhere("read", rd(0, GS), 0)
    if prop in ("C20", "C08", "C07"):
        # SOFs whose low 7 frame bits hit the device address after every IN / PING transaction (and, once, after every
        # transaction) of every scenario - at address 0 and after SET_ADDRESS
        for name, (body, a_end) in sc.items():
            tail = sanity(a_end) if a_end is not None else []
            out.append(("%s +sof-at-address" % name, with_sofs(spaced(body, 4) + tail)))
            if prop == "C20":
                out.append(("%s +sof-at-address-everywhere" % name, with_sofs(spaced(body, 7) + tail, every=True)))
        out.append(("addressed +sof-at-address", with_sofs(wr(0, S(0, 5, 0x2A, 0, 0)) + [on, tok("IN", 0x2A, 1), dict(ACK), tok("PING", 0x2A, 2)]
                                                      + rd(0x2A, GS) + wr(0x2A, SC) + [tok("IN", 0x2A, 1), dict(ACK)] + sanity(0x2A), every=True)))
    # stalls in front of every byte of every short device packet, gaps in front of every byte of short host packets
    if prop in ("C20", "C07", "C06"):
        shapes = [("setup-ack", [tok("SETUP", 0, 0), dat("DATA0", VN)], 1, 1),
                  ("status-zlp", [tok("SETUP", 0, 0), dat("DATA0", SC), tok("IN", 0, 0), dict(ACK)], 2, 3),
                  ("config-byte", [tok("SETUP", 0, 0), dat("DATA0", GC), tok("IN", 0, 0), dict(ACK)], 2, 4),
                  ("status-word", [tok("SETUP", 0, 0), dat("DATA0", GS), tok("IN", 0, 0), dict(ACK)], 2, 5),
                  ("stall", [tok("SETUP", 0, 0), dat("DATA0", VI), tok("IN", 0, 0)], 2, 1)]
        if prop == "C20":
            shapes.append(("bulk-in", [on, tok("IN", 0, 1), dict(ACK)], 1, 8))
            shapes.append(("status-zlp-after-bulk-zlp", [on] + [tok("IN", 0, 1), dict(ACK)] * 3
                           + [tok("SETUP", 0, 0), dat("DATA0", SC), tok("IN", 0, 0), dict(ACK)], 9, 3))
        for name, body, at, n in shapes:
            plans = [{k: c} for k in range(n) for c in (1, 2)]
            if n >= 3:
                plans += [{n - 2: 1, n - 1: 1}, {n - 2: 2, n - 1: 2}, {i: 1 for i in range(n)}, {0: 3, n - 1: 3}]
            for pl in plans:
                b2 = [dict(a) for a in body]
                b2[at]["stalls"] = {str(k): v for k, v in pl.items()}
                tail = [tok("OUT", 0, 0), dat("DATA1", [])] if name in ("config-byte", "status-word") else []
                out.append(("%s stalls=%s" % (name, pl), b2 + tail + sanity(0)))
    if prop in ("C06", "C20"):
        hp = [("setup-token", 0, 3), ("setup-data", 1, 11), ("in-token", 2, 3), ("ack", 3, 1), ("out-token", 4, 3), ("zlp", 5, 3)]
        body = rd(0, GS)
        for name, at, n in hp:
            for k in range(n + 1):          # k = n: extra rx_active cycles after the last byte
                for c in (1, 3):
                    b2 = [dict(a) for a in body]
                    b2[at]["gaps"] = [c if i == k else 0 for i in range(n + 1)]
                    out.append(("%s gap@%d x%d" % (name, k, c), b2 + sanity(0)))
    return out


def witness_scripts(prop, desc_len):
    """Short host behaviours that hit the trigger of one open finding each (expected: rejected with that
    finding's signature while it is open; accepted once repaired - they stay in as regression)."""
    GS, GC, GD = S(0x80, 0, 0, 0, 2), S(0x80, 8, 0, 0, 1), S(0x80, 6, 0x100, 0, 18)
    SA, SC = S(0, 5, 5, 0, 0), S(0, 9, 1, 0, 0)
    full_in = lambda a, s: [tok("SETUP", a, 0), dat("DATA0", s), tok("IN", a, 0), ACK, tok("OUT", a, 0), dat("DATA1", [])]
    out = []
    if prop == "C06":
        # (fixed 4c8cdb4) a corrupted / truncated short data packet anywhere, then a well-formed SETUP
        for pl in ([], [1], [1, 2, 3], [9] * 8):
            out.append(("C06a-corrupt-then-setup", [tok("OUT", 0, 2), dat("DATA0", pl, ok=False)] + full_in(0, GS)))
            out.append(("C06a-corrupt-foreign-then-setup", [tok("OUT", 9, 1), dat("DATA1", pl, ok=False)] + full_in(0, GC)))
        out.append(("C06a-truncated-then-setup", [tok("OUT", 0, 2), dat("DATA0", [1, 2, 3, 4], trunc=3)] + full_in(0, GS)))
        # C06b: the retry of a SETUP whose data packet was lost/corrupted
        out.append(("C06b-crc-retry", [tok("SETUP", 0, 0), dat("DATA0", GS, ok=False)] + full_in(0, GS)))
        out.append(("C06b-tokonly-retry", [tok("SETUP", 0, 0), {"a": "idle", "n": 30}] + full_in(0, GC)))
        out.append(("C06b-long-retry", [tok("SETUP", 0, 0), dat("DATA0", GS + [0])] + full_in(0, GS)))
        out.append(("C06b-trunc-retry", [tok("SETUP", 0, 0), dat("DATA0", GS, trunc=5)] + full_in(0, GD)))
        out.append(("C06b-crc-retry-twice", [tok("SETUP", 0, 0), dat("DATA0", GD, ok=False, flip=9),
                                             tok("SETUP", 0, 0), dat("DATA0", GD, ok=False, flip=2)] + full_in(0, GD)))
        # C06c: after a SETUP token whose data never came, somebody else's 8-byte data packet
        out.append(("C06c-foreign-out", [tok("SETUP", 0, 0), {"a": "idle", "n": 30}, tok("OUT", 9, 1), dat("DATA0", GC),
                                         tok("IN", 0, 0)]))
        out.append(("C06c-foreign-setup", [tok("SETUP", 0, 0), dat("DATA0", GS, ok=False), tok("SETUP", 9, 0),
                                           dat("DATA0", SA), tok("IN", 0, 0)]))
    if prop == "C07":
        for first in (GD, GS, GC, SA, SC, S(2, 1, 0, 0x81, 0), S(0x80, 10, 0, 0, 1), S(0, 1, 1, 0, 0)):
            # abandoned right after the SETUP (or, for the stalled CLEAR_FEATURE, after its STALL), then a fresh transfer
            pre = [tok("SETUP", 0, 0), dat("DATA0", first)]
            if first[1] == 1 and first[0] == 0:
                pre += [tok("IN", 0, 0)]
            out.append(("C07-abandon-setup", pre + full_in(0, GC)))
            out.append(("C07-abandon-setup-then-status", pre + [tok("SETUP", 0, 0), dat("DATA0", SC), tok("IN", 0, 0), ACK]))
        out.append(("C07-abandon-data", [tok("SETUP", 0, 0), dat("DATA0", GD), tok("IN", 0, 0), ACK] + full_in(0, GS)))
        out.append(("C07-abandon-status-noack", [tok("SETUP", 0, 0), dat("DATA0", SC), tok("IN", 0, 0)] + full_in(0, GC)))
        on = [{"a": "src", "en": 1}]
        for v, ln in ((0x100, 18), (0x200, 9), (0x302, 2)):
            out.append(("C07b-foreign-ack-before-retransmission",
                        on + [tok("SETUP", 0, 0), dat("DATA0", S(0x80, 6, v, 0, ln)), tok("IN", 0, 0), tok("IN", 0, 1), ACK,
                              tok("IN", 0, 0), ACK, tok("OUT", 0, 0), dat("DATA1", [])]))
        out.append(("C08c-foreign-ack-before-clear-feature-status",
                    on + [tok("SETUP", 0, 0), dat("DATA0", S(2, 1, 0, 0x81, 0)), tok("IN", 0, 1), ACK, tok("IN", 0, 0), ACK]))
        out.append(("C08c-foreign-ack-after-lost-status-ack",
                    on + [tok("SETUP", 0, 0), dat("DATA0", S(2, 1, 0, 0x02, 0)), tok("IN", 0, 0), tok("IN", 0, 1), ACK,
                          tok("IN", 0, 0), ACK]))
        far = [tok("IN", 9, 1), dict(FACK)]
        for v, ln in ((0x100, 18), (0x302, 2)):
            # FA: the host's ACK of ANOTHER ADDRESS's data while our descriptor packet is unacknowledged
            out.append(("FA-foreign-address-ack-before-retransmission",
                        [tok("SETUP", 0, 0), dat("DATA0", S(0x80, 6, v, 0, ln)), tok("IN", 0, 0)] + far
                        + [tok("IN", 0, 0), ACK, tok("OUT", 0, 0), dat("DATA1", [])] + sanity(0)))
        out.append(("C07-reset-midway", [tok("SETUP", 0, 0), dat("DATA0", GD), {"a": "reset"}] + full_in(0, GC)))
    if prop == "C10":
        on = [{"a": "src", "en": 1}]
        out.append(("C08c-foreign-ack-before-stalled-clear-feature-status",
                    on + [tok("SETUP", 0, 0), dat("DATA0", S(1, 1, 0, 0, 0)), tok("IN", 0, 1), ACK, tok("IN", 0, 0)]))
        out.append(("C08c-foreign-ack-before-stalled-clear-feature-status",
                    on + [tok("SETUP", 0, 0), dat("DATA0", S(0, 1, 1, 0, 0)), tok("IN", 0, 1), ACK, tok("IN", 0, 0)]))
    if prop in ("C20", "C06"):
        # data after an unreadable token: the endpoint named by the *previous* OUT token takes (and ACKs) it
        pre = [tok("OUT", 0, 2), dat("DATA0", [1, 2, 3])]
        out.append(("C20a-bad-crc5-out-token", pre + [tok("OUT", 0, 2, ok=False), dat("DATA1", [4, 5, 6]), tok("IN", 0, 3)]))
        out.append(("C20a-truncated-out-token", pre + [tok("OUT", 0, 2, trunc=2), dat("DATA1", [4, 5, 6]), tok("IN", 0, 3)]))
        out.append(("C20a-bad-crc5-setup-token", pre + [tok("SETUP", 0, 0, ok=False), dat("DATA0", GS), tok("IN", 0, 0)]))
    if prop == "C08":
        on = [{"a": "src", "en": 1}]
        for d in range(2, 17, 2):
            # the foreign endpoint's handshake at every distance from the SETUP's ACK / from the un-ACKed status ZLP
            out.append(("C08-foreign-ack-before-status@d=%d" % d,
                        on + spaced([tok("SETUP", 0, 0), dat("DATA0", SA), tok("IN", 0, 1), dict(ACK)], d)
                        + [tok("IN", 0, 0), ACK] + sanity(5)))
            out.append(("C08-foreign-ack-after-lost-status-ack@d=%d" % d,
                        on + spaced([tok("SETUP", 0, 0), dat("DATA0", SC), tok("IN", 0, 0), tok("IN", 0, 1), dict(ACK)], d)
                        + [tok("IN", 0, 0), ACK] + sanity(0)))
        far = [tok("IN", 9, 1), dict(FACK)]
        for s8, a_new in ((SA, 5), (SC, 0), (S(2, 1, 0, 0x81, 0), 0)):
            # FA: status ZLP sent, its ACK lost, then the host ACKs ANOTHER ADDRESS's data: nothing may be committed
            out.append(("FA-foreign-address-ack-after-lost-status-ack",
                        on + [tok("IN", 0, 1), ACK, tok("SETUP", 0, 0), dat("DATA0", s8), tok("IN", 0, 0)] + far
                        + [tok("IN", 0, 3), tok("IN", 0, 1), ACK, tok("IN", 0, 0), ACK] + sanity(a_new)))
        out.append(("C08-foreign-ack-before-status", on + [tok("SETUP", 0, 0), dat("DATA0", SA), tok("IN", 0, 1), ACK,
                                                           tok("IN", 0, 0), ACK, tok("IN", 5, 3), tok("IN", 0, 3)]))
        out.append(("C08-foreign-ack-before-status-cfg", on + [tok("SETUP", 0, 0), dat("DATA0", SC), tok("IN", 0, 1), ACK,
                                                               tok("IN", 0, 0), ACK]))
        out.append(("C08-foreign-ack-after-lost-status-ack",
                    on + [tok("SETUP", 0, 0), dat("DATA0", SA), tok("IN", 0, 0), tok("IN", 0, 1), ACK, tok("IN", 0, 0), ACK]))
        out.append(("C08-foreign-ack-after-lost-status-ack-cfg",
                    on + [tok("SETUP", 0, 0), dat("DATA0", S(0, 9, 7, 0, 0)), tok("IN", 0, 0), tok("IN", 0, 1), ACK]))
    return out


def script_from_behaviour(beh):
    """A TLC-simulated behaviour of MCUsb2Ctl -> host script (the model's choice of device response is dropped:
    the real device answers; `hs` is only sent if the device really sent data)."""
    junk = [[0x00], [0xA5, 1, 2], [0x2D, 0x00]]
    s = []
    for i, (_, st) in enumerate(beh[1:]):
        a = st["act"]
        k = a["a"]
        if k == "tok":
            s.append(tok(a["pid"], a["addr"], a["ep"], ok=bool(a["ok"])))
        elif k == "data":
            s.append(dat(a["pid"], a["bytes"], ok=bool(a["ok"])))
        elif k == "hs":
            s.append(dict(ACK))
        elif k == "sof":
            s.append(sof_at(st["addr"] + (0, 0, 1)[i % 3], i))      # low 7 frame bits = the device address (or next to it)
        elif k == "junk":
            s.append({"a": "junk", "bytes": junk[i % len(junk)]})
        elif k == "reset":
            s.append({"a": "reset"})
    return s


# =================================================================================================
# running and judging
# =================================================================================================
def split_status(status):
    clause, _, kf = status.partition("@")
    return clause, (kf or "none")


def classify(trace, matched, status, meta):
    clause, kf = split_status(status)
    return {"clause": clause, "pattern": kf}


def _desc_len(b):
    out = {}
    for t, i, raw in b.descriptors:
        out[(int(t) << 8) | int(i)] = len(raw)
    return out


def trace_cfg(b, max0, unit=False):
    return tlc.render_cfg(_cfg("Usb2CtlTrace.cfg.tmpl"), {
        "MaxPkt0": max0, "KnownDesc": TlaSet(sorted(b.known_desc)) if b is not None else TlaSet([]),
        "InEps": TlaSet([b.bulk_in_ep] if b is not None and b.bulk_in else []),
        "OutEps": TlaSet([b.bulk_out_ep] if b is not None and b.bulk_out else []),
        "Unit": unit,
        "Skipped": TlaSet(list(b.skip) if b is not None else []), "Claimed": TlaSet(list(b.claimed) if b is not None else [])})


def judge(rep, prop, items, cfg, label):
    """Validate (trace, meta) items with TLC; report per clause ownership.  Returns #accepted."""
    if not items:
        return 0
    owned = []
    env_cut = 0
    foreign = {}
    # first pass through TLC
    with _Phase(rep, "validate %s (%d traces, %d steps)" % (label, len(items), sum(len(t) for t, _ in items))):
        verdicts, res = tlc.validate_traces(SPEC_DIR, "Usb2CtlTrace", cfg, [t for t, _ in items], timeout=900)
    ok = steps = 0
    for (trace, meta), (matched, status) in zip(items, verdicts):
        if status == "ok" and matched == len(trace):
            ok += 1
            steps += len(trace)
            _account(rep, trace)
            continue
        clause, kf = split_status(status)
        if clause in ENV_CLAUSES:
            # the open-loop host script left the Env (e.g. the device answered differently from what the script
            # assumed): the prefix before that step is a legal host behaviour and was fully validated
            if clause == "env_crc_flag":
                raise tlc.TLCError("host model CRC flag inconsistent with the bytes it sent: %s" % (trace[matched - 1],))
            env_cut += 1
            ok += 1
            steps += matched - 1
            _account(rep, trace[:matched - 1])
            continue
        if prop not in CLAUSE_OWNER.get(clause, {prop}):
            foreign[clause] = foreign.get(clause, 0) + 1
            if len(rep.drift) < 10:
                rep.drift.append({"note": "trace rejected by a clause owned by another property (run its check)",
                                  "clause": clause, "owner": sorted(CLAUSE_OWNER[clause]), "meta": meta,
                                  "record": trace[matched - 1]})
            continue
        owned.append((trace, meta, matched, status))
    rep.add_traces(ok, steps)
    for trace, meta, matched, status in owned:
        sig = classify(trace, matched, status, meta)
        what = ("%s %s: real-gateware trace rejected by Usb2CtlTrace at step %d/%d, clause '%s' (known-finding "
                "trigger hit before: %s); last records: %s" % (label, meta, matched, len(trace), sig["clause"],
                                                                sig["pattern"], _brief(trace[max(0, matched - 3):matched])))
        rep.violation(sig, what, {"meta": meta, "failing_step": matched, "clause": status,
                                  "trace_prefix": trace[:matched + 1]})
    if env_cut:
        rep.notes.append("%s: %d of %d host scripts left the Env before their end (prefix validated)"
                         % (label, env_cut, len(items)))
        if env_cut * 4 > len(items) and len(items) >= 8:
            raise tlc.TLCError("%s: too many host scripts outside the Env (%d/%d): generator out of step with the spec"
                               % (label, env_cut, len(items)))
    if foreign:
        rep.notes.append("%s: rejections by clauses of other properties (not counted here): %s" % (label, foreign))
    return ok


def _brief(recs):
    keep = ("a", "pid", "addr", "ep", "ok", "bytes", "n", "raw", "gap", "ovl", "su", "sf", "oa", "oc")
    return [{k: r[k] for k in keep if k in r and r[k] not in ("", [], 0, False) or k in ("a", "n")} for r in recs]


def _account(rep, trace):
    rep.add_eval(len(trace))
    for r in trace:
        raw = r["raw"]
        if r["n"] or r["su"] or r["a"] in ("data", "hs", "reset"):
            rep.nontriv((r["a"], r["pid"], r["ok"], len(r["bytes"]), r["ep"] if r["a"] == "tok" else -1,
                         tuple(raw[:1]), len(raw), r["su"], r["oa"] != 0, r["oc"]))


def model_check(rep, prop):
    quick = rep.tier == "quick"
    rows = MC_ROWS[prop] if quick else ALL_ROWS
    addrs = [0, 5] if quick else [0, 5, 85]
    cfg = tlc.render_cfg(_cfg("MCUsb2Ctl.cfg.tmpl"), {"Clean": False, "View": "RefView", "SetupIdx": TlaSet(rows),
                                                      "Addrs": TlaSet(addrs), "Skipped": TlaSet([]), "Claimed": TlaSet([])})
    with _Phase(rep, "model-check"):
        # small graph + per-expression coverage counters: more than a few workers only contend
        res = tlc.model_check(SPEC_DIR, "MCUsb2Ctl", cfg, workers=2 if quick else 4, timeout=3000,
                              allow_uncovered=MC_UNCOVERED[prop] if quick else ())
    rep.add_mc("MCUsb2Ctl complete reachable graph, SetupTable rows %s, addresses %s + foreign 9" % (rows, addrs), res,
               {"setup_rows": rows, "addresses": addrs, "MaxPkt0": 2, "transfers": "unbounded",
                "interleaving": "unbounded", "response_alphabet": "none/ACK/NAK/STALL/DATA0|1 x 6 payloads"})
    if not quick:
        # the Env restricted to the clean class must still reach every branch except the carved-out ones
        cfg = tlc.render_cfg(_cfg("MCUsb2Ctl.cfg.tmpl"), {"Clean": True, "View": "CoreView", "SetupIdx": TlaSet(ALL_ROWS),
                                                          "Addrs": TlaSet([0, 5]), "Skipped": TlaSet([]), "Claimed": TlaSet([])})
        res = tlc.model_check(SPEC_DIR, "MCUsb2Ctl", cfg, workers=4, timeout=3000)
        rep.add_mc("MCUsb2Ctl, Env restricted to the clean class (Clean = TRUE)", res, {"Clean": True})
        # the configuration parameters of the specification: a skiplist and a custom handler's claim
        cfg = tlc.render_cfg(_cfg("MCUsb2Ctl.cfg.tmpl"), {"Clean": False, "View": "RefView", "SetupIdx": TlaSet(ALL_ROWS),
                                                          "Addrs": TlaSet([0, 5]), "Skipped": TlaSet([0, 9]),
                                                          "Claimed": TlaSet([2 * 256 + 5])})
        res = tlc.model_check(SPEC_DIR, "MCUsb2Ctl", cfg, workers=4, timeout=3000, allow_uncovered=("ACommitCfg",))
        rep.add_mc("MCUsb2Ctl, Skipped = {GET_STATUS, SET_CONFIGURATION}, Claimed = {vendor 5}", res,
                   {"Skipped": [0, 9], "Claimed": [517]})


def simulated_scripts(rep, prop, b, max0, num, depth):
    """Host behaviours generated by TLC from the spec (clean class), over the model's packet alphabet."""
    rows = sorted(set(MC_ROWS[prop] + [1, 2, 3, 4]))
    cfg = tlc.render_cfg(_cfg("MCUsb2Ctl_sim.cfg.tmpl"), {
        "SetupIdx": TlaSet(rows), "Addrs": TlaSet([0, 5, 85]), "MaxPkt0": max0, "KnownDesc": TlaSet(sorted(b.known_desc)),
        "Skipped": TlaSet(list(b.skip)), "Claimed": TlaSet(list(b.claimed))})
    with _Phase(rep, "tlc-simulate"):
        behs = tlc.simulate(SPEC_DIR, "MCUsb2Ctl", cfg, num=num, depth=depth,
                            seed=rep.seed * 31 + sum(ord(c) for c in prop))
    return [script_from_behaviour(bh) for bh in behs]


# DUT configurations (constructor parameters of USBControlEndpoint / StandardRequestHandler / the endpoints / USBDevice).
# "A" is the default and always runs in full; the quick tier adds ONE of the others, rotated by seed and property (with the
# default seed the five properties cover B..E between them); the thorough tier runs them all.
CONFIGS = {
    "A": dict(ep0_max=64),
    "B": dict(ep0_max=8),
    "C": dict(ep0_max=16, avoid_blockram=True, bulk_in_ep=3, bulk_out_ep=4, full_speed_only=0),
    "D": dict(ep0_max=32, skip=(0,), skip_kw="skiplist", custom=True, stall_only=True),
    "E": dict(ep0_max=64, skip=(8, 9), skip_kw="blacklist", bulk_in_ep=15, bulk_out_ep=1),
    "F": dict(ep0_max=64, avoid_blockram=True),
}
PROPS = ["C06", "C07", "C08", "C10", "C20"]
# which secondary configuration the quick tier adds for seed 1, 2, 3, 4 (mod 4): the one closest to the property first
QUICK_ROTATION = {"C06": "CBDE", "C07": "BDEC", "C08": "ECBD", "C10": "DEBC", "C20": "CBED"}


def remap_eps(script, in_ep, out_ep):
    """Scripts are written for bulk IN = ep1, bulk OUT = ep2, ep3 = no such endpoint; move them to this DUT's numbers."""
    if (in_ep, out_ep) == (1, 2):
        return script
    free = next(e for e in (3, 5, 6, 7) if e not in (in_ep, out_ep))
    m = {1: in_ep, 2: out_ep, 3: free}
    out = []
    for a in script:
        if a["a"] == "tok" and a["ep"] in m:
            a = dict(a, ep=m[a["ep"]])
        out.append(a)
    return out


def domain_reset_scripts(prop):
    """The reset of the DUT's clock domain in the middle of a transfer / a transmission: afterwards the device is in its
    power-on state (address 0, unconfigured, nothing in progress) and the next control transfers work."""
    GS, GC, GD = S(0x80, 0, 0, 0, 2), S(0x80, 8, 0, 0, 1), S(0x80, 6, 0x100, 0, 18)
    SA, SC = S(0, 5, 5, 0, 0), S(0, 9, 1, 0, 0)
    pre = [tok("SETUP", 0, 0), dat("DATA0", SA), tok("IN", 0, 0), dict(ACK), tok("SETUP", 5, 0), dat("DATA0", SC),
           tok("IN", 5, 0), dict(ACK)]
    mids = {"idle": [], "after-setup": [tok("SETUP", 5, 0), dat("DATA0", GD)],
            "in-data-stage": [tok("SETUP", 5, 0), dat("DATA0", GD), tok("IN", 5, 0)],
            "status-pending": [tok("SETUP", 5, 0), dat("DATA0", S(0, 5, 9, 0, 0)), tok("IN", 5, 0)],
            "after-setup-token": [tok("SETUP", 5, 0, wait=3)],
            "bulk": [{"a": "src", "en": 1}, tok("IN", 5, 1)]}
    out = []
    for name, mid in mids.items():
        for cyc in (1, 3):
            out.append(("domain-reset %s x%d" % (name, cyc), pre + mid + [{"a": "dreset", "cycles": cyc}, tok("IN", 5, 3), tok("IN", 0, 0)]
                        + sanity(0) + [tok("SETUP", 0, 0), dat("DATA0", GD), tok("IN", 0, 0), dict(ACK), tok("OUT", 0, 0), dat("DATA1", [])]))
    return out


def run_device(rep, prop, with_witness=True):
    """Steps 2+3 on the full device."""
    from ..hosts import usb2dev
    quick = rep.tier == "quick"
    rng = rep.rng
    total_ok = 0
    if quick:
        names = ["A", QUICK_ROTATION[prop][(rep.seed - 1) % 4]]
    else:
        names = list(CONFIGS)
    rep.notes.append("DUT configurations elaborated: %s" % {n: CONFIGS[n] for n in names})
    for cname in names:
        conf = dict(CONFIGS[cname])
        max0 = conf["ep0_max"]
        main = cname == "A"
        runner = usb2dev.DeviceRunner(rng, domain_reset=True, **conf)
        b = runner.b
        fix = lambda sc, b=b: remap_eps(sc, b.bulk_in_ep, b.bulk_out_ep)
        desc_len = _desc_len(b)
        cfg = trace_cfg(b, max0)
        label = "USBDevice(config %s: %s)" % (cname, ", ".join("%s=%s" % kv for kv in sorted(conf.items())))
        items = []
        stress = prop == "C20"
        # (quick tier: TLC-simulated behaviours go to the default configuration only - one JVM less)
        sims = [] if (quick and not main) else simulated_scripts(rep, prop, b, max0, (20 if quick else 150) if main else 40,
                                                                 25 if quick else 40)
        with _Phase(rep, "pysim %s" % label):
            # (a) spec -> code
            for i, sc in enumerate(sims):
                if not sc:
                    continue
                tr = runner.run(fix([{"a": "src", "en": 1}] + sc if i % 2 else sc),
                                gap_prob=0.2 if stress else 0.0, stall_prob=0.3 if stress and i % 3 else 0.0)
                items.append((tr, {"dut": label, "origin": "tlc-simulate", "n": i}))
            # (b) code -> spec: structured random host behaviours beyond the model's alphabet
            n_rand = (24 if quick else 200) if main else (12 if quick else 60)
            for i in range(n_rand):
                sc = gen_clean(rng, prop, desc_len, max0, rng.randint(2, 6), skip=b.skip, claimed=b.claimed)
                tr = runner.run(fix(sc), gap_prob=rng.choice([0.0, 0.0, 0.3]) if not stress else rng.choice([0.0, 0.3, 0.6]),
                                stall_prob=rng.choice([0.0, 0.0, 0.4]) if not stress else rng.choice([0.0, 0.4, 0.7]))
                items.append((tr, {"dut": label, "origin": "random-clean", "n": i}))
            # (b') systematic alignment sweeps: every distance between bus events, every stall / gap position
            dist = (QUICK_DISTANCES if main else (2, 5)) if quick else (range(2, 25) if main else (2, 3, 5, 9))
            for name, sc in aligned_scripts(prop, desc_len, max0, dist):
                if not main and ("stalls=" in name or " gap@" in name or " +foreign" in name or " +sof" in name
                                 or name.startswith("trail-")):
                    continue
                tr = runner.run(fix(sc), gap_prob=0.0, stall_prob=0.0)
                items.append((tr, {"dut": label, "origin": "aligned", "case": name}))
            # (b3) the clock-domain reset in the middle of things
            for name, sc in domain_reset_scripts(prop)[::1 if main or not quick else 3]:
                tr = runner.run(fix(sc), gap_prob=0.0, stall_prob=0.0)
                items.append((tr, {"dut": label, "origin": "domain-reset", "case": name}))
            # (c) witnesses of open findings of this property (and regression for repaired ones)
            if with_witness and main:
                for name, sc in witness_scripts(prop, desc_len):
                    tr = runner.run(fix(sc), gap_prob=0.0, stall_prob=0.0)
                    items.append((tr, {"dut": label, "origin": "witness", "witness": name}))
        total_ok += judge(rep, prop, items, cfg, label)
        if items:
            rep.sample({"dut": label, "origin": items[0][1]["origin"], "first_records": _brief(items[0][0][:6])})
    return total_ok


def unit_decoder(rep, prop="C06"):
    """C06 at unit level: stand-alone USBSetupDecoder (which contains the USBDataPacketDeserializer) with the
    60 MHz full-speed and high-speed timer tables."""
    from ..hosts import usb2dev
    from luna.gateware.usb.usb2 import USBSpeed
    quick = rep.tier == "quick"
    rng = rep.rng
    items = []
    for speed, name, min_gap, max_gap in ((USBSpeed.FULL, "FS", 10, 90), (USBSpeed.HIGH, "HS", 1, 102),
                                          (USBSpeed.LOW, "LS", 80, 270)):
        runner = usb2dev.DecoderRunner(rng, speed, window=(min_gap, max_gap))
        light = quick and name == "LS"          # third speed class: sweeps and witnesses only in the quick tier
        cfg = trace_cfg(None, 64, unit=True)
        label = "USBSetupDecoder(standalone, %s, 60 MHz)" % name
        for i in range((0 if light else 12) if quick else 200):
            g = Gen(rng, {}, 64, bulk=False)
            for _ in range(rng.randint(2, 6)):
                s8 = [rng.randrange(256) for _ in range(8)]
                how = rng.choice(["good", "good", "good", "crc", "short", "long", "tokonly", "trunc", "badtok"])
                g.setup(s8, how)
                if how not in ("good", "badtok"):
                    g.disarm()
                while rng.random() < 0.4:
                    g.noise(["foreign_in", "foreign_out", "foreign_setup", "sof", "junk", "badtok", "none_ep", "long_bad"])
                if rng.random() < 0.3:
                    g.emit(tok("IN", 0, 0))
                if rng.random() < 0.2:
                    g.emit(tok("OUT", 0, rng.choice([0, 1])), dat("DATA1", [rng.randrange(256) for _ in range(rng.choice([0, 3, 8]))]))
            tr = runner.run(g.s, gap_prob=rng.choice([0.0, 0.3]))
            items.append((tr, {"dut": label, "origin": "random-clean", "n": i}))
        for wname, sc in witness_scripts("C06", {}):
            tr = runner.run(sc)
            items.append((tr, {"dut": label, "origin": "witness", "witness": wname}))
        for cname, sc in aligned_scripts("C06", {}, 64, (2, 7) if quick else (2, 3, 5, 7, 11, 16)):
            if cname.startswith(("runt-", "trail-", "bad-crc", "back-to-back", "setup-data gap")):
                tr = runner.run(sc)
                items.append((tr, {"dut": label, "origin": "aligned", "case": cname}))
        rep.sample({"dut": label, "first_records": _brief(items[-1][0][:4])})
    # one TLC run for the three speeds: the response window travels with the records
    judge(rep, prop, items, cfg, "USBSetupDecoder(standalone, FS/HS/LS, 60 MHz)")


def _common(rep, prop):
    rep.rule = ("one record per host packet with the real device's reaction, validated by TLC against Usb2Ctl.tla; "
                "non-trivial = the device answered, a setup strobe fired, or the host packet was a data/handshake/"
                "reset; distinct by (action, pid, crc ok, payload length, endpoint, response PID, response length, "
                "strobes, address set, configuration)")
    for a in _NOTE.split(". ")[:7]:
        rep.assume(a.strip().rstrip(".") + ".")
    rep.assume("the open known finding (foreign-address ACK while a control packet of the device is outstanding) is carved "
               "out by KF_FA of Usb2Ctl.tla: clean stimuli avoid it, witness stimuli FA-* hit it; the witnesses of the "
               "repaired findings stay in as regression")
    model_check(rep, prop)
    run_device(rep, prop)


def check_C06(rep):
    _common(rep, "C06")
    unit_decoder(rep)


def check_C07(rep):
    _common(rep, "C07")


def check_C08(rep):
    _common(rep, "C08")


def check_C10(rep):
    _common(rep, "C10")


def check_C20(rep):
    _common(rep, "C20")


CHECKS = {"C06": check_C06, "C07": check_C07, "C08": check_C08, "C10": check_C10, "C20": check_C20}
