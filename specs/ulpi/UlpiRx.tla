------------------------------- MODULE UlpiRx -------------------------------
(***************************************************************************)
(* C22 — ULPI receive translation (UTMITranslator receive path).           *)
(*                                                                         *)
(* Grain: one step = one 60 MHz ULPI clock cycle.                          *)
(*   Env  : what a ULPI 1.1 PHY may present in a cycle (DIR, NXT, DATA),   *)
(*          section 3.8: DIR rises (turn-around cycle; with NXT = receive  *)
(*          start, alone = RxCmd turn-around); while DIR stays high every  *)
(*          cycle is a data byte (NXT=1, only inside a receive) or an      *)
(*          RxCmd byte (NXT=0); DIR may fall at any point (NXT low in that *)
(*          cycle); after a DIR+NXT start the PHY may present an RxCmd or  *)
(*          data at once.  With DIR low NXT is free (transmit side).       *)
(*   Ref  : the PHY-side truth the property talks about — is a receive in  *)
(*          progress (phyRx), which bytes were presented as packet data    *)
(*          (pend, with age and packet number), the most recent RxCmd —    *)
(*          and the allowed UTMI-side outputs of every cycle:              *)
(*            * rx_valid/rx_data report the pending bytes in order, each   *)
(*              once, 1..MaxDataLat cycles after it was presented;         *)
(*            * rx_active equals the PHY's receive state of one of the     *)
(*              last MaxLat cycles (latency window), is high with every    *)
(*              rx_valid and is seen low between two packets;              *)
(*            * the status flags decode the RxCmd that was the most recent *)
(*              one at one of the last MaxLat cycles.                      *)
(*          RefOut is the latency-1 function (what the module documents).  *)
(*   Prop : ghost logs sent/got: nothing lost, duplicated, reordered or    *)
(*          invented; RxCmd bytes never appear as data.                    *)
(***************************************************************************)
EXTENDS UlpiCommon

CONSTANTS MaxLat,        \* latency window for rx_active / status flags (cycles)
          MaxDataLat,    \* a presented byte must be reported within this many cycles
          CheckStream,   \* FALSE for DUTs without the UTMI data path (register window + RxCmd decoder only)
          AllowKF        \* Env switch: are the triggers of the open findings (KF_* below) part of the Env?

VARIABLES pdir,      \* DIR of the previous cycle (0/1)
          phyRx,     \* PHY truth: a receive is in progress after the last cycle
          cmdStart,  \* the last cycle was an RxCmd that raised RxActive 0 -> 1
          nxtStart,  \* the last cycle was a DIR rise with NXT (receive start while DIR was low)
          rrPhase,   \* register read answered by the PHY: 0 none, 1 last cycle was its turn-around, 2 its data byte
          rxHist,    \* phyRx after each of the last MaxLat cycles, newest first
          cmdHist,   \* most recent RxCmd as of each of the last MaxLat cycles, newest first (NoCmd = none yet)
          pend,      \* presented, not yet reported data bytes, oldest first: [b, age, pkt]
          pktNo,     \* receive starts so far
          plen,      \* data bytes presented in the current/last packet
          lastPkt,   \* packet number of the last reported byte (0 = none)
          lowSeen,   \* rx_active observed low since the last reported byte
          sent, got, \* ghosts: every data byte presented / reported, in order
          in, out,   \* the cycle that led to this state: Env inputs, link outputs
          chk        \* name of the first failing clause for `out` ("ok" if none)

rvars == <<pdir, phyRx, cmdStart, nxtStart, rrPhase, rxHist, cmdHist, pend, pktNo, plen, lastPkt, lowSeen, sent, got, in, out, chk>>

NoCmd == 256

B(x) == IF x THEN 1 ELSE 0

-----------------------------------------------------------------------------
(* Env *)
IsTurn(i) == i.dir = 1 /\ pdir = 0
IsData(i) == i.dir = 1 /\ pdir = 1 /\ i.nxt = 1
IsCmd(i)  == i.dir = 1 /\ pdir = 1 /\ i.nxt = 0 /\ i.rr = 0
\* the data byte of a register read (i.rr = 1: the PHY answers a read command of the link, ULPI 1.1 s3.8.3.1):
\* turn-around, one byte with NXT low, turn-around.  It is neither packet data nor an RxCmd.
IsRead(i) == i.dir = 1 /\ pdir = 1 /\ i.nxt = 0 /\ i.rr = 1

\* The triggers of the open findings of this property, as named Env predicates (clean stimuli avoid them).
\* (1) a data byte directly follows the RxCmd that raised RxActive 0 -> 1
KF_CmdStartThenByte(i) == cmdStart /\ IsData(i)
\* (2) a receive is announced by an RxCmd although the most recent RxCmd already had RxActive = 1
\*     (the previous receive ended by DIR falling, without an RxCmd clearing RxActive)
KF_StaleCmdStart(i) == IsCmd(i) /\ RxActiveBit(i.di) /\ ~phyRx /\ cmdHist[1] # NoCmd /\ RxActiveBit(cmdHist[1])

LegalIn(i) ==
    /\ (i.dir = 0 /\ pdir = 1) => i.nxt = 0            \* DIR falls with NXT low
    /\ IsData(i) => phyRx                              \* data bytes only inside a receive
    /\ i.rr = 1 => (IsRead(i) /\ rrPhase = 1)              \* read data directly follows its turn-around
    /\ rrPhase = 2 => i.dir = 0                            \* ... and is followed by the closing turn-around
    /\ (KF_CmdStartThenByte(i) \/ KF_StaleCmdStart(i)) => AllowKF

-----------------------------------------------------------------------------
(* Ref: allowed outputs.  Failing(o) names the first violated clause, evaluated in the
   state *before* the cycle's inputs are consumed (outputs are registered). *)
FlagsLs(o, c)  == o.ls = RxLineState(c)
FlagsVb(o, c)  == /\ o.vv = B(RxVbus(c) = 3)
                  /\ (RxVbus(c) <= 2 => o.sv = B(RxVbus(c) = 2))
                  /\ (RxVbus(c) <= 1 => o.se = B(RxVbus(c) = 0))
FlagsEv(o, c)  == o.rxe = B(RxEvent(c) = 3) /\ o.hd = B(RxEvent(c) = 2) /\ o.idd = RxIdBit(c)
FlagsAll(o, c) == c = NoCmd \/ (FlagsLs(o, c) /\ FlagsVb(o, c) /\ FlagsEv(o, c))
Win == 1..MaxLat

FlagsFailing(o) ==
    IF ~(\E k \in Win : cmdHist[k] = NoCmd \/ FlagsLs(o, cmdHist[k])) THEN "line_state"
    ELSE IF ~(\E k \in Win : cmdHist[k] = NoCmd \/ FlagsVb(o, cmdHist[k])) THEN "vbus_flags"
    ELSE IF ~(\E k \in Win : cmdHist[k] = NoCmd \/ FlagsEv(o, cmdHist[k])) THEN "rx_event_flags"
    ELSE IF ~(\E k \in Win : FlagsAll(o, cmdHist[k])) THEN "status_flags"
    ELSE "ok"

Rest(o) == IF o.rxv = 1 /\ pend # <<>> THEN Tail(pend) ELSE pend

Failing(o) ==
    IF ~CheckStream THEN FlagsFailing(o)
    ELSE IF o.rxv = 1 /\ pend = <<>> THEN "rx_valid_spurious"
    ELSE IF o.rxv = 1 /\ o.rxd # pend[1].b THEN
           (IF pend[1].age >= MaxDataLat - 1 THEN "rx_byte_dropped" ELSE "rx_data")
    ELSE IF o.rxv = 1 /\ o.rxa # 1 THEN "rx_valid_outside_active"
    ELSE IF o.rxv = 1 /\ lastPkt # 0 /\ pend[1].pkt # lastPkt /\ ~lowSeen THEN "rx_packets_merged"
    ELSE IF \E k \in 1..Len(Rest(o)) : Rest(o)[k].age >= MaxDataLat - 1 THEN "rx_byte_dropped"
    ELSE IF ~(\E k \in Win : rxHist[k] = (o.rxa = 1)) THEN "rx_active"
    ELSE FlagsFailing(o)

\* The documented behaviour (one cycle of processing delay) as a function of the state.
RefCmd == IF cmdHist[1] = NoCmd THEN 0 ELSE cmdHist[1]
RefOut == [rxv |-> B(pend # <<>>), rxd |-> IF pend # <<>> THEN pend[1].b ELSE 0,
           rxa |-> B(rxHist[1]),
           ls |-> RxLineState(RefCmd), vv |-> B(RxVbus(RefCmd) = 3), sv |-> B(RxVbus(RefCmd) = 2),
           se |-> B(RxVbus(RefCmd) = 0), rxe |-> B(RxEvent(RefCmd) = 3), hd |-> B(RxEvent(RefCmd) = 2),
           idd |-> RxIdBit(RefCmd)]

NoOut == [rxv |-> 0, rxd |-> 0, rxa |-> 0, ls |-> 0, vv |-> 0, sv |-> 0, se |-> 1, rxe |-> 0, hd |-> 0, idd |-> 0]
NoIn  == [dir |-> 0, nxt |-> 0, di |-> 0, rr |-> 0]

Init == /\ pdir = 0 /\ phyRx = FALSE /\ cmdStart = FALSE /\ nxtStart = FALSE /\ rrPhase = 0
        /\ rxHist = [k \in Win |-> FALSE]
        /\ cmdHist = [k \in Win |-> NoCmd]
        /\ pend = <<>> /\ pktNo = 0 /\ plen = 0 /\ lastPkt = 0 /\ lowSeen = TRUE
        /\ sent = <<>> /\ got = <<>>
        /\ in = NoIn /\ out = NoOut /\ chk = "ok"

(* One clock cycle: the link shows outputs o, the PHY presents i. *)
Step(i, o) ==
    LET rx1     == IF i.dir = 0 THEN FALSE
                   ELSE IF IsTurn(i) THEN i.nxt = 1
                   ELSE IF IsCmd(i) THEN RxActiveBit(i.di)
                   ELSE phyRx
        started == rx1 /\ ~phyRx
        rep     == o.rxv = 1 /\ pend # <<>>
        rest    == Rest(o)
        aged    == [k \in 1..Len(rest) |-> [rest[k] EXCEPT !.age = @ + 1]]
        pk1     == IF started THEN pktNo + 1 ELSE pktNo
        cmd1    == IF IsCmd(i) THEN i.di ELSE cmdHist[1]
    IN /\ chk' = Failing(o)
       /\ in' = i /\ out' = o
       /\ pdir' = i.dir
       /\ phyRx' = rx1
       /\ cmdStart' = (IsCmd(i) /\ started)
       /\ nxtStart' = (IsTurn(i) /\ i.nxt = 1)
       /\ rrPhase' = IF IsTurn(i) /\ i.nxt = 0 THEN 1 ELSE IF IsRead(i) THEN 2 ELSE 0
       /\ rxHist' = [k \in Win |-> IF k = 1 THEN rx1 ELSE rxHist[k - 1]]
       /\ cmdHist' = [k \in Win |-> IF k = 1 THEN cmd1 ELSE cmdHist[k - 1]]
       /\ pktNo' = pk1
       /\ plen' = IF started THEN 0 ELSE IF IsData(i) THEN plen + 1 ELSE plen
       /\ pend' = IF IsData(i) THEN Append(aged, [b |-> i.di, age |-> 0, pkt |-> pktNo]) ELSE aged
       /\ lastPkt' = IF rep THEN pend[1].pkt ELSE lastPkt
       /\ lowSeen' = IF rep THEN FALSE ELSE (lowSeen \/ o.rxa = 0)
       /\ sent' = IF IsData(i) THEN Append(sent, i.di) ELSE sent
       /\ got' = IF o.rxv = 1 THEN Append(got, o.rxd) ELSE got

-----------------------------------------------------------------------------
(* Prop *)
PendBytes == [k \in 1..Len(pend) |-> pend[k].b]

\* exactly the presented data bytes, in order, each once (nothing lost, duplicated, invented)
ExactlyTheBytes == got \o PendBytes = sent
\* at most MaxDataLat bytes can be outstanding
BoundedLag == Len(pend) <= MaxDataLat
\* the reference function is one of the allowed behaviours
RefAllowed == chk = "ok"
=============================================================================
