------------------------------- MODULE MCEpIn -------------------------------
(***************************************************************************)
(* Exhaustive model of one IN endpoint (C11): every input stream within    *)
(* the bounds (bytes, `last` markers, flush observations), every timing of *)
(* IN tokens relative to the stream, every answer the reference relation   *)
(* allows, and every host reaction (ACK delivered / ACK lost after the     *)
(* host accepted the packet / packet not received by the host).            *)
(* Prop = the C11 statements over the ghost host (EpIn!InInv) plus the     *)
(* action properties below.                                                *)
(***************************************************************************)
EXTENDS EpIn, TLC

CONSTANTS MaxPkt,      \* max packet size of the endpoint
          MaxStream,   \* bytes offered at most
          MaxLasts,    \* transfer ends at most
          MaxLost,     \* un-ACKed data packets at most
          MaxFlush     \* flush observations at most

VARIABLES s,           \* the endpoint's reference state (EpIn record)
          ev,          \* Env/observation: the event that led to this state
          lost, nfl

vars == <<s, ev, lost, nfl>>

NLasts == Cardinality({i \in 1..Len(s.off) : s.off[i].l})

Init == s = InInit /\ ev = [e |-> "init"] /\ lost = 0 /\ nfl = 0

\* stream producer: byte values are the stream position (Ref never looks at values)
Beat == /\ Len(s.off) < MaxStream
        /\ InPend(s) < 2 * MaxPkt                 \* a double-buffered endpoint holds at most two packets
        /\ \E l \in BOOLEAN :
              /\ (l => NLasts < MaxLasts)
              /\ s' = InBeat(s, Len(s.off) + 1, l)
              /\ ev' = [e |-> "beat", b |-> Len(s.off) + 1, last |-> l]
        /\ UNCHANGED <<lost, nfl>>

Flush == /\ nfl < MaxFlush
         /\ Len(s.off) > s.done /\ Len(s.off) \notin s.fl
         /\ s' = InFlush(s)
         /\ ev' = [e |-> "flush"]
         /\ nfl' = nfl + 1 /\ UNCHANGED lost

Token == /\ s.ph = "idle"
         /\ s' = InTok(s, MaxPkt)
         /\ ev' = [e |-> "tok"]
         /\ UNCHANGED <<lost, nfl>>

RespData == /\ s.ph = "tok"
            /\ \E n \in InAllowedLens(s, MaxPkt) :
                 LET r == [k |-> "data", pid |-> s.tog, payload |-> InBytes(s, s.done, n), ok |-> TRUE] IN
                 /\ s' = InResp(s, r)
                 /\ ev' = [e |-> "resp", k |-> "data", pid |-> s.tog, n |-> n]
            /\ UNCHANGED <<lost, nfl>>

RespNak == /\ s.ph = "tok" /\ InNakAllowed(s)
           /\ s' = InResp(s, [k |-> "nak"])
           /\ ev' = [e |-> "resp", k |-> "nak", pid |-> 0, n |-> 0]
           /\ UNCHANGED <<lost, nfl>>

HsAck == /\ s.ph = "sent"
         /\ s' = InHs(s, MaxPkt, TRUE, TRUE)
         /\ ev' = [e |-> "hs", ack |-> TRUE, hostrx |-> TRUE]
         /\ UNCHANGED <<lost, nfl>>

HsLost == /\ s.ph = "sent" /\ lost < MaxLost
          /\ \E hrx \in BOOLEAN :
               /\ s' = InHs(s, MaxPkt, FALSE, hrx)
               /\ ev' = [e |-> "hs", ack |-> FALSE, hostrx |-> hrx]
          /\ lost' = lost + 1 /\ UNCHANGED nfl

Next == Beat \/ Flush \/ Token \/ RespData \/ RespNak \/ HsAck \/ HsLost
Spec == Init /\ [][Next]_vars

-----------------------------------------------------------------------------
Inv == InInv(s, MaxPkt)

\* the two formulations of the relation (set of allowed answers / first failing clause) agree
RelationConsistent ==
    s.ph = "tok" =>
      /\ \A n \in 0..(MaxPkt + 1) :
            (n \in InAllowedLens(s, MaxPkt)) <=>
               (s.done + n <= Len(s.off) /\
                InRespStatus(s, MaxPkt, [k |-> "data", pid |-> s.tog, ok |-> TRUE,
                                          payload |-> InBytes(s, s.done, n)]) = "ok")
      /\ InNakAllowed(s) <=> (InRespStatus(s, MaxPkt, [k |-> "nak"]) = "ok")
\* the reference never leaves an IN token without a legal answer
RefTotal == s.ph = "tok" => (InNakAllowed(s) \/ InAllowedLens(s, MaxPkt) # {})
\* ... and a complete packet is never withheld
NoNakWhenReady == (s.ph = "tok" /\ s.rdy) => InAllowedLens(s, MaxPkt) # {}

\* toggle and acknowledged position move only on a host ACK; the host side only when it receives
ToggleOnlyOnAck == [][(s'.tog # s.tog \/ s'.done # s.done) => (ev'.e = "hs" /\ ev'.ack)]_vars
HostOnlyOnRx    == [][(s'.hgot # s.hgot) => (ev'.e = "hs" /\ ev'.hostrx)]_vars
\* a retry repeats the packet: between sending and ACK nothing about the outstanding packet changes
RetryStable == [][(s.out /\ s'.out) => (s'.outN = s.outN /\ s'.tog = s.tog /\ s'.done = s.done)]_vars
=============================================================================
