------------------------------ MODULE Usb2Ctl ------------------------------
(***************************************************************************)
(* Transaction-level reference specification of the control path of a USB2 *)
(* device, seen from the host (properties C06 C07 C08 C10 C20).            *)
(* Written from [USB2.0 8.3-8.5, 9.4] and the property statements.         *)
(*                                                                         *)
(* Grain: one step = one host packet / bus event (`act`) together with     *)
(* what the device did before the next host packet (`resp`).               *)
(*   Env  : HostActs - tokens (SETUP/IN/OUT, any address/endpoint, good or *)
(*          bad CRC5), data packets (toggle, payload, good/bad CRC16 or    *)
(*          truncated), host ACK, SOF, junk, bus reset.  EnvOK states the  *)
(*          assumptions on the host.                                       *)
(*   Ref  : addr, cfg, xf (control-transfer record), ctx (what the         *)
(*          previous packet makes the next one mean).  Judge(a, r) names   *)
(*          the first clause a response r to action a breaks ("ok" when it *)
(*          is allowed); Step(a, r) is the Ref update *chosen by the       *)
(*          observed response*.                                            *)
(*   Prop : theorems over Ref + act/resp checked by TLC (section Prop).    *)
(* Known-finding carve-outs: named predicates KF*(a) over Ref + ghost      *)
(* variables stale/armed/unacked/lastOut; with Clean the Env never trips.  *)
(***************************************************************************)
EXTENDS Naturals, Sequences, FiniteSets

CONSTANTS MaxPkt0,      \* max packet size of the control endpoint
          KnownDesc,    \* wValue values for which GET_DESCRIPTOR has a descriptor
          InEps,        \* numbers of the other IN endpoints of the device
          OutEps,       \* numbers of the other OUT endpoints
          Unit,         \* TRUE: the DUT is a bare USBSetupDecoder (only SETUP transactions are answered)
          Skipped,      \* configuration: standard bRequest numbers the standard handler is told to leave alone (skiplist)
          Claimed,      \* configuration: 256 * type + bRequest of the requests an additional, custom handler claims
          Clean         \* TRUE: the Env avoids the triggers of all open known findings

VARIABLES addr,   \* device address
          cfg,    \* active configuration
          xf,     \* control transfer record
          ctx,    \* context left by the previous packet
          act,    \* Env: the host action of the step that led here
          resp,   \* the device response to it
          stale,  \* ghost (KF carve-out): a standard request is still being handled
          armed,  \* ghost (KF carve-out): a SETUP token was not yet followed by a parsable data packet
          unacked,\* ghost (KF carve-out): a data-stage packet was sent on ep0 and not acknowledged yet
          lastOut,\* ghost (KF carve-out): endpoint of the last readable token for the device if it was an OUT (else NoEp)
          tgl,    \* Ref: per other IN endpoint, the data toggle of its next new packet (0, 1; 2 = not determined)
          pend    \* Ref: endpoint whose DATA packet is outstanding - sent, not ACKed, no token for the device since (NoEp)

vars == <<addr, cfg, xf, ctx, act, resp, stale, armed, unacked, lastOut, tgl, pend>>
NoEp == 99

Min(a, b) == IF a < b THEN a ELSE b

-----------------------------------------------------------------------------
(* Records *)
NoAct  == [a |-> "idle", pid |-> "", addr |-> 0, ep |-> 0, ok |-> TRUE, bytes |-> <<>>]
Tok(p, ad, e, k)  == [a |-> "tok",  pid |-> p, addr |-> ad, ep |-> e, ok |-> k, bytes |-> <<>>]
Dat(p, b, k)      == [a |-> "data", pid |-> p, addr |-> 0, ep |-> 0, ok |-> k, bytes |-> b]
Hs(p)             == [a |-> "hs",   pid |-> p, addr |-> 0, ep |-> 0, ok |-> TRUE, bytes |-> <<>>]
Other(k)          == [a |-> k,      pid |-> "", addr |-> 0, ep |-> 0, ok |-> TRUE, bytes |-> <<>>]

RNone    == [k |-> "none", bytes |-> <<>>]
RHs(p)   == [k |-> p, bytes |-> <<>>]                 \* "ACK" "NAK" "STALL"
RData(t, b) == [k |-> IF t = 1 THEN "DATA1" ELSE "DATA0", bytes |-> b]
IsData(r) == r.k \in {"DATA0", "DATA1"}
TogOf(r)  == IF r.k = "DATA1" THEN 1 ELSE 0

NoCtx == [k |-> "none", ep |-> 0, n |-> 0]

(* SETUP payload decoding [USB2.0 9.3], little-endian *)
SetupOf(b) == [dirIn |-> (b[1] \div 128) = 1, type |-> (b[1] \div 32) % 4, rcpt |-> b[1] % 32,
               req |-> b[2], val |-> b[3] + 256 * b[4], idx |-> b[5] + 256 * b[6], len |-> b[7] + 256 * b[8]]

(* The standard requests the device implements [USB2.0 9.4]: GET_STATUS 0, CLEAR_FEATURE 1,        *)
(* SET_ADDRESS 5, GET_DESCRIPTOR 6, GET_CONFIGURATION 8, SET_CONFIGURATION 9.                       *)
Implemented == {0, 1, 5, 6, 8, 9}
Canonical(s) ==
    CASE s.req = 0 -> s.dirIn /\ s.rcpt \in {0, 1, 2} /\ s.val = 0 /\ s.len = 2
      [] s.req = 1 -> ~s.dirIn /\ s.rcpt \in {0, 1, 2} /\ s.len = 0
      [] s.req = 5 -> ~s.dirIn /\ s.rcpt = 0 /\ s.len = 0 /\ s.idx = 0 /\ s.val < 128
      [] s.req = 6 -> s.dirIn /\ s.rcpt = 0 /\ s.len > 0
      [] s.req = 8 -> s.dirIn /\ s.rcpt = 0 /\ s.len = 1 /\ s.val = 0 /\ s.idx = 0
      [] s.req = 9 -> ~s.dirIn /\ s.rcpt = 0 /\ s.len = 0 /\ s.idx = 0 /\ s.val < 256
      [] OTHER -> FALSE
(* "unsup": must be STALLed (C10); "sup": must be performed; "gray": an implemented request in a    *)
(* non-canonical form - its treatment is not fixed by the properties: the SETUP transaction itself   *)
(* is checked (C06), but the Env does not continue such a transfer (no IN/OUT on ep0 until the next  *)
(* SETUP).                                                                                           *)
ClassOf(s) == IF 256 * s.type + s.req \in Claimed THEN "gray"        \* someone else's business: only its SETUP is followed
              ELSE IF s.type # 0 THEN "unsup"
              ELSE IF s.req \in Skipped THEN "unsup"                 \* nobody claims it -> must be STALLed
              ELSE IF s.req \notin Implemented THEN "unsup"
              ELSE IF ~Canonical(s) THEN "gray"
              ELSE IF s.req = 1 /\ ~(s.rcpt = 2 /\ s.val = 0) THEN "unsup"      \* only ENDPOINT_HALT on an endpoint
              ELSE "sup"

NoXfer == [st |-> "none", cls |-> "sup", dirIn |-> FALSE, type |-> 0, req |-> 0, val |-> 0, idx |-> 0, len |-> 0,
           sent |-> 0, tog |-> 1, fin |-> FALSE]
(* A SETUP starts a fresh transfer; everything about it is computed from the 8 bytes alone. *)
NewXfer(b) == LET s == SetupOf(b) IN
    [st |-> IF s.len > 0 THEN (IF s.dirIn THEN "din" ELSE "dout") ELSE "sin",
     cls |-> ClassOf(s), dirIn |-> s.dirIn, type |-> s.type, req |-> s.req, val |-> s.val, idx |-> s.idx, len |-> s.len,
     sent |-> 0, tog |-> 1, fin |-> FALSE]

Open(x) == x.st \in {"din", "dout", "sin", "sout"}
MayStall(x) == x.cls = "unsup" \/ (x.req = 6 /\ x.val \notin KnownDesc)

-----------------------------------------------------------------------------
(* What the host action means in the current state *)
Me(a) == a.ok /\ a.addr = addr
ValidSetupData(a) == a.a = "data" /\ a.ok /\ a.pid = "DATA0" /\ Len(a.bytes) = 8

Kind(a) ==
    IF a.a = "tok" THEN
        IF ~Me(a) THEN "foreign"
        ELSE IF a.pid = "SETUP" THEN "setup_tok"
        ELSE IF a.pid = "IN" THEN (IF a.ep = 0 THEN "in0" ELSE IF a.ep \in InEps THEN "in_ep" ELSE "in_none")
        ELSE IF a.pid = "OUT" THEN (IF a.ep = 0 THEN "out0_tok" ELSE IF a.ep \in OutEps THEN "out_ep_tok"
                                    ELSE "out_none_tok")
        ELSE IF a.pid = "PING" THEN (IF a.ep = 0 THEN "ping0" ELSE "ping_ep")   \* flow-control probe of an OUT endpoint
        ELSE "foreign"
    ELSE IF a.a = "data" THEN
        IF ctx.k = "setup" THEN "setup_data"
        ELSE IF ctx.k = "out" THEN (IF ctx.ep = 0 THEN "out0_data" ELSE IF ctx.ep \in OutEps THEN "out_ep_data"
                                    ELSE "out_none_data")
        ELSE "stray_data"
    ELSE IF a.a = "hs" THEN (IF ctx.k = "sent" /\ a.pid = "ACK" THEN "ack"
                             ELSE IF ctx.k = "fin" /\ a.pid = "ACK" THEN "foreign_ack"     \* the host ACKs another device's data
                             ELSE "stray_hs")
    ELSE a.a                                   \* "sof" "junk" "reset" "idle"

(* The stage an ep0 token sees: an IN token ends an OUT data stage, an OUT token ends an IN data stage. *)
StageForIn(x)  == IF x.st = "dout" THEN "sin" ELSE x.st
StageForOut(x) == IF x.st = "din" THEN "sout" ELSE x.st

(* Data-stage payload of the supported device-to-host requests.  Descriptor *contents* are another   *)
(* engine's job (usb2desc): here only "some data, at most what was asked for, a packet at most".     *)
DataInOK(x, p) ==
    CASE x.req = 0 -> p = <<0, 0>>
      [] x.req = 8 -> p = <<cfg>>
      [] x.req = 6 -> /\ x.val \in KnownDesc
                      /\ Len(p) <= Min(MaxPkt0, x.len - x.sent)
                      /\ (x.sent = 0 => Len(p) > 0)
      [] OTHER -> FALSE

Lenient(r) == r.k \in {"none", "NAK", "STALL"}     \* never DATA, never ACK

(* Judge(a, r): "ok" or the name of the clause that r breaks. *)
JudgeIn0(x, r) ==
    LET st == StageForIn(x)
        nm == IF x.cls = "unsup" /\ Open(x) THEN "unsup_resp" ELSE "ep0_in_resp" IN
    IF Unit THEN (IF r.k = "none" THEN "ok" ELSE "unsolicited")
    ELSE IF st = "din" THEN
        IF x.cls = "unsup" THEN (IF r.k = "STALL" THEN "ok" ELSE nm)
        ELSE IF r.k = "NAK" THEN "ok"
        ELSE IF r.k = "STALL" THEN (IF MayStall(x) THEN "ok" ELSE nm)
        ELSE IF IsData(r) /\ TogOf(r) = x.tog /\ DataInOK(x, r.bytes) THEN "ok" ELSE nm
    ELSE IF st = "sin" THEN
        IF x.cls = "unsup" THEN (IF r.k = "STALL" THEN "ok" ELSE nm)
        ELSE IF r.k = "NAK" \/ r = RData(1, <<>>) THEN "ok" ELSE nm
    ELSE IF Lenient(r) THEN "ok" ELSE nm

JudgeOut0(x, a, r) ==
    LET st == StageForOut(x)
        nm == IF x.cls = "unsup" /\ Open(x) THEN "unsup_resp" ELSE "ep0_out_resp" IN
    IF Unit \/ ~a.ok THEN (IF r.k = "none" THEN "ok" ELSE "unsolicited")
    ELSE IF st = "sout" THEN
        IF x.cls = "unsup" THEN (IF r.k = "STALL" THEN "ok" ELSE nm)
        ELSE IF r.k \in {"ACK", "NAK"} \/ (r.k = "STALL" /\ MayStall(x)) THEN "ok" ELSE nm
    ELSE IF Lenient(r) THEN "ok" ELSE nm

Judge(a, r) ==
    LET k == Kind(a) IN
    CASE k = "setup_data" ->
            IF ValidSetupData(a) THEN (IF r.k = "ACK" THEN "ok" ELSE "setup_ack")
            ELSE (IF r.k = "none" THEN "ok" ELSE "setup_ack")
      [] k = "in0" -> JudgeIn0(xf, r)
      [] k = "out0_data" -> JudgeOut0(xf, a, r)
      [] k = "in_ep" -> IF Unit THEN (IF r.k = "none" THEN "ok" ELSE "unsolicited")
                        ELSE IF r.k = "NAK" THEN "ok"
                        ELSE IF ~IsData(r) THEN "ep_resp"
                        ELSE IF tgl[a.ep] \in {2, TogOf(r)} THEN "ok" ELSE "ep_toggle"
      [] k = "out_ep_data" -> IF Unit \/ ~a.ok THEN (IF r.k = "none" THEN "ok" ELSE "unsolicited")
                              ELSE IF r.k \in {"ACK", "NAK"} THEN "ok" ELSE "ep_resp"
      [] k \in {"in_none", "out_none_data"} ->
            IF Unit \/ ~a.ok THEN (IF r.k = "none" THEN "ok" ELSE "unsolicited")
            ELSE IF Lenient(r) THEN "ok" ELSE "ep_resp"
      [] k \in {"ping0", "ping_ep"} ->        \* a PING is answered with a handshake or (full speed) not at all - never with data
            IF Unit THEN (IF r.k = "none" THEN "ok" ELSE "unsolicited")
            ELSE IF r.k \in {"none", "ACK", "NAK", "STALL"} THEN "ok" ELSE "ep_resp"
      [] k = "foreign" -> IF r.k = "none" THEN "ok"
                          ELSE IF a.ok THEN "resp_foreign_addr" ELSE "unsolicited"
      [] k = "stray_data" -> IF r.k = "none" THEN "ok"              \* a data packet that follows no token of ours
                             ELSE IF r.k = "ACK" THEN "stray_data_ack" ELSE "unsolicited"
      [] OTHER -> IF r.k = "none" THEN "ok" ELSE "unsolicited"
         \* setup_tok, out*_tok, ack, stray_hs, sof, junk, reset, idle

-----------------------------------------------------------------------------
(* Ref update, chosen by the observed response *)
XferAfter(a, r) ==
    LET k == Kind(a) IN
    CASE k = "dreset" -> NoXfer                                   \* clock-domain reset: everything as at power-on
      [] k = "reset" -> [NoXfer EXCEPT !.st = "reset"]           \* default state: nothing in progress
      [] k = "setup_tok" -> [xf EXCEPT !.st = "broken"]          \* the old transfer is over, whatever follows
      [] k = "setup_data" -> IF ValidSetupData(a) THEN NewXfer(a.bytes) ELSE xf
      [] k = "in0" ->
            LET st == StageForIn(xf) IN
            IF st \in {"din", "sin"} THEN [xf EXCEPT !.st = IF r.k = "STALL" THEN "stall" ELSE st]
            ELSE xf              \* an IN while the status stage expects OUT (or nothing is in progress) is not answered
                                 \* with data (Judge) and leaves the transfer where it is
      [] k \in {"out0_tok", "ping0"} -> [xf EXCEPT !.st = StageForOut(xf)]     \* an OUT token ends the IN data stage [8.5.3]
      [] k = "out0_data" ->
            LET st == StageForOut(xf) IN
            IF ~a.ok THEN (IF st = "sout" THEN [xf EXCEPT !.st = "sout"] ELSE xf)
            ELSE IF st = "sout" THEN [xf EXCEPT !.st = IF r.k = "ACK" THEN "done"
                                                      ELSE IF r.k = "STALL" THEN "stall" ELSE "sout"]
            ELSE IF st = "dout" THEN [xf EXCEPT !.st = IF r.k = "STALL" THEN "stall" ELSE "dout"]
            ELSE xf              \* likewise an OUT transaction while the status stage expects IN
      [] k = "ack" /\ ctx.ep = 0 ->
            IF xf.st = "din" THEN
                 [xf EXCEPT !.sent = xf.sent + ctx.n, !.tog = 1 - xf.tog,
                            !.fin = (ctx.n < MaxPkt0) \/ (xf.sent + ctx.n >= xf.len)]
            ELSE IF xf.st = "sin" THEN [xf EXCEPT !.st = "done"]
            ELSE xf
      [] OTHER -> xf

(* C08: the only ways the address / configuration change. *)
Commits(a) == Kind(a) = "ack" /\ ctx.ep = 0 /\ xf.st = "sin" /\ xf.cls = "sup"
AddrAfter(a) == IF Kind(a) \in {"reset", "dreset"} THEN 0
                ELSE IF Commits(a) /\ xf.req = 5 THEN xf.val % 128 ELSE addr
CfgAfter(a)  == IF Kind(a) \in {"reset", "dreset"} THEN 0
                ELSE IF Commits(a) /\ xf.req = 9 THEN xf.val % 256 ELSE cfg

CtxAfter(a, r) ==
    LET k == Kind(a) IN
    IF k = "setup_tok" THEN [k |-> "setup", ep |-> 0, n |-> 0]
    ELSE IF k \in {"out0_tok", "out_ep_tok", "out_none_tok"} THEN [k |-> "out", ep |-> a.ep, n |-> 0]
    ELSE IF k \in {"in0", "in_ep"} /\ IsData(r) THEN [k |-> "sent", ep |-> a.ep, n |-> Len(r.bytes)]
    ELSE IF k = "foreign" /\ a.pid \in {"SETUP", "OUT"}                 \* someone else's token / an unreadable one
         THEN [k |-> IF a.ok THEN "ftok" ELSE "btok", ep |-> 0, n |-> 0]
    ELSE IF k = "foreign" /\ a.pid = "IN" THEN [k |-> "fin", ep |-> 0, n |-> 0]   \* another device is asked for data
    ELSE IF k = "idle" THEN ctx
    ELSE NoCtx

(* SETUP decoding observables (C06): strobes of `setup.received` in the step and the decoded fields. *)
ExpectStrobes(a) == IF Kind(a) = "setup_data" /\ ValidSetupData(a) THEN 1 ELSE 0
FieldsOf(b) == <<b[1], b[2], b[3] + 256 * b[4], b[5] + 256 * b[6], b[7] + 256 * b[8]>>

-----------------------------------------------------------------------------
(* Known-finding carve-outs (see known_findings.d/usb2ctl.json).  Each names the Env condition that  *)
(* triggers one genuine defect of the pinned tree; stale/armed are the ghosts they need.             *)
(* (C06a, "deserializer stuck after a CRC mismatch", was repaired in /repo 4c8cdb4: no carve-out any more.) *)
KF_C06b(a) == Kind(a) = "setup_tok" /\ armed                      \* SETUP token while still waiting for setup data
KF_C06c(a) == a.a = "data" /\ a.ok /\ Len(a.bytes) = 8 /\ armed /\ ctx.k # "setup"   \* data not adjacent to its token
KF_C07(a)  == Kind(a) = "setup_data" /\ ValidSetupData(a) /\ stale       \* SETUP while a standard request is unfinished
KF_C07b(a) == Kind(a) = "ack" /\ ctx.ep # 0 /\ unacked /\ xf.st = "din" /\ xf.type = 0 /\ xf.req = 6   \* foreign ACK while a descriptor packet is unacknowledged
(* (C08c, "CLEAR_FEATURE consumed by a foreign ACK", was repaired in /repo 831e53c: no carve-out any more.) *)
KF_C20a(a) == a.a = "data" /\ a.ok /\ ctx.k = "btok" /\ lastOut \in OutEps         \* data after an unreadable token, an OUT endpoint addressed before
KF_C08(a)  == Kind(a) = "ack" /\ ctx.ep # 0 /\ stale /\ xf.type = 0 /\ xf.req \in {5, 9}   \* foreign ACK while SET_x pending
(* KF_C06b .. KF_C20a above name the triggers of defects that have all been repaired in /repo (bdfbff3     *)
(* c385d7f 2bb1db7 8f6ce42 740d720 831e53c); they are kept as documentation of the witness classes but no   *)
(* longer restrict the clean Env.  Open: a host ACK that follows a token for ANOTHER ADDRESS (invisible to  *)
(* the address-filtered token detector) while a control-transfer packet of this device is outstanding.      *)
KF_FA(a) == /\ Kind(a) = "foreign_ack" /\ pend = 0
            /\ \/ (xf.st = "din" /\ xf.type = 0 /\ xf.req = 6)
               \/ (xf.st = "sin" /\ xf.cls = "sup" /\ xf.req \in {1, 5, 9})
(* (FA was repaired in /repo 2853d07 as well: at present no finding is open and nothing is carved out.) *)
KfTrip(a) == "none"

ArmedAfter(a) ==
    LET k == Kind(a) IN
    IF k = "setup_tok" THEN TRUE
    ELSE IF k = "reset" THEN armed
    ELSE IF a.a = "tok" /\ Me(a) THEN FALSE
    ELSE IF a.a = "data" /\ a.ok /\ Len(a.bytes) <= 8 THEN FALSE
    ELSE armed
(* The data toggle of the other IN endpoints: it advances exactly on the host's ACK of that endpoint's   *)
(* packet; CLEAR_FEATURE(ENDPOINT_HALT) on it, SET_CONFIGURATION and a bus reset re-initialise it (how is  *)
(* engine usb2ep's business: here it becomes "not determined" and is learnt again from the next packet);   *)
(* so does a foreign-address ACK while that endpoint's own packet is outstanding (finding family C17).     *)
TglAfter(a, r) ==
    LET k == Kind(a) IN
    IF k = "dreset" THEN [e \in InEps |-> 2]       \* (the stream source outside the DUT keeps running: next packet unknown)
    ELSE IF k = "reset" \/ (Commits(a) /\ xf.req = 9) THEN [e \in InEps |-> 2]
    ELSE IF Commits(a) /\ xf.req = 1 THEN [e \in InEps |-> IF xf.idx = 128 + e THEN 2 ELSE tgl[e]]
    ELSE IF k = "in_ep" /\ IsData(r) THEN [tgl EXCEPT ![a.ep] = TogOf(r)]
    ELSE IF k = "ack" /\ ctx.ep \in InEps THEN [tgl EXCEPT ![ctx.ep] = IF tgl[ctx.ep] = 2 THEN 2 ELSE 1 - tgl[ctx.ep]]
    ELSE IF k = "foreign_ack" /\ pend \in InEps THEN [tgl EXCEPT ![pend] = 2]
    ELSE tgl
PendAfter(a, r) ==
    LET k == Kind(a) IN
    IF k \in {"in0", "in_ep"} /\ IsData(r) THEN a.ep
    ELSE IF a.a = "tok" /\ Me(a) THEN NoEp
    ELSE IF k \in {"ack", "reset", "dreset"} THEN NoEp
    ELSE pend
LastOutAfter(a) ==
    IF a.a # "tok" \/ ~a.ok THEN lastOut
    ELSE IF a.addr = addr /\ a.pid = "OUT" THEN a.ep ELSE NoEp
UnackedAfter(a, r) ==
    LET k == Kind(a) IN
    IF k = "in0" /\ StageForIn(xf) = "din" /\ IsData(r) THEN TRUE
    ELSE IF k = "ack" /\ ctx.ep = 0 THEN FALSE
    ELSE IF k = "setup_data" /\ ValidSetupData(a) THEN FALSE
    ELSE unacked
StaleAfter(a, r) ==
    LET k == Kind(a) IN
    IF k = "setup_data" /\ ValidSetupData(a) THEN (stale \/ SetupOf(a.bytes).type = 0)
    ELSE IF xf.type # 0 THEN stale
    ELSE IF k \in {"in0", "out0_data"} /\ r.k = "STALL" /\ xf.req # 1 THEN FALSE
    ELSE IF k = "out0_data" /\ r.k = "ACK" THEN FALSE
    ELSE IF k = "ack" /\ xf.req \in {5, 9} THEN FALSE              \* (any host ACK ends these: finding C08)
    ELSE IF k = "ack" /\ ctx.ep = 0 /\ xf.req = 1 THEN FALSE       \* CLEAR_FEATURE: the ACK of its own status ZLP; a STALLed
                                                                  \* one stays pending (part of finding C07)
    ELSE stale

-----------------------------------------------------------------------------
(* Env assumptions on the host (always), and the carve-outs (when Clean) *)
EnvOK(a) ==
    /\ a.a = "data" => ctx.k \in {"setup", "out", "ftok", "btok"}                   \* data packets follow a SETUP/OUT token
    /\ (a.a = "data" /\ ctx.k = "setup" /\ a.ok) => a.pid = "DATA0"          \* SETUP data is DATA0
    /\ Kind(a) \in {"in0", "out0_tok", "ping0"} => xf.cls # "gray"                   \* a non-canonical request is not pursued
    /\ Kind(a) \in {"in0", "out0_tok", "ping0"} => xf.st # "reset"                   \* after a bus reset the host starts with a SETUP
    /\ (Kind(a) = "setup_tok") => a.ep = 0                                   \* SETUP goes to the control endpoint
    /\ a.a = "hs" => (a.pid = "ACK" /\ ctx.k \in {"sent", "fin"})     \* the host ACKs data it was just sent - by this device,
                                                                      \* or (invisibly to it) by a device at another address
    /\ (Kind(a) = "out0_data" /\ a.ok /\ StageForOut(xf) = "sout") => (a.pid = "DATA1" /\ a.bytes = <<>>)
    /\ (Kind(a) = "in0" /\ xf.st = "din") => ~xf.fin                         \* no IN after the data stage ended
    /\ Clean => KfTrip(a) = "none"

Step(a, r) ==
    /\ act' = a /\ resp' = r
    /\ addr' = AddrAfter(a) /\ cfg' = CfgAfter(a)
    /\ xf' = XferAfter(a, r)
    /\ ctx' = CtxAfter(a, r)
    /\ stale' = StaleAfter(a, r) /\ armed' = ArmedAfter(a) /\ unacked' = UnackedAfter(a, r)
    /\ lastOut' = LastOutAfter(a)
    /\ tgl' = TglAfter(a, r) /\ pend' = PendAfter(a, r)

Init == /\ addr = 0 /\ cfg = 0 /\ xf = NoXfer /\ ctx = NoCtx /\ act = NoAct /\ resp = RNone
        /\ stale = FALSE /\ armed = FALSE /\ unacked = FALSE /\ lastOut = NoEp
        /\ tgl = [e \in InEps |-> 0] /\ pend = NoEp

(* One step of the composed system: the host does anything the Env allows, the device answers with  *)
(* anything Ref allows.  Acts / Resps are the (finite) alphabets of the model instance.              *)
NextOver(Acts, Resps) == \E a \in Acts : EnvOK(a) /\ \E r \in Resps : Judge(a, r) = "ok" /\ Step(a, r)

-----------------------------------------------------------------------------
(* Prop: the listed properties as theorems over Ref (+ act/resp).  In action formulas unprimed       *)
(* variables are the state the host action act' meets.                                               *)

(* C06 - a SETUP token arms the decoder for exactly the next packet, whatever came before ... *)
(* ctx is exactly the summary of the previous packet (so the theorems below may speak about ctx): *)
CtxIsLastPacket ==
    [][/\ (ctx'.k = "setup") <=> (act'.a = "tok" /\ act'.pid = "SETUP" /\ act'.ok /\ act'.addr = addr)
       /\ (ctx'.k = "out")   <=> (act'.a = "tok" /\ act'.pid = "OUT" /\ act'.ok /\ act'.addr = addr /\ ctx'.ep = act'.ep)
       /\ (ctx'.k = "sent")  <=> (act'.a = "tok" /\ act'.pid = "IN" /\ act'.ok /\ act'.addr = addr /\ IsData(resp')
                                  /\ ctx'.ep = act'.ep /\ ctx'.n = Len(resp'.bytes))
       /\ (ctx'.k = "ftok")  <=> (act'.a = "tok" /\ act'.pid \in {"SETUP", "OUT"} /\ act'.ok /\ act'.addr # addr)
       /\ (ctx'.k = "btok")  <=> (act'.a = "tok" /\ act'.pid \in {"SETUP", "OUT"} /\ ~act'.ok)
       /\ (ctx'.k = "fin")   <=> (act'.a = "tok" /\ act'.pid = "IN" /\ ~(act'.ok /\ act'.addr = addr))]_vars
(* ... and that packet is accepted iff it is a CRC-valid 8-byte DATA0, decoded from its bytes alone, ACKed *)
SetupDecodedExactly ==
    [][(act'.a = "data" /\ ctx.k = "setup") =>
         IF ValidSetupData(act') THEN resp'.k = "ACK" /\ xf' = NewXfer(act'.bytes)
                                 ELSE resp'.k = "none" /\ xf'.st = "broken"]_vars
NoSetupWithoutToken ==        \* the request on record changes only by a SETUP transaction (or a bus reset)
    [][(xf'.req # xf.req \/ xf'.val # xf.val \/ xf'.len # xf.len \/ xf'.type # xf.type \/ xf'.dirIn # xf.dirIn) =>
         \/ (act'.a = "data" /\ ctx.k = "setup" /\ ValidSetupData(act'))
         \/ act'.a = "reset"]_vars
SetupNeverRefused == ~Clean => EnvOK(Tok("SETUP", addr, 0, TRUE))

(* C07 *)
DataOnlyInItsStage ==
    [][(Kind(act') = "in0" /\ IsData(resp')) =>
         \/ (xf.st = "din" /\ xf.dirIn /\ xf.len > 0 /\ xf.cls = "sup" /\ Len(resp'.bytes) <= xf.len - xf.sent)
         \/ (StageForIn(xf) = "sin" /\ resp' = RData(1, <<>>) /\ xf.cls = "sup" /\ (~xf.dirIn \/ xf.len = 0))]_vars
StatusOutOnlyAfterInData ==
    [][(Kind(act') = "out0_data" /\ resp'.k = "ACK") => (xf.dirIn /\ xf.len > 0 /\ xf.st \in {"din", "sout"})]_vars
FreshSetup ==
    [][(Kind(act') = "setup_data" /\ ValidSetupData(act')) => xf' = NewXfer(act'.bytes)]_vars
NotMine(a) == \/ Kind(a) \in {"foreign", "in_ep", "in_none", "ping_ep", "out_ep_tok", "out_none_tok", "out_ep_data",
                              "out_none_data", "stray_data", "sof", "junk", "stray_hs", "idle", "foreign_ack"}
              \/ (Kind(a) = "ack" /\ ctx.ep # 0)
OtherTrafficInvisible == [][NotMine(act') => (xf' = xf /\ addr' = addr /\ cfg' = cfg)]_vars

(* C08 *)
OwnStatusAck(r) == /\ act'.a = "hs" /\ act'.pid = "ACK"
                   /\ ctx.k = "sent" /\ ctx.ep = 0 /\ ctx.n = 0            \* the packet before: IN to ep0 answered with a ZLP
                   /\ xf.st = "sin" /\ xf.type = 0 /\ xf.req = r /\ ~xf.dirIn /\ xf.len = 0
AddrChangesOnlyOnOwnStatusAck ==
    [][addr' # addr => \/ (act'.a = "reset" /\ addr' = 0)
                       \/ (OwnStatusAck(5) /\ addr' = xf.val % 128)]_vars
CfgChangesOnlyOnOwnStatusAck ==
    [][cfg' # cfg => \/ (act'.a = "reset" /\ cfg' = 0)
                     \/ (OwnStatusAck(9) /\ cfg' = xf.val % 256)]_vars
CommitIsNotOptional ==
    [][(OwnStatusAck(5) => addr' = xf.val % 128) /\ (OwnStatusAck(9) => cfg' = xf.val % 256)]_vars
CommitOnce == [][Commits(act') => xf'.st = "done"]_vars
ResetClears == [][act'.a = "reset" => (addr' = 0 /\ cfg' = 0)]_vars

(* C10 *)
OnEp0(a) == Kind(a) \in {"in0", "out0_data"}
UnsupNeverAnswered ==
    [][(xf.cls = "unsup" /\ Open(xf) /\ OnEp0(act')) => resp'.k \notin {"ACK", "DATA0", "DATA1"}]_vars
UnsupStalledAtFirstChance ==
    [][(xf.cls = "unsup" /\ Kind(act') = "in0" /\ StageForIn(xf) \in {"din", "sin"}) => resp'.k = "STALL"]_vars
UnsupNoStateChange ==
    [][(xf.cls = "unsup" /\ Open(xf) /\ act'.a # "reset") => (addr' = addr /\ cfg' = cfg)]_vars

ToggleMovesOnlyByOwnTraffic ==      \* no control request that is STALLed / unsupported, and no foreign traffic, touches a toggle
    [][\A e \in InEps : (tgl'[e] # tgl[e]) =>
          \/ (Kind(act') = "in_ep" /\ act'.ep = e /\ IsData(resp'))
          \/ (Kind(act') = "ack" /\ ctx.ep = e)
          \/ act'.a = "reset"
          \/ (Commits(act') /\ xf.cls = "sup" /\ xf.req \in {1, 9})
          \/ (Kind(act') = "foreign_ack" /\ pend = e)]_vars

(* C20 - the device only ever answers an IN token, or a good data packet after a SETUP/OUT token, addressed to it *)
Solicited ==
    [][resp'.k # "none" =>
         \/ (act'.a = "tok" /\ act'.pid = "IN" /\ act'.ok /\ act'.addr = addr)
         \/ (act'.a = "data" /\ act'.ok /\ ctx.k \in {"setup", "out"})]_vars

TypeOK == /\ addr \in 0..127 /\ cfg \in 0..255
          /\ xf.st \in {"none", "reset", "din", "dout", "sin", "sout", "done", "stall", "broken"}
          /\ xf.cls \in {"sup", "unsup", "gray"} /\ xf.sent <= xf.len /\ xf.tog \in {0, 1}
          /\ ctx.k \in {"none", "setup", "out", "sent", "ftok", "btok", "fin"}
          /\ \A e \in InEps : tgl[e] \in {0, 1, 2}
          /\ pend \in InEps \cup {0, NoEp}

(* act/resp label the step that led to a state; no formula above reads them unprimed, so the model may *)
(* identify states that differ only in them.                                                           *)
CoreView == <<addr, cfg, xf, ctx, tgl, pend, stale, armed, unacked, lastOut>>
(* With Clean = FALSE nothing reads the carve-out ghosts either (EnvOK only consults them when Clean).  *)
RefView == <<addr, cfg, xf, ctx, tgl, pend>>
=============================================================================
