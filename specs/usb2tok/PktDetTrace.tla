----------------------------- MODULE PktDetTrace -----------------------------
(***************************************************************************)
(* Trace validation of the real USBTokenDetector / USBHandshakeDetector    *)
(* against PktDet.  One record per clock cycle:                            *)
(*   a, v, d, addr      rx_active, rx_valid, rx_data, device address       *)
(*   rst                reset of the usb clock domain asserted this cycle  *)
(*   ev                 events strobed in this cycle (sequence of          *)
(*                      [k, x, y, z] records built from the strobes and    *)
(*                      the field outputs observed in the same cycle)      *)
(*   frame, sel         frame output; <<is_in, is_out, is_setup, is_ping>> *)
(* Outputs are sampled after the inputs settled, before the clock edge.    *)
(***************************************************************************)
EXTENDS PktDet, TLC, TLCExt, Json, IOUtils

Logs == JsonDeserialize(IOEnv.TRACE_FILE)

VARIABLES tid, l, status
tvars == <<vars, tid, l, status>>

ASSUME \A i \in 1..Len(Logs) : TLCSet(i, <<0, "ok">>)

InputOf(r)  == [a |-> r.a, v |-> r.v, d |-> r.d, addr |-> r.addr, rst |-> r.rst]
OutputOf(r) == [ev |-> r.ev, frame |-> r.frame, sel |-> r.sel]

FailingP(r, p1) == IF EnvViolation(InputOf(r)) # "ok" THEN EnvViolation(InputOf(r))
                   ELSE OutViolationP(InputOf(r), OutputOf(r), p1)

TInit == /\ Init
         /\ tid \in 1..Len(Logs)
         /\ l = 1
         /\ status = "ok"

TNext == /\ status = "ok"
         /\ l <= Len(Logs[tid])
         /\ LET r  == Logs[tid][l]
                p1 == Pend1(InputOf(r))            \* Expect (CRC5) evaluated once per cycle
            IN /\ status' = FailingP(r, p1)
               /\ StepP(InputOf(r), OutputOf(r), p1)
         /\ l' = l + 1
         /\ UNCHANGED tid

TSpec == TInit /\ [][TNext]_tvars

\* Prop invariants on the observed states: the cheap ones on every state, the history one (which re-derives
\* the expected event of every logged packet) on the final state of the trace.
TraceProp == /\ NeverLate /\ OneEventPerCycle
             /\ (l > Len(Logs[tid])) => ReportedIffWellFormed

\* the constraint is FALSE after a failure: the trace is not followed further, the verdict cannot be overwritten
Verdict == IF status # "ok" THEN status ELSE IF TraceProp THEN "ok" ELSE "prop_invariant"
Progress == TLCSet(tid, <<l - 1, Verdict>>) /\ Verdict = "ok"

Verdicts == JsonSerialize(IOEnv.VERDICT_FILE, [i \in 1..Len(Logs) |-> TLCGet(i)])
=============================================================================
