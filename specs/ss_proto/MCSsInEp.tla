------------------------------ MODULE MCSsInEp ------------------------------
(* Bounded instance of SsInEp: every producer / host schedule (legal per the Env clauses) against  *)
(* every allowed answer of an abstract endpoint, with every spacing dt in {0, 1, Grace}.            *)
EXTENDS SsInEp, TLC

CONSTANTS MaxPkt,      \* max packet size of the modelled endpoint (bytes, multiple of 4)
          Ns,          \* sizes a last word may have (non-last words are always 4 bytes)
          MaxBytes,    \* bound on the bytes supplied by the stream
          MaxAcks,     \* bound on the ACK TPs sent by the host
          Dts          \* spacings between consecutive events (cycles)
VARIABLE nack
mvars == <<evars, nack>>

MCCfg == [maxpkt |-> MaxPkt, ep |-> 1, addr |-> 5, chkep |-> TRUE]

Do(ev, dt) == Failing(ev) = "ok" /\ Apply(ev, dt) /\ nack' = nack + (IF ev.e = "ack" /\ ToUs(ev) THEN 1 ELSE 0)

WordBytes(n) == [k \in 1..n |-> (Len(accBytes) + k) % 5]
Beats(b) == LET nb == (Len(b) + 3) \div 4 IN
            [k \in 1..nb |-> [n |-> IF k < nb THEN 4 ELSE Len(b) - 4 * (nb - 1), first |-> k = 1, last |-> k = nb]]
DpOf(s, b) == [e |-> "dp", seq |-> s, len |-> Len(b), epn |-> cfg.ep, bytes |-> b, zlp |-> b = <<>>, beats |-> Beats(b)]
AckOf(ep, s, n, r) == [e |-> "ack", ep |-> ep, seq |-> s, nump |-> n, rty |-> r]
TpOf(k, ph) == [e |-> "tp", kind |-> k, want |-> k, phase |-> ph, epn |-> cfg.ep, addr |-> cfg.addr]

Word      == \E dt \in Dts, la \in BOOLEAN : \E n \in (IF la THEN Ns ELSE {4}) : n > 0 /\
                Do([e |-> "w", bytes |-> WordBytes(n), last |-> la], dt)
HostPoll  == \E dt \in Dts : infl = NoPkt /\ Do(AckOf(cfg.ep, seq, 1, 0), dt)
HostAccept == \E dt \in Dts, n \in {0, 1} : infl # NoPkt /\ Do(AckOf(cfg.ep, (infl.seq + 1) % 32, n, 0), dt)
HostRetry == \E dt \in Dts : infl # NoPkt /\ Do(AckOf(cfg.ep, infl.seq, 1, 1), dt)
HostOther == \E dt \in Dts : cfg.ep = 1 /\ Do(AckOf(cfg.ep + 1, seq, 1, 0), dt)
DevData   == \E dt \in Dts : req.on /\ (req.retry \/ q # <<>>) /\
                Do(IF req.retry THEN DpOf(infl.seq, infl.b) ELSE DpOf(seq, q[1].b), dt)
DevNrdy   == \E dt \in Dts : req.on /\ Do(TpOf("nrdy", "both"), dt)
DevErdy   == \E dt \in Dts, ph \in {"both", "request"} : flow = "nrdy" /\ Do(TpOf("erdy", ph), dt)
DevErdyOut == \E dt \in Dts : erdyPend /\ Do(TpOf("erdy", "emit"), dt)

Next == Word \/ HostPoll \/ HostAccept \/ HostRetry \/ HostOther \/ DevData \/ DevNrdy \/ DevErdy \/ DevErdyOut
Spec == InitWith(MCCfg) /\ nack = 0 /\ [][Next]_mvars

BoundedRun == Len(accBytes) <= MaxBytes /\ nack <= MaxAcks
CoreView == <<cur, q, seq, infl, req, flow, erdyPend, accBytes, ackBytes, accEnds, ackEnds, nack>>

\* the device never has to answer two things at once, and owes an ERDY only while flow controlled
NoDataWithoutRequest == last_ev.e = "dp" => ~req.on
=============================================================================
