------------------------------- MODULE SsInEp -------------------------------
(***************************************************************************)
(* C46 -- SuperSpeed bulk/interrupt IN endpoint                            *)
(* (luna.gateware.usb.usb3.endpoints.stream.SuperSpeedStreamInEndpoint     *)
(*  with the real TransactionPacketGenerator)                              *)
(*                                                                         *)
(* Written from the property and [USB3.2 8.10.1 flow control, 8.11.1 /     *)
(* 8.12.1.2 bulk IN transactions]:                                         *)
(*  - the host asks for data with an ACK TP (Seq = next expected sequence  *)
(*    number, NumP >= 1); the device answers with DP(Seq, payload) when it *)
(*    holds a packet, NRDY otherwise;                                      *)
(*  - the host acknowledges DP n with ACK(Seq = n+1, Rty = 0) -- NumP >= 1 *)
(*    in that ACK is at the same time the next request -- or asks for a    *)
(*    retransmission with ACK(Seq = n, Rty = 1, NumP >= 1); the device     *)
(*    then resends the same packet with the same sequence number;          *)
(*  - after NRDY the endpoint is flow controlled: the device sends one     *)
(*    ERDY when it has a packet; "when an endpoint is not in a flow        *)
(*    control condition, it shall not send an ERDY TP"; the host may poll  *)
(*    again at any time even without ERDY;                                 *)
(*  - a transfer (stream `last`) ends with a short packet, or a zero       *)
(*    length packet when its length is a multiple of the max packet size;  *)
(*    every other packet is exactly MaxPkt bytes.                          *)
(*                                                                         *)
(* Grain: protocol events in cycle order, with the cycle distance dt to    *)
(* the previous event:                                                     *)
(*   Env   w   : a stream word (1..4 bytes, last) accepted by the endpoint *)
(*         ack : an ACK TP from the host (ep, seq, nump, rty)              *)
(*   Dev   dp  : a data packet handed to the link layer (seq, len, epn,    *)
(*               payload bytes, per-beat framing), parameters sampled with *)
(*               the first beat (resp. the tx_zlp strobe)                  *)
(*         tp  : NRDY / ERDY (kind, epn, addr; `want` = the kind the       *)
(*               endpoint requested from the TP generator; `phase`:        *)
(*               "both" where request and emission are one event -- the    *)
(*               views at the handshake interface --, and in the wire view *)
(*               "request" (generator took the ERDY request) followed by   *)
(*               "emit" (the packet left the header queue))                *)
(*         end : the execution was left quiet long enough that everything  *)
(*               owed should have happened.                                *)
(* Ref: packets assembled from the stream (`cur`, queue `q` with the age   *)
(* of each completion), the sequence number `seq`, the packet in flight    *)
(* `infl`, the outstanding request `req`, the flow-control state `flow`.   *)
(* Freedom: a request that arrives less than Grace cycles after the        *)
(* packet it could be served with became complete may still be answered    *)
(* NRDY (the device may not have seen the data yet); no timing is          *)
(* prescribed otherwise (liveness is checked at `end`).                    *)
(***************************************************************************)
EXTENDS Naturals, Sequences

CONSTANTS Grace

VARIABLES cfg,      \* [maxpkt, ep, addr, chkep]: endpoint configuration / observation view of this execution
          cur,      \* bytes accepted for the packet being assembled
          q,        \* complete packets not yet sent: sequence of [b, age]
          seq,      \* sequence number of the next new data packet
          infl,     \* NoPkt or [seq, b]: packet sent and not yet acknowledged
          req,      \* [on, retry, nrdyOk]: request the device has to answer
          flow,     \* "active" | "nrdy"
          erdyPend, \* an ERDY was requested (while flow controlled) and is still queued towards the wire
          last_ev,  \* the event that led to this state
          accBytes, ackBytes,        \* ghost: bytes accepted from the stream / in acknowledged packets
          accEnds, ackEnds           \* ghost: byte offsets of transfer ends accepted / of acknowledged short packets

evars == <<cfg, cur, q, seq, infl, req, flow, erdyPend, last_ev, accBytes, ackBytes, accEnds, ackEnds>>

NoPkt == [seq |-> 99, b |-> <<>>]
NoReq == [on |-> FALSE, retry |-> FALSE, nrdyOk |-> FALSE]
Min(a, b) == IF a < b THEN a ELSE b

Aged(dt) == [k \in 1..Len(q) |-> [q[k] EXCEPT !.age = Min(Grace, @ + dt)]]
\* may a request arriving now be answered NRDY?  (nothing complete, or completed only just now)
NrdyOk(qq) == qq = <<>> \/ qq[1].age < Grace

-----------------------------------------------------------------------------
(* Env events *)
FailW(ev) == IF Len(ev.bytes) = 0 \/ Len(ev.bytes) > 4 THEN "env_word_size"
             ELSE IF Len(ev.bytes) < 4 /\ ~ev.last THEN "env_partial_word_not_last"
             ELSE "ok"

ApplyW(ev, qq) ==
  LET c2 == cur \o ev.bytes
      full == Len(c2) = cfg.maxpkt
      push == IF full /\ ev.last THEN <<[b |-> c2, age |-> 0], [b |-> <<>>, age |-> 0]>>       \* + zero length packet
              ELSE IF full \/ ev.last THEN <<[b |-> c2, age |-> 0]>>
              ELSE <<>>
  IN /\ cur' = IF full \/ ev.last THEN <<>> ELSE c2
     /\ q' = qq \o push
     /\ accBytes' = accBytes \o ev.bytes
     /\ accEnds' = IF ev.last THEN Append(accEnds, Len(accBytes) + Len(ev.bytes)) ELSE accEnds
     /\ UNCHANGED <<seq, infl, req, flow, erdyPend, ackBytes, ackEnds>>

ToUs(ev) == ev.ep = cfg.ep
Awaiting == infl # NoPkt /\ ~req.on                      \* the host owes a verdict on the packet in flight
Accepts(ev) == Awaiting /\ ev.rty = 0 /\ ev.seq = (infl.seq + 1) % 32
Retries(ev) == Awaiting /\ ev.rty = 1 /\ ev.seq = infl.seq /\ ev.nump >= 1
Polls(ev)   == infl = NoPkt /\ ev.rty = 0 /\ ev.seq = seq /\ ev.nump >= 1

FailAck(ev) == IF ~ToUs(ev) THEN "ok"
               ELSE IF req.on THEN "env_ack_while_request_outstanding"
               ELSE IF ~(Accepts(ev) \/ Retries(ev) \/ Polls(ev)) THEN "env_illegal_ack"
               ELSE "ok"

ApplyAck(ev, qq) ==
  IF ~ToUs(ev) THEN q' = qq /\ UNCHANGED <<cur, seq, infl, req, flow, erdyPend, accBytes, ackBytes, accEnds, ackEnds>>
  ELSE /\ q' = qq
       /\ UNCHANGED <<cur, flow, erdyPend, accBytes, accEnds>>
       /\ IF Accepts(ev)
          THEN /\ seq' = (seq + 1) % 32 /\ infl' = NoPkt
               /\ req' = [on |-> ev.nump >= 1, retry |-> FALSE, nrdyOk |-> NrdyOk(qq)]
               /\ ackBytes' = ackBytes \o infl.b
               /\ ackEnds' = IF Len(infl.b) < cfg.maxpkt THEN Append(ackEnds, Len(ackBytes) + Len(infl.b)) ELSE ackEnds
          ELSE IF Retries(ev)
          THEN /\ req' = [on |-> TRUE, retry |-> TRUE, nrdyOk |-> FALSE]
               /\ UNCHANGED <<seq, infl, ackBytes, ackEnds>>
          ELSE /\ req' = [on |-> TRUE, retry |-> FALSE, nrdyOk |-> NrdyOk(qq)]
               /\ UNCHANGED <<seq, infl, ackBytes, ackEnds>>

-----------------------------------------------------------------------------
(* Device events *)
\* beats = <<[n, first, last], ...>>: valid bytes and framing flags of every transferred beat (<<>> for a ZLP)
FramingOk(ev) == /\ ev.zlp = (ev.bytes = <<>>)
                 /\ ev.zlp = (ev.beats = <<>>)
                 /\ \A k \in 1..Len(ev.beats) :
                      /\ ev.beats[k].first = (k = 1)
                      /\ ev.beats[k].last = (k = Len(ev.beats))
                      /\ (k < Len(ev.beats) => ev.beats[k].n = 4)

FailDp(ev) ==
     IF ~req.on THEN "dp_without_request"
     ELSE IF req.retry /\ ev.bytes # infl.b THEN "retry_payload"
     ELSE IF req.retry /\ ev.seq # infl.seq THEN "retry_sequence"
     ELSE IF ~req.retry /\ q = <<>> THEN "dp_without_complete_packet"
     ELSE IF ~req.retry /\ ev.bytes # q[1].b THEN "dp_payload"
     ELSE IF ~req.retry /\ ev.seq # seq THEN "dp_sequence"
     ELSE IF ~ev.zlp /\ ev.len # Len(ev.bytes) THEN "dp_length"
     ELSE IF ev.epn # cfg.ep THEN "dp_endpoint"
     ELSE IF ~FramingOk(ev) THEN "dp_framing"
     ELSE "ok"

ApplyDp(ev, qq) ==
     /\ req' = NoReq /\ flow' = "active"
     /\ IF req.retry THEN q' = qq /\ UNCHANGED infl
        ELSE q' = Tail(qq) /\ infl' = [seq |-> seq, b |-> qq[1].b]
     /\ UNCHANGED <<cur, seq, erdyPend, accBytes, ackBytes, accEnds, ackEnds>>

FailTp(ev) ==
     IF ev.kind \notin {"nrdy", "erdy"} THEN "tp_unexpected_subtype"
     ELSE IF ev.kind # ev.want THEN "tp_subtype_differs_from_request"
     ELSE IF cfg.chkep /\ ev.epn # cfg.ep THEN "tp_endpoint"
     ELSE IF ev.addr # cfg.addr THEN "tp_device_address"
     ELSE IF ev.kind = "nrdy" /\ ~req.on THEN "nrdy_without_request"
     ELSE IF ev.kind = "nrdy" /\ (req.retry \/ ~req.nrdyOk) THEN "nrdy_while_holding_data"
     \* An ERDY is judged when the endpoint asks for it (ev.phase = "request", or "both" where request and emission
     \* are one event): the transaction packet may reach the wire later, even after a host that polled without
     \* waiting for it has been served (ev.phase = "emit": only requires that it was asked for).
     ELSE IF ev.kind = "erdy" /\ ev.phase = "emit" /\ ~erdyPend THEN "erdy_without_request"
     ELSE IF ev.kind = "erdy" /\ ev.phase # "emit" /\ flow # "nrdy" THEN "erdy_without_nrdy"
     ELSE IF ev.kind = "erdy" /\ ev.phase # "emit" /\ q = <<>> THEN "erdy_without_data"
     ELSE "ok"

ApplyTp(ev, qq) ==
     /\ q' = qq
     /\ IF ev.kind = "nrdy" THEN req' = NoReq /\ flow' = "nrdy" /\ UNCHANGED erdyPend
        ELSE IF ev.phase = "emit" THEN erdyPend' = FALSE /\ UNCHANGED <<req, flow>>
        ELSE flow' = "active" /\ erdyPend' = (ev.phase = "request") /\ UNCHANGED req
     /\ UNCHANGED <<cur, seq, infl, accBytes, ackBytes, accEnds, ackEnds>>

FailEnd == IF req.on THEN "request_unanswered"
           ELSE IF flow = "nrdy" /\ q # <<>> THEN "erdy_missing"
           ELSE IF erdyPend THEN "erdy_requested_but_not_sent"
           ELSE "ok"

-----------------------------------------------------------------------------
Failing(ev) == CASE ev.e = "w"   -> FailW(ev)
                 [] ev.e = "ack" -> FailAck(ev)
                 [] ev.e = "dp"  -> FailDp(ev)
                 [] ev.e = "tp"  -> FailTp(ev)
                 [] ev.e = "end" -> FailEnd
                 [] OTHER        -> "env_unknown_event"

Apply(ev, dt) ==
  LET qq == Aged(dt) IN
  /\ last_ev' = ev /\ UNCHANGED cfg
  /\ CASE ev.e = "w"   -> ApplyW(ev, qq)
       [] ev.e = "ack" -> ApplyAck(ev, qq)
       [] ev.e = "dp"  -> ApplyDp(ev, qq)
       [] ev.e = "tp"  -> ApplyTp(ev, qq)
       [] OTHER        -> q' = qq /\ UNCHANGED <<cur, seq, infl, req, flow, erdyPend, accBytes, ackBytes, accEnds, ackEnds>>

InitWith(c) == /\ cfg = c /\ cur = <<>> /\ q = <<>> /\ seq = 0 /\ infl = NoPkt /\ req = NoReq /\ flow = "active"
               /\ erdyPend = FALSE
               /\ last_ev = [e |-> "init"]
               /\ accBytes = <<>> /\ ackBytes = <<>> /\ accEnds = <<>> /\ ackEnds = <<>>

-----------------------------------------------------------------------------
(* Prop *)
RECURSIVE Flat(_)
Flat(s) == IF s = <<>> THEN <<>> ELSE s[1].b \o Flat(Tail(s))
IsPrefix(a, b) == Len(a) <= Len(b) /\ SubSeq(b, 1, Len(a)) = a

\* The stream is delivered exactly once, in order: acknowledged bytes, the packet in flight, the queued
\* packets and the packet being assembled are, concatenated, exactly what the stream supplied.
ExactlyOnceInOrder == ackBytes \o (IF infl # NoPkt THEN infl.b ELSE <<>>) \o Flat(q) \o cur = accBytes
\* Packets are max-size except where a transfer ends; every acknowledged short/zero packet marks a transfer end.
PacketShapes == /\ \A k \in 1..Len(q) : Len(q[k].b) <= cfg.maxpkt
                /\ Len(cur) < cfg.maxpkt
                /\ IsPrefix(ackEnds, accEnds)
\* A request is outstanding only while the host waits; a retry is only pending for a packet in flight.
RequestShape == /\ (req.retry => req.on /\ infl # NoPkt)
                /\ (infl # NoPkt => infl.seq = seq)
=============================================================================
