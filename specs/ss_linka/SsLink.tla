------------------------------- MODULE SsLink -------------------------------
(***************************************************************************)
(* Shared vocabulary of the USB3 link-layer specifications (engine         *)
(* ss_linka): the 8b/10b control symbols of [USB3.2 Table 6-2], 32-bit     *)
(* words as the PIPE/link interface carries them, and the framing ordered  *)
(* sets of [USB3.2 7.2.1, 7.2.2].                                          *)
(*                                                                         *)
(* A word is a record [d : <<b0,b1,b2,b3>>, c : 0..15, v : BOOLEAN]:       *)
(* b0 is the symbol that goes onto the wire first (bits 7:0 of the         *)
(* gateware's `data`), bit k of c says that symbol k is a K (control)      *)
(* symbol, v is the stream's `valid`.  TLC integers are 32 bit, so words   *)
(* are never kept as one integer.                                          *)
(***************************************************************************)
EXTENDS Naturals, Sequences, CRC

\* control symbols (value of the K-code byte)
SKP == 60      \* K28.1  3C
SDP == 92      \* K28.2  5C  start data packet
EDB == 124     \* K28.3  7C  end bad
SUB == 156     \* K28.4  9C
COM == 188     \* K28.5  BC
SHP == 251     \* K27.7  FB  start header packet
END == 253     \* K29.7  FD  end
SLC == 254     \* K30.7  FE  start link command
EPF == 247     \* K23.7  F7  end packet framing
IDL == 0       \* D0.0   logical idle (a data symbol)

Byte == 0..255
Ctrl == 0..15
Bool == {TRUE, FALSE}

W(bytes, ctrl) == [d |-> bytes, c |-> ctrl, v |-> TRUE]
SameWord(a, b) == a.d = b.d /\ a.c = b.c
NoWord == [d |-> <<0, 0, 0, 0>>, c |-> 0, v |-> FALSE]

\* framing ordered sets (each exactly one word on the 32-bit interface)
LCSTART  == W(<<SLC, SLC, SLC, EPF>>, 15)
HPSTART  == W(<<SHP, SHP, SHP, EPF>>, 15)
DPPSTART == W(<<SDP, SDP, SDP, EPF>>, 15)
DPPEND   == W(<<END, END, END, EPF>>, 15)
DPPABORT == W(<<EDB, EDB, EDB, EPF>>, 15)

IsSet(w, s) == w.v /\ SameWord(w, s)

\* 16-bit halves of a data word
Lo16(w) == w.d[1] + 256 * w.d[2]
Hi16(w) == w.d[3] + 256 * w.d[4]
BytesOf16(x) == <<x % 256, x \div 256>>
BitOf(x, k) == (x \div (2 ^ k)) % 2
FlipBit(x, k) == IF BitOf(x, k) = 1 THEN x - 2 ^ k ELSE x + 2 ^ k

\* number of set bits of a 4-bit mask that is a run of ones from bit 0 (0,1,3,7,15); 99 otherwise
MaskLen(m) == CASE m = 0 -> 0 [] m = 1 -> 1 [] m = 3 -> 2 [] m = 7 -> 3 [] m = 15 -> 4 [] OTHER -> 99
LenMask(n) == CASE n = 0 -> 0 [] n = 1 -> 1 [] n = 2 -> 3 [] n = 3 -> 7 [] OTHER -> 15

Min(a, b) == IF a < b THEN a ELSE b
Max(a, b) == IF a > b THEN a ELSE b
-----------------------------------------------------------------------------
(* Specifications call Crc5(v) == Usb3Crc5(v), the bit-serial definition.  Models and trace runs *)
(* that need it thousands of times override it (cfg: Crc5 <- TabCrc5) with the table below,      *)
(* which TLC builds from the same definition.                                                    *)
\* CRC-5 table built by TLC from the bit-serial definition (for definition overrides `Crc5 <- TabCrc5`)
\* Level(k)[p] = the CRC shift register after the first k bits (bit 0 first) of any value whose low k bits
\* are p: the same CrcShift steps as the definition, shared between values with a common prefix.
RECURSIVE Crc5Level(_)
Crc5Level(k) == IF k = 0 THEN [p \in {0} |-> Ones(5)]
                ELSE LET prev == Crc5Level(k - 1)
                     IN [p \in 0..(2 ^ k - 1) |-> CrcShift(prev[p % 2 ^ (k - 1)], p \div 2 ^ (k - 1), Poly5)]
Crc5Table == LET regs == Crc5Level(11) IN [v \in 0..2047 |-> ValLSB(Invert(regs[v]))]
TabCrc5(v11) == Crc5Table[v11]
\* the table agrees with the definition (spot-checked by TLC on every run that uses it)
Crc5TableOk == \A v \in {0, 1, 2, 1024, 1365, 682, 2047, 1289, 640, 77} : Crc5Table[v] = Usb3Crc5(v)
-----------------------------------------------------------------------------
(* CRC-32 of a long payload.  CRC.tla's Usb3Crc32Bytes first expands the payload into one bit sequence; TLC's  *)
(* cost for that grows quadratically (1 KiB takes minutes).  Crc32Stream is the same bit-serial definition --  *)
(* the same CrcShift steps, register preloaded with ones, result inverted, first sent bit first -- taken one   *)
(* byte (8 bits, LSB first) at a time; Crc32StreamOk spot-checks the two against each other.                   *)
RECURSIVE Crc32RegFrom(_, _, _, _)
Crc32RegFrom(reg, bytes, k, n) ==
    IF k > n THEN reg ELSE Crc32RegFrom(CrcRun(reg, BitsLSB(bytes[k], 8), Poly32), bytes, k + 1, n)
Crc32Stream(bytes) == BitsToBytes(Invert(Crc32RegFrom(Ones(32), bytes, 1, Len(bytes))))
Crc32StreamOk == \A b \in {<<>>, <<255>>, <<1, 2, 3>>, <<170, 187, 152, 44>>, <<0, 5, 30, 0, 0, 0, 0, 0, 9>>} :
                    Crc32Stream(b) = Usb3Crc32Bytes(b)
=============================================================================
