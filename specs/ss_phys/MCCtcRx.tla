------------------------------- MODULE MCCtcRx -------------------------------
(***************************************************************************)
(* Bounded model of CtcRx.  The Ref never looks at a symbol except to ask   *)
(* "is it SKP", so the most general input numbers its non-SKP symbols       *)
(* 1001, 1002, ... (any loss, duplication or reordering is then visible)    *)
(* and Env only chooses, per cycle, valid/invalid and which of the four     *)
(* positions hold SKP (all 16 masks), plus whether a word is delivered.     *)
(***************************************************************************)
EXTENDS CtcRx, FiniteSets, TLC

CONSTANT MaxWords

VARIABLES pend,        \* Ref
          nid,         \* next fresh symbol number
          rawIn,       \* ghost: every symbol received (valid words), in order, SKPs included
          allOut,      \* ghost: every symbol delivered
          in, out      \* Env input / chosen output of the last cycle

vars == <<pend, nid, rawIn, allOut, in, out>>

Init == /\ pend = <<>> /\ nid = 1001 /\ rawIn = <<>> /\ allOut = <<>>
        /\ in = [valid |-> FALSE, w |-> <<0, 0, 0, 0>>]
        /\ out = [valid |-> FALSE, w |-> <<0, 0, 0, 0>>]

\* number of non-SKP positions strictly before k
Before(mask, k) == Cardinality({j \in 1..(k - 1) : j \notin mask})
WordOf(mask, base) == [k \in 1..4 |-> IF k \in mask THEN SKP ELSE base + Before(mask, k)]

Cycle(v, mask, emit) ==
    LET i == [valid |-> v, w |-> WordOf(mask, nid)]
        a == Avail(pend, i)
        o == [valid |-> emit, w |-> IF emit /\ Len(a) >= 4 THEN SubSeq(a, 1, 4) ELSE <<0, 0, 0, 0>>]
    IN /\ OutOK(pend, i, o)
       /\ Len(PendNext(pend, i, o)) <= Cap
       /\ in' = i /\ out' = o
       /\ pend' = PendNext(pend, i, o)
       /\ nid' = IF v THEN nid + (4 - Cardinality(mask)) ELSE nid
       /\ rawIn' = IF v THEN rawIn \o i.w ELSE rawIn
       /\ allOut' = IF emit THEN allOut \o o.w ELSE allOut

ValidWord   == \E mask \in SUBSET (1..4), emit \in BOOLEAN : Cycle(TRUE, mask, emit)
InvalidWord == \E emit \in BOOLEAN : Cycle(FALSE, {}, emit)

Next == ValidWord \/ InvalidWord
Spec == Init /\ [][Next]_vars

Bounded == Len(rawIn) <= 4 * MaxWords

-----------------------------------------------------------------------------
(* Prop *)
ExactlySkpsRemoved == allOut \o pend = NonSkp(rawIn)
NoSkpDelivered     == \A k \in 1..Len(allOut) : allOut[k] # SKP
WholeWords         == Len(allOut) % 4 = 0
BufferBounded      == Len(pend) <= Cap
\* order: the delivered symbols are numbered consecutively from 1001
InOrder            == \A k \in 1..Len(allOut) : allOut[k] = 1000 + k
DeliveredOnlyGrows == [][/\ Len(allOut') >= Len(allOut)
                         /\ SubSeq(allOut', 1, Len(allOut)) = allOut]_vars
=============================================================================
