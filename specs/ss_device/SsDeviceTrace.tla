--------------------------- MODULE SsDeviceTrace ---------------------------
(***************************************************************************)
(* Trace validation for SsDevice.  A trace is the event log of one run of  *)
(* the real USBSuperSpeedDevice (hosts/ss_device_bench.py):                *)
(*   {e:"up"} {e:"down"} {e:"hot"} {e:"warm"} {e:"lmp"} {e:"quiet"}        *)
(*   {e:"dp_rx",ep,setup,len,p}   p = row of the payload table             *)
(*   {e:"tp",sub,ep,seq,nump,rty} {e:"itp",cnt,delta} {e:"w",b,last}       *)
(*   {e:"req",k,ep,seq,rty} {e:"rxv",good} {e:"bi",v}                      *)
(*   {e:"dhp",h,c}    a header packet of the device: h = row of the header *)
(*                    table (8 x 16-bit limbs of DW0..DW3), c = ctrl bits  *)
(*   {e:"ddp",p,fr,tnz}  payload after a data header: p = row of the       *)
(*                    payload table, fr = control symbols after the CRC,   *)
(*                    tnz = non-idle bytes after the framing               *)
(*   {e:"dhp_down",..} and anything else the bench reports                 *)
(* The tables (TAB_FILE: hdrs, pays, desc) are shared by all traces of a   *)
(* run, so that every CRC is computed once.  All decoding and every CRC    *)
(* check (CRC-5 / CRC-16 of device headers with LinkCrc.tla -- a verbatim  *)
(* copy from engine ss_linklayer --, CRC-32 of all payloads in both        *)
(* directions with lib/CRC.tla) happens here, not in the bench.            *)
(***************************************************************************)
EXTENDS SsDevice, LinkCrc, CRC, TLC, TLCExt, Json, IOUtils

Logs == JsonDeserialize(IOEnv.TRACE_FILE)
Tab  == JsonDeserialize(IOEnv.TAB_FILE)
Hdrs == Tab.hdrs
Pays == Tab.pays
DescTab == [i \in 1..Len(Tab.desc) |-> [k |-> Tab.desc[i].k, b |-> Tab.desc[i].b]]

VARIABLES tid, l, status
tvars == <<vars, tid, l, status>>

ASSUME \A i \in 1..Len(Logs) : TLCSet(i, <<0, "ok">>)

(* ---- decoding [USB3.2 8.3.1.2 Table 8-3 (DW3), 8.5 (TP), 8.6 (DPH)] ---- *)
HpCrcOk(w) == LinkCrc5(w[8] % 2048) = w[8] \div 2048 /\ LinkCrc16(SubSeq(w, 1, 6)) = w[7]
HdrOk == [i \in 1..Len(Hdrs) |-> HpCrcOk(Hdrs[i])]                                  \* constant level: once per run
PayOk == [i \in 1..Len(Pays) |-> Len(Pays[i].crc) = 4 /\ Usb3Crc32Bytes(Pays[i].b) = Pays[i].crc]

DecHdr(w, c) ==
    LET type == w[1] % 32 IN
    [e |-> "dhp", ok |-> FALSE, type |-> type, addr |-> w[2] \div 512, sub |-> w[3] % 16, ep |-> (w[3] \div 256) % 16,
     rty |-> (w[3] \div 64) % 2, nump |-> w[4] % 32,
     seq |-> IF type = 8 THEN w[3] % 32 ELSE (w[4] \div 32) % 32,
     len |-> IF type = 8 THEN w[4] ELSE 0]

Abs(x) ==
    CASE x.e = "dp_rx" -> [e |-> "dp_rx", ep |-> x.ep, setup |-> x.setup, len |-> x.len, b |-> Pays[x.p].b, ok |-> PayOk[x.p]]
      [] x.e = "dhp"   -> [DecHdr(Hdrs[x.h], x.c) EXCEPT !.ok = (x.c = 0 /\ HdrOk[x.h])]
      [] x.e = "ddp"   -> [e |-> "ddp", b |-> Pays[x.p].b, ok |-> PayOk[x.p], fr |-> (x.fr = <<253, 253, 253, 247>> /\ x.tnz = 0)]
      [] x.e = "w"     -> [e |-> "w", b |-> x.b, last |-> x.last, same |-> x.same]
      [] OTHER         -> x

TInit == Init /\ tid \in 1..Len(Logs) /\ l = 1 /\ status = "ok"

TNext == /\ status = "ok"
         /\ l <= Len(Logs[tid])
         /\ UNCHANGED tid
         /\ l' = l + 1
         /\ LET a == Abs(Logs[tid][l]) IN
            /\ status' = Judge(a)
            /\ IF status' = "ok" THEN Apply(a) ELSE UNCHANGED vars

TSpec == TInit /\ [][TNext]_tvars

TraceProp == Theorems
Verdict == IF status # "ok" THEN status ELSE IF TraceProp THEN "ok" ELSE "prop_invariant"
Progress == TLCSet(tid, <<l - 1, Verdict>>) /\ Verdict = "ok"
Verdicts == JsonSerialize(IOEnv.VERDICT_FILE, [i \in 1..Len(Logs) |-> TLCGet(i)])
=============================================================================
