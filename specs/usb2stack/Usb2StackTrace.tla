-------------------------- MODULE Usb2StackTrace --------------------------
(* Trace validation for Usb2Stack: Logs[tid] = [cfg |-> [vid, pid, phy, speed, lat], steps |-> <<records>>].      *)
(* Records: "hp" (host packet delivered by the PHY), "dp" (device packet at the PHY boundary), "quiet" (a token   *)
(* for the idle interrupt endpoint / a foreign token / SOF / junk was answered as observed), and the transaction  *)
(* records of UsbSerial ("tx", "rx", "out", "in", "ctl", "end").  status = name of the first violated clause.      *)
EXTENDS Usb2Stack, TLC, TLCExt, Json, IOUtils

Logs == JsonDeserialize(IOEnv.TRACE_FILE)

VARIABLES tid, l, status
tvars == <<svars, tid, l, status>>

ASSUME \A i \in 1..Len(Logs) : TLCSet(i, <<0, "ok">>)

Steps == Logs[tid].steps
Cfg == Logs[tid].cfg

First(a, b) == IF a # "ok" THEN a ELSE b

FailOf(r) ==
    CASE r.e = "hp"  -> HostPktEnv(r)
      [] r.e = "dp"  -> DevPktFail([Cfg EXCEPT !.speed = bus.spd], r)
      [] r.e = "reset" -> ResetFail(r)
      [] r.e = "bus" -> BusEventFail(r)
      [] r.e = "stray_chirp" -> "device_chirps_outside_a_bus_reset"
      [] r.e = "quiet" -> QuietFail(r.addr, r.is_in)
      [] r.e = "tx"  -> TxBeatsFail(r.beats)
      [] r.e = "rx"  -> RxBeatsFail(r.bytes)
      [] r.e = "out" -> First(BulkEnv(r.addr), First(OutWireFail(r.resp), OutFail(r.addr, r.tog, r.payload, r.crc_ok, r.resp)))
      [] r.e = "in"  -> First(BulkEnv(r.addr), First(InWireFail(r.resp), InFail(r.addr, r.resp, r.host_ack)))
      [] r.e = "ctl" -> First(CtlWireFail(r.req, r.outcome, r.data), CtlFail(r.addr, r.req, r.outcome, r.data, Cfg.vid, Cfg.pid))
      [] r.e = "end" -> First(IF pk = <<>> THEN "ok" ELSE "device_packet_at_phy_not_reported_by_transaction", EndFail)
      [] OTHER -> "unknown_record"

Apply(r) ==
    CASE r.e = "hp"  -> HostPkt(r)
      [] r.e = "dp"  -> DevPkt(Cfg, r)
      [] r.e = "reset" -> BusReset(r)
      [] r.e = "bus" -> BusEvent(r)
      [] r.e = "quiet" -> Consumed /\ UNCHANGED vars
      [] r.e = "tx"  -> TxBeats(r.beats) /\ UNCHANGED wvars
      [] r.e = "rx"  -> RxBeats(r.bytes) /\ UNCHANGED wvars
      [] r.e = "out" -> Out(r.addr, r.tog, r.payload, r.crc_ok, r.resp) /\ Consumed
      [] r.e = "in"  -> In(r.addr, r.resp, r.host_ack) /\ Consumed
      [] r.e = "ctl" -> Ctl(r.addr, r.req, r.outcome, r.data) /\ Consumed
      [] OTHER -> UNCHANGED svars

TInit == SInit /\ tid \in 1..Len(Logs) /\ l = 1 /\ status = "ok"

TNext == /\ status = "ok"
         /\ l <= Len(Steps)
         /\ LET r == Steps[l] IN
              LET f == FailOf(r) IN
                /\ status' = f
                /\ IF f = "ok" THEN Apply(r) ELSE UNCHANGED svars
         /\ l' = l + 1
         /\ UNCHANGED tid

TSpec == TInit /\ [][TNext]_tvars

TraceProp == /\ RxExactlyOnceInOrder /\ TxExactlyOnceInOrder /\ TogglesBinary /\ AddressRange
             /\ WireTypeOK /\ NeverBothSolicitations

Verdict == IF status # "ok" THEN status ELSE IF TraceProp THEN "ok" ELSE "prop_invariant"
Progress == TLCSet(tid, <<l - 1, Verdict>>) /\ Verdict = "ok"

Verdicts == JsonSerialize(IOEnv.VERDICT_FILE, [i \in 1..Len(Logs) |-> TLCGet(i)])
=============================================================================
