----------------------------- MODULE CrcFnTrace -----------------------------
(***************************************************************************)
(* Validation of evaluations of the *real* LUNA CRC networks (recorded by  *)
(* the harness from amaranth.sim) against the bit-serial definitions.      *)
(* A trace is a sequence of records                                        *)
(*     [k |-> network, s |-> state bits, d |-> data bits, o |-> output]    *)
(* (bit sequences in signal order).  The networks are stateless, so the    *)
(* records are independent; a trace is accepted iff for *every* record     *)
(*     o = FnDef(k, s, d)                                                  *)
(* The register of a trace holds <<records matched, first failing clause>>.*)
(***************************************************************************)
EXTENDS CrcFn, TLC, TLCExt, Json, IOUtils

Logs == JsonDeserialize(IOEnv.TRACE_FILE)

VARIABLES tid, l, status
tvars == <<tid, l, status>>

ASSUME \A i \in 1..Len(Logs) : TLCSet(i, <<0, "ok">>)

Failing(r) ==
    IF ~WellTyped(r.k, r.s, r.d, r.o) THEN "ill_typed_record"
    ELSE IF r.o # FnDef(r.k, r.s, r.d) THEN "output_differs_from_definition"
    ELSE "ok"

TInit == tid \in 1..Len(Logs) /\ l = 1 /\ status = "ok"

TNext == /\ status = "ok"
         /\ l <= Len(Logs[tid])
         /\ status' = Failing(Logs[tid][l])
         /\ l' = l + 1
         /\ UNCHANGED tid

TSpec == TInit /\ [][TNext]_tvars

Progress == TLCSet(tid, <<l - 1, status>>) /\ status = "ok"

Verdicts == JsonSerialize(IOEnv.VERDICT_FILE, [i \in 1..Len(Logs) |-> TLCGet(i)])
=============================================================================
