#!/usr/bin/env python3
"""Merge the staging files known_findings.d/*.json into the single committed known_findings.json."""
import glob, json, os
main = "/verif/known_findings.json"
d = json.load(open(main))
ids = {f["id"] for f in d["findings"]}
for p in sorted(glob.glob("/verif/known_findings.d/*.json")):
    for f in json.load(open(p))["findings"]:
        if f["id"] in ids:
            d["findings"] = [g for g in d["findings"] if g["id"] != f["id"]]
        f.setdefault("engine", os.path.basename(p)[:-5])
        d["findings"].append(f)
        ids.add(f["id"])
    os.remove(p)
d["findings"].sort(key=lambda f: (f["property"], f["id"]))
json.dump(d, open(main, "w"), indent=1)
print(len(d["findings"]), "findings;", sum(1 for f in d["findings"] if f["status"] == "open"), "open")
