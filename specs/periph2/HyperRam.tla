------------------------------ MODULE HyperRam ------------------------------
(***************************************************************************)
(* Bus-level specification of luna.gateware.interface.psram.               *)
(* HyperRAMInterface (property C53), written from the class doc-string,    *)
(* the command layout comment ("WRBAAAAA / A[19:27] / A[11:19] / A[3:11] / *)
(* reserved / 00000AAA") and the HyperBus transaction format; it observes  *)
(* the PHY record (cs, clk_en, dq, rwds) and the user handshakes.          *)
(*                                                                         *)
(* Grain: one step = one clock cycle.  One HyperBus clock (two DQ bytes)   *)
(* is a cycle with cs = 1 and clk_en = 1 ("clocked cycle"); k numbers the  *)
(* clocked cycles of a transaction.                                        *)
(*   Env  : requests (start_transfer with address, register_space,         *)
(*          perform_write, single_page; taken whenever `idle` is high),    *)
(*          final_word at any time, write data, the memory's RWDS (any     *)
(*          pattern, except that RWDS is quiet low in the two clocks       *)
(*          before the read-data phase).  The request inputs are sampled   *)
(*          with the strobe and may change afterwards.  rst = synchronous  *)
(*          reset of the interface's clock domain in any cycle: whatever   *)
(*          was in progress is abandoned (CS drops), the interface is idle.*)
(*   Ref  : the transaction on the bus (cur), a request accepted while the *)
(*          previous one is still finishing on the bus (nxt), the queue of *)
(*          write words accepted through write_ready and not yet clocked   *)
(*          out.  Legal outputs are given by three relations (BusViol,     *)
(*          HsViol, EnvViol = "ok"): clocks 1..3 carry the command-address *)
(*          words; a register write carries its word on clock 4; memory    *)
(*          write data starts on clock 3+L; reads never drive; CS stays    *)
(*          asserted from the first clock to the last; a write gets no     *)
(*          clock after its final word; the next command needs CS to be    *)
(*          deasserted first.  Cycle counts that the property leaves open  *)
(*          (CS set-up before the first clock, pauses, when idle returns,  *)
(*          how early write words are fetched) are free.                   *)
(*   Prop : ghost memory-side view: the three command words decoded with   *)
(*          the HyperBus field positions (47 R/W#, 46 AS, 45 burst, 44..16 *)
(*          A[31:3], 15..3 reserved 0, 2..0 A[2:0]) give back the request; *)
(*          the words the memory latches are the words accepted; the host  *)
(*          never drives DQ / RWDS in a cycle where the memory may.        *)
(***************************************************************************)
EXTENDS Integers, Sequences, Bits

CONSTANTS L,          \* latency clocks between the last command clock and the first memory data clock
          Reqs,       \* request alphabet (exhaustive model only): set of [write, reg, single, ahi, alo]
          WData,      \* write-data alphabet (exhaustive model only)
          MaxQ        \* bound on write words fetched ahead (exhaustive model only)

VARIABLES cur,        \* transaction on the bus
          nxt,        \* request accepted while cur is still finishing
          prev0,      \* RWDS level in the second half of the previous cycle
          in,         \* Env inputs of the last cycle
          out,        \* outputs of the last cycle
          memcmd,     \* ghost: DQ words the memory latched on clocks 1..3 of the current CS window
          memwr,      \* ghost: DQ words the memory latched as write data in the current CS window
          accw,       \* ghost: write words accepted (write_ready) for the current transaction
          conflict    \* ghost: the host drove DQ or RWDS in a cycle in which the memory may drive it

vars == <<cur, nxt, prev0, in, out, memcmd, memwr, accw, conflict>>

Bool == {TRUE, FALSE}

-----------------------------------------------------------------------------
(* The 48-bit command-address word, most significant bit first, as the doc-string lists it. *)
AddrBits(ahi, alo) == BitsMSB(ahi, 16) \o BitsMSB(alo, 16)          \* A31 first ... A0 last
B(b) == IF b THEN 1 ELSE 0
CABits(write, reg, single, ahi, alo) ==
    LET a == AddrBits(ahi, alo) IN
    <<B(~write), B(reg), B(~single)>>        \* W: 1 = read; R: 1 = register space; B: 1 = linear, 0 = wrapped
    \o SubSeq(a, 1, 29)                      \* A31 .. A3
    \o [j \in 1..13 |-> 0]                   \* reserved
    \o SubSeq(a, 30, 32)                     \* A2 .. A0
CAWords(write, reg, single, ahi, alo) ==
    LET c == CABits(write, reg, single, ahi, alo) IN
    [j \in 1..3 |-> ValMSB(SubSeq(c, 16 * (j - 1) + 1, 16 * j))]  \* one 16-bit word per clock, upper byte first

NoTxn == [active |-> FALSE, write |-> FALSE, reg |-> FALSE, single |-> FALSE, ahi |-> 0, alo |-> 0,
          ca |-> <<0, 0, 0>>, k |-> 0, wq |-> <<>>, wfinal |-> FALSE, rfinal |-> FALSE, done |-> FALSE]
NewTxn(i) == [NoTxn EXCEPT !.active = TRUE, !.write = i.write, !.reg = i.reg, !.single = i.single,
                           !.ahi = i.ahi, !.alo = i.alo,
                           !.ca = CAWords(i.write, i.reg, i.single, i.ahi, i.alo)]

NoIn == [start |-> FALSE, write |-> FALSE, reg |-> FALSE, single |-> FALSE, ahi |-> 0, alo |-> 0,
         final |-> FALSE, wdata |-> 0, rwds |-> 0, rst |-> FALSE]
NoOut == [cs |-> FALSE, clk_en |-> FALSE, dq_e |-> FALSE, dq_o |-> 0, rwds_e |-> FALSE, rwds_o |-> 0,
          idle |-> FALSE, write_ready |-> FALSE, read_ready |-> FALSE]

Init == /\ cur = NoTxn /\ nxt = NoTxn /\ prev0 = 0
        /\ in = NoIn /\ out = NoOut
        /\ memcmd = <<>> /\ memwr = <<>> /\ accw = <<>> /\ conflict = FALSE

-----------------------------------------------------------------------------
(* Phases of a transaction, by clock number *)
DataStart(t) == IF t.write /\ t.reg THEN 4 ELSE 3 + L        \* register writes have no latency
Phase(t, kk) == IF kk <= 3 THEN "cmd"
                ELSE IF kk < DataStart(t) THEN "lat"
                ELSE IF t.write THEN "wdata" ELSE "rdata"

Running == cur.active /\ ~cur.done
Clocked(o) == o.cs /\ o.clk_en
KNow(o) == IF Clocked(o) /\ Running THEN cur.k + 1 ELSE cur.k

\* write words accepted up to and including this cycle
WqNow(i, o) == IF o.write_ready THEN Append(cur.wq, i.wdata) ELSE cur.wq
WFinalNow(i, o) == cur.wfinal \/ (o.write_ready /\ (i.final \/ cur.reg))

\* the memory completes a read word when RWDS falls between two half-cycle samples
Fall(i) == (i.rwds = 2) \/ (prev0 = 1 /\ i.rwds \div 2 = 0)
ReadWord(i, o) == cur.active /\ ~cur.write /\ ~cur.rfinal /\ KNow(o) >= 3 + L /\ Fall(i)
RFinalNow(i, o) == cur.rfinal \/ (ReadWord(i, o) /\ i.final)

CtlDone(i, o) == IF cur.write THEN WFinalNow(i, o) ELSE RFinalNow(i, o)
Busy(i, o) == nxt.active \/ (cur.active /\ ~CtlDone(i, o))

-----------------------------------------------------------------------------
(* Env: legal inputs *)
EnvViol(i, o) ==
    IF ~(i.ahi \in 0..65535 /\ i.alo \in 0..65535 /\ i.rwds \in 0..3) THEN "env_range"
    ELSE IF Running /\ ~cur.write /\ KNow(o) = 3 + L - 1 /\ i.rwds # 0 THEN "env_rwds_guard"
    ELSE IF Running /\ ~cur.write /\ KNow(o) = 3 + L - 2 /\ i.rwds % 2 # 0 THEN "env_rwds_guard"
    ELSE "ok"

(* user handshakes *)
HsViol(i, o) ==
    IF o.write_ready /\ ~(Running /\ cur.write /\ ~cur.wfinal) THEN "write_ready_unexpected"
    ELSE IF o.read_ready /\ ~ReadWord(i, o) THEN "read_ready_without_word"      \* incl. before the latency has elapsed
    ELSE IF ReadWord(i, o) /\ ~o.read_ready THEN "read_word_not_reported"
    ELSE IF o.idle /\ Busy(i, o) THEN "idle_while_busy"
    ELSE "ok"

(* the bus: cs, clk_en, dq, rwds; wq1 = write words accepted and not yet clocked out, incl. this cycle's *)
BusViolQ(wq1, o) ==
    LET k1  == cur.k + 1
        p   == Phase(cur, k1)
    IN
    IF ~cur.active THEN
        IF Clocked(o) THEN "clock_without_transaction"
        ELSE IF o.dq_e \/ o.rwds_e THEN "driven_outside_transaction"
        ELSE "ok"
    ELSE IF cur.done THEN
        IF Clocked(o) /\ cur.write THEN "clock_after_final_write_word"
        ELSE IF (o.dq_e \/ o.rwds_e) /\ (~cur.write \/ ~o.cs) THEN "driven_after_transaction"
        ELSE IF o.rwds_e /\ cur.reg THEN "rwds_driven_register_write"
        ELSE "ok"
    ELSE IF ~o.cs THEN
        IF cur.k >= 1 THEN "cs_dropped_mid_transaction"
        ELSE IF o.dq_e \/ o.rwds_e THEN "driven_outside_transaction"
        ELSE "ok"
    ELSE IF ~o.clk_en THEN                      \* CS asserted, no clock: set-up before / pause between clocks
        IF o.dq_e /\ p \notin {"cmd", "wdata"} THEN "dq_driven_outside_command_and_write"
        ELSE IF o.rwds_e /\ ~(p = "wdata" /\ ~cur.reg) THEN "rwds_driven_outside_write"
        ELSE "ok"
    ELSE CASE p = "cmd" ->
                IF ~o.dq_e THEN "command_not_driven"
                ELSE IF o.dq_o # cur.ca[k1] THEN "command_word"
                ELSE IF o.rwds_e THEN "rwds_driven_in_command"
                ELSE "ok"
           [] p = "lat" ->
                IF o.dq_e THEN "dq_driven_in_latency"
                ELSE IF o.rwds_e THEN "rwds_driven_in_latency"
                ELSE "ok"
           [] p = "wdata" ->
                IF wq1 = <<>> THEN "write_clock_without_word"
                ELSE IF ~o.dq_e THEN "write_data_not_driven"
                ELSE IF o.dq_o # Head(wq1) THEN "write_data_word"
                ELSE IF cur.reg /\ o.rwds_e THEN "rwds_driven_register_write"
                ELSE IF ~cur.reg /\ ~(o.rwds_e /\ o.rwds_o = 0) THEN "write_mask"
                ELSE "ok"
           [] p = "rdata" ->
                IF o.dq_e THEN "dq_driven_during_read"
                ELSE IF o.rwds_e THEN "rwds_driven_during_read"
                ELSE "ok"
BusViol(i, o) == BusViolQ(WqNow(i, o), o)

Viol(i, o) == IF EnvViol(i, o) # "ok" THEN EnvViol(i, o)
              ELSE IF HsViol(i, o) # "ok" THEN HsViol(i, o)
              ELSE BusViol(i, o)

-----------------------------------------------------------------------------
(* ghost: where the memory may drive.  RWDS: from CS assertion through the command and the   *)
(* clock after it (latency indication), and for the whole of a read.  DQ: in a read, from the *)
(* clock after the command on.                                                                *)
MemDrivesRWDS(kk) == cur.active /\ (kk <= 4 \/ ~cur.write)
MemDrivesDQ(kk)   == cur.active /\ ~cur.write /\ kk >= 4

Update(i, o) ==
  LET clk  == Clocked(o) /\ Running
      k1   == cur.k + 1
      p    == Phase(cur, k1)
      wq1  == WqNow(i, o)
      pop  == clk /\ p = "wdata" /\ wq1 # <<>>
      wq2  == IF pop THEN Tail(wq1) ELSE wq1
      wf1  == WFinalNow(i, o)
      rf1  == RFinalNow(i, o)
      done1 == cur.done \/ (cur.write /\ pop /\ wf1 /\ wq2 = <<>>) \/ (cur.active /\ ~cur.write /\ rf1)
      cur1 == IF cur.active
              THEN [cur EXCEPT !.k = IF clk /\ (cur.write \/ k1 <= 3 + L) THEN k1 ELSE @,    \* (a read's clocks are not counted past 3+L)
                               !.wq = wq2, !.wfinal = wf1, !.rfinal = rf1,
                               !.done = done1]
              ELSE cur
      acc  == o.idle /\ i.start
      nxt1 == IF acc THEN NewTxn(i) ELSE nxt
      rel  == cur.active /\ cur.done /\ ~o.cs           \* CS deasserted after the last clock: the window is closed
      take == rel \/ ~cur.active
      kobs == IF clk THEN k1 ELSE cur.k                  \* clock number this cycle belongs to
  IN /\ in' = i /\ out' = o
     /\ prev0' = i.rwds % 2
     /\ cur' = IF i.rst THEN NoTxn ELSE IF take THEN nxt1 ELSE cur1
     /\ nxt' = IF i.rst \/ take THEN NoTxn ELSE nxt1
     /\ memcmd' = IF take \/ i.rst THEN <<>> ELSE IF clk /\ p = "cmd" THEN Append(memcmd, IF o.dq_e THEN o.dq_o ELSE -1)
                  ELSE memcmd
     /\ memwr'  = IF take \/ i.rst THEN <<>> ELSE IF clk /\ p = "wdata" THEN Append(memwr, IF o.dq_e THEN o.dq_o ELSE -1)
                  ELSE memwr
     /\ accw'   = IF take \/ i.rst THEN <<>> ELSE IF o.write_ready THEN Append(accw, i.wdata) ELSE accw
     /\ conflict' = (conflict \/ (Running /\ o.cs /\ ((o.dq_e /\ MemDrivesDQ(kobs)) \/ (o.rwds_e /\ MemDrivesRWDS(kobs)))))

-----------------------------------------------------------------------------
(* Exhaustive-model generator: every (inputs, outputs) pair allowed by the three relations, with the *)
(* don't-care fields (payload of an undriven bus, inputs nobody looks at) pinned to 0 / FALSE.        *)
(* Bus candidates are listed per kind of cycle; Viol(i, o) = "ok" is still required of each.          *)
Mk(cs, clk, dqe, dqo, re) == [cs |-> cs, clk_en |-> clk, dq_e |-> dqe, dq_o |-> dqo, rwds_e |-> re, rwds_o |-> 0]
BusCands(kind, wq1) ==
    LET p == Phase(cur, cur.k + 1) IN
    CASE kind \in {"free", "accept"} -> {Mk(FALSE, FALSE, FALSE, 0, FALSE), Mk(FALSE, TRUE, FALSE, 0, FALSE),
                                          Mk(TRUE, FALSE, FALSE, 0, FALSE)}
      [] kind = "wait" ->                            \* the model pauses only before the first clock and for write data
            IF cur.k = 0
            THEN {Mk(FALSE, FALSE, FALSE, 0, FALSE), Mk(TRUE, FALSE, FALSE, 0, FALSE), Mk(TRUE, FALSE, TRUE, 0, FALSE)}
            ELSE IF p = "wdata" /\ wq1 = <<>> THEN {Mk(TRUE, FALSE, d, 0, FALSE) : d \in Bool}
            ELSE {}
      [] kind = "cmd"   -> {Mk(TRUE, TRUE, TRUE, cur.ca[cur.k + 1], FALSE)}
      [] kind = "lat"   -> {Mk(TRUE, TRUE, FALSE, 0, FALSE)}
      [] kind = "wdata" -> IF wq1 = <<>> THEN {} ELSE {Mk(TRUE, TRUE, TRUE, Head(wq1), ~cur.reg)}
      [] kind = "rdata" -> {Mk(TRUE, TRUE, FALSE, 0, FALSE)}
      [] kind = "drain" ->
            IF cur.write
            THEN {Mk(FALSE, FALSE, FALSE, 0, FALSE), Mk(TRUE, FALSE, FALSE, 0, FALSE),
                  Mk(TRUE, FALSE, TRUE, 0, ~cur.reg)}
            ELSE {Mk(FALSE, FALSE, FALSE, 0, FALSE), Mk(TRUE, FALSE, FALSE, 0, FALSE), Mk(TRUE, TRUE, FALSE, 0, FALSE)}
NoReq == [write |-> FALSE, reg |-> FALSE, single |-> FALSE, ahi |-> 0, alo |-> 0]

KindOfState == IF ~cur.active THEN "free" ELSE IF cur.done THEN "drain" ELSE "run"

Cycle(kind, rst) ==
  /\ KindOfState = (IF kind \in {"free", "accept"} THEN "free" ELSE IF kind = "drain" THEN "drain" ELSE "run")
  /\ (kind \in {"cmd", "lat", "wdata", "rdata"} => Phase(cur, cur.k + 1) = kind)
  /\ \E wr \in (IF Running /\ cur.write /\ ~cur.wfinal /\ Len(cur.wq) < MaxQ THEN Bool ELSE {FALSE}) :
     \E wd \in (IF wr THEN WData ELSE {0}) :
     LET wq1 == IF wr THEN Append(cur.wq, wd) ELSE cur.wq IN
     \E b \in BusCands(kind, wq1) :                  \* (each candidate is re-checked against BusViol below)
     \E rw \in (IF Running /\ ~cur.write /\ KNow(b) >= 3 + L - 2 THEN 0..3 ELSE {0, 3}) :
     LET rr == cur.active /\ ~cur.write /\ ~cur.rfinal /\ KNow(b) >= 3 + L
               /\ ((rw = 2) \/ (prev0 = 1 /\ rw \div 2 = 0)) IN
     \E fin \in (IF wr /\ Len(accw) + 1 >= MaxQ + 1 THEN {TRUE} ELSE IF wr \/ rr THEN Bool ELSE {FALSE}) :
     \E start \in (IF kind # "free" /\ ~rst THEN Bool ELSE {FALSE}) :
     LET idle == start IN                              \* idle without a request changes nothing
     \E rq \in (IF start THEN Reqs ELSE {NoReq}) :
     LET i == [start |-> start, write |-> rq.write, reg |-> rq.reg, single |-> rq.single, ahi |-> rq.ahi,
               alo |-> rq.alo, final |-> fin, wdata |-> wd, rwds |-> rw, rst |-> rst]
         o == [cs |-> b.cs, clk_en |-> b.clk_en, dq_e |-> b.dq_e, dq_o |-> b.dq_o, rwds_e |-> b.rwds_e,
               rwds_o |-> b.rwds_o, idle |-> idle, write_ready |-> wr, read_ready |-> rr]
     IN /\ (kind = "accept" => start)
        /\ Viol(i, o) = "ok"
        /\ Update(i, o)

FreeCycle    == Cycle("free", FALSE)       \* no transaction, no request
AcceptCycle  == Cycle("accept", FALSE)     \* no transaction on the bus, a request is taken
WaitCycle    == Cycle("wait", FALSE)       \* transaction open, no clock this cycle
CommandClock == Cycle("cmd", FALSE)
LatencyClock == Cycle("lat", FALSE)
WriteClock   == Cycle("wdata", FALSE)
ReadClock    == Cycle("rdata", FALSE)
DrainCycle   == Cycle("drain", FALSE)      \* after the last word, until CS is seen deasserted

ResetCycle   == \E k \in {"free", "wait", "cmd", "lat", "wdata", "rdata", "drain"} : Cycle(k, TRUE)   \* reset in any phase

Next == ResetCycle \/ FreeCycle \/ AcceptCycle \/ WaitCycle \/ CommandClock \/ LatencyClock \/ WriteClock \/ ReadClock \/ DrainCycle

Spec == Init /\ [][Next]_vars

-----------------------------------------------------------------------------
(* Prop *)
TypeOK == /\ cur.k \in 0..(3 + L + MaxQ + 1) /\ prev0 \in {0, 1}
          /\ (nxt.active => cur.active)

\* Memory-side decode of the three command clocks with the HyperBus field positions
DecRead(w)   == w[1] \div 32768 = 1
DecReg(w)    == (w[1] \div 16384) % 2 = 1
DecLinear(w) == (w[1] \div 8192) % 2 = 1
DecAhi(w)    == (w[1] % 8192) * 8 + (w[2] \div 8192)         \* A31..A16
DecAlo(w)    == (w[2] % 8192) * 8 + (w[3] % 8)               \* A15..A0
DecRsvd(w)   == w[3] \div 8
CommandDecodes ==
    (cur.active /\ cur.k >= 3) =>
        /\ Len(memcmd) = 3
        /\ \A j \in 1..3 : memcmd[j] \in 0..65535                     \* driven on every command clock
        /\ DecRead(memcmd) = ~cur.write
        /\ DecReg(memcmd) = cur.reg
        /\ DecLinear(memcmd) = ~cur.single
        /\ DecAhi(memcmd) = cur.ahi /\ DecAlo(memcmd) = cur.alo
        /\ DecRsvd(memcmd) = 0
\* the words the memory latches are the accepted words, in order, nothing more
WrittenIsAccepted ==
    /\ (cur.active => \E m \in 0..Len(accw) : memwr = SubSeq(accw, 1, m))
    /\ (cur.active /\ cur.done /\ cur.write => memwr = accw)
\* memory data begins exactly L clocks after the last command clock (register writes: immediately)
DataLatency == cur.active /\ memwr # <<>> => cur.k >= DataStart(cur) /\ Len(memwr) = cur.k - DataStart(cur) + 1
NoContention == ~conflict
ChipSelectHeld == [][(cur.active /\ cur.k >= 1 /\ ~cur.done) => out'.cs]_vars
ResetAbandons == [][in'.rst => (~cur'.active /\ ~nxt'.active)]_vars

=============================================================================
