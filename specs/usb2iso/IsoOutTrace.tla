---------------------------- MODULE IsoOutTrace ----------------------------
(***************************************************************************)
(* Trace validation for IsoOut.  Logs is an array of traces                *)
(*   [cfg |-> [maxPkt, bufSize, epNum, devAddr], steps |-> <<...>>]        *)
(* recorded from a real USBIsochronousStreamOutEndpoint inside a real      *)
(* USBDevice; steps are records, in the order the events ended on the bus  *)
(* / happened on the output stream:                                        *)
(*   [e |-> "tok", pid, addr, ep]           token sent by the host         *)
(*   [e |-> "data", pid, payload, crc]      data packet sent by the host;  *)
(*                                          crc = the two CRC16 bytes sent *)
(*   [e |-> "rd", d, f, l]                  one beat (valid & ready) of    *)
(*                                          the endpoint's output stream   *)
(*   [e |-> "end"]                          the consumer has drained the   *)
(*                                          stream (long ready, no valid)  *)
(* Whether a packet's CRC is right is decided here, by the bit-serial      *)
(* CRC16 of CRC.tla.  The deliver/drop choice is not logged: both branches *)
(* are explored and register tid keeps the furthest one.                   *)
(*                                                                         *)
(* KfPerByteSpace is the named Env predicate of known finding              *)
(* C16-space-checked-per-byte: a packet for which an implementation that   *)
(* re-evaluates "is there MaxPkt space" for every byte can come to         *)
(* different answers within the packet.  Once such a packet has occurred   *)
(* in a trace, failing clauses carry the suffix "@kf_per_byte_space".      *)
(***************************************************************************)
EXTENDS IsoOut, CRC, TLC, TLCExt, Json, IOUtils

Logs == JsonDeserialize(IOEnv.TRACE_FILE)
TrConfigs == {Logs[i].cfg : i \in 1..Len(Logs)}

VARIABLES tid, l, status, kf
tvars == <<vars, tid, l, status, kf>>

ASSUME \A i \in 1..Len(Logs) : TLCSet(i, <<0, "ok">>)

Steps == Logs[tid].steps
Rec == Steps[l]

CrcGood(r) == Len(r.crc) = 2 /\ r.crc[1] + 256 * r.crc[2] = Usb2Crc16(r.payload)

\* CRC validity of every data packet of every trace.  A constant-level definition: TLC evaluates it once, at
\* start-up (the bit-serial CRC is expensive to interpret, and an action refers to `good` many times).
GoodTable == [i \in 1..Len(Logs) |->
                [k \in 1..Len(Logs[i].steps) |->
                    IF Logs[i].steps[k].e = "data" THEN CrcGood(Logs[i].steps[k]) ELSE FALSE]]

\* All bytes of the packet see "space >= MaxPkt" (first disjunct) or none does (second disjunct);
\* anything else can be answered differently for different bytes of the packet.
KfPerByteSpace(payload) ==
    /\ armed /\ payload # <<>>
    /\ ~(spaceTok >= MaxPkt + Len(payload) - 1)
    /\ ~(Space < MaxPkt)

Tag(f) == IF f = "ok" \/ ~kf THEN f ELSE f \o "@kf_per_byte_space"

FailingRead(r) ==
    IF q = <<>> THEN "read_nothing_deliverable"
    ELSE IF r.d # q[1].d THEN "read_data"
    ELSE IF r.f # q[1].f THEN "read_first"
    ELSE IF r.l # q[1].l THEN "read_last"
    ELSE "ok"

TInit == /\ tid \in 1..Len(Logs)
         /\ conf = Logs[tid].cfg
         /\ InitState
         /\ l = 1
         /\ status = "ok"
         /\ kf = FALSE

StepTok(r) == /\ status' = (IF r.pid \in TokenPids THEN "ok" ELSE "env_token")
              /\ Token(r.pid, r.addr, r.ep)
              /\ UNCHANGED kf

StepData(r) ==
    LET good == GoodTable[tid][l] IN
    IF Len(r.payload) > MaxPkt \/ phase # "tok" \/ r.pid \notin DataPids
    THEN /\ status' = "env_illegal_data_packet" /\ UNCHANGED <<vars, kf>>
    ELSE /\ status' = "ok"
         /\ kf' = (kf \/ (good /\ KfPerByteSpace(r.payload)))
         /\ \E deliver \in BOOLEAN : Data(r.pid, r.payload, good, deliver)

StepRead(r) == LET f == FailingRead(r) IN
    /\ status' = Tag(f)
    /\ IF f = "ok" THEN Read ELSE UNCHANGED vars
    /\ UNCHANGED kf

StepEnd == /\ status' = Tag(IF q = <<>> THEN "ok" ELSE "end_delivered_data_never_appeared")
           /\ UNCHANGED <<vars, kf>>

TNext == /\ status = "ok"
         /\ l <= Len(Steps)
         /\ LET r == Rec IN
              CASE r.e = "tok"  -> StepTok(r)
                [] r.e = "data" -> StepData(r)
                [] r.e = "rd"   -> StepRead(r)
                [] r.e = "end"  -> StepEnd
         /\ l' = l + 1
         /\ UNCHANGED tid

TSpec == TInit /\ [][TNext]_tvars

\* Prop invariants on the observed states.  The ghost logs only grow, so the theorems that quantify over
\* the whole history are evaluated in full on the last state of a trace and incrementally (newest packet /
\* newest entry) on every state.
AtEnd == l > Len(Steps)
NewestPacketWhole ==
    delivered # <<>> =>
        LET p == Marked(offeredLog[delivered[Len(delivered)]])
            s == Stream
        IN  /\ delivered[Len(delivered)] \in goodIdx
            /\ Len(s) >= Len(p)
            /\ (Len(q) >= Len(p) => SubSeq(s, Len(s) - Len(p) + 1, Len(s)) = p)
TraceProp == /\ TypeOK /\ LastEndsStream /\ NewestPacketWhole
             /\ (AtEnd => (WholePackets /\ OnlyGoodInOrder /\ Framing))

\* The deliver/drop choice branches: keep the furthest branch; at equal length "ok" wins.
\* After a failure (clause or Prop invariant) the constraint is FALSE: that branch is not followed further.
Verdict == IF status # "ok" THEN status ELSE IF TraceProp THEN "ok" ELSE Tag("prop_invariant")
Progress ==
    LET cur == <<l - 1, Verdict>>
        old == TLCGet(tid)
    IN /\ TLCSet(tid, IF cur[1] > old[1] \/ (cur[1] = old[1] /\ cur[2] = "ok") THEN cur ELSE old)
       /\ Verdict = "ok"

Verdicts == JsonSerialize(IOEnv.VERDICT_FILE, [i \in 1..Len(Logs) |-> TLCGet(i)])
=============================================================================
