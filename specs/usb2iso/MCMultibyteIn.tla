---------------------------- MODULE MCMultibyteIn ----------------------------
(* Bounded instance of MultibyteIn for exhaustive TLC exploration. *)
EXTENDS MultibyteIn, TLC

CONSTANTS ByteWidths,   \* byte widths explored
          Los, His,     \* low / high 16-bit limbs of the payloads explored
          MaxWords

MCConfigs == {[byteWidth |-> b] : b \in ByteWidths}

WordSet == {[lo |-> a, hi |-> b, f |-> f, l |-> ll] : a \in Los, b \in His, f \in BOOLEAN, ll \in BOOLEAN}
NoByte  == [d |-> 0, f |-> FALSE, l |-> FALSE]

NoWord  == [lo |-> 0, hi |-> 0, f |-> FALSE, l |-> FALSE]
\* the word lines only matter while valid is asserted
Offers  == {<<FALSE, NoWord>>} \cup {<<TRUE, w>> : w \in WordSet}

\* every input combination, and every output the Ref relation allows
MCIdle   == \E o \in Offers, br \in BOOLEAN, wr \in BOOLEAN :
                ~(o[1] /\ wr) /\ Cycle(o[1], o[2], br, wr, FALSE, NoByte)
MCTake   == \E o \in Offers, wr \in BOOLEAN :
                pend # <<>> /\ ~(o[1] /\ wr) /\ Cycle(o[1], o[2], TRUE, wr, TRUE, pend[1])
MCStall  == \E o \in Offers, wr \in BOOLEAN :
                pend # <<>> /\ ~(o[1] /\ wr) /\ Cycle(o[1], o[2], FALSE, wr, TRUE, pend[1])
MCAccept == \E w \in WordSet, br \in BOOLEAN :
                pend = <<>> /\ Cycle(TRUE, w, br, TRUE, FALSE, NoByte)
MCTakeAndAccept == \E w \in WordSet :
                pend # <<>> /\ Cycle(TRUE, w, TRUE, TRUE, TRUE, pend[1])
MCNext == MCIdle \/ MCTake \/ MCStall \/ MCAccept \/ MCTakeAndAccept
MCSpec == Init /\ [][MCNext]_vars

Bounded == Len(words) <= MaxWords
=============================================================================
