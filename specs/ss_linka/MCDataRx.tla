------------------------------ MODULE MCDataRx ------------------------------
(* Bounded instance of DataRx: every placement of not-valid words, every     *)
(* combination of CRC corruptions, lengths 0..MaxLen, following traffic.     *)
EXTENDS DataRx, TLC

CONSTANTS MaxLen, MaxPackets, MaxGaps

VARIABLES p,       \* Ref state
          in,      \* the record of the cycle that led here
          cur,     \* Env: the packet being sent: <<>> or <<[len, c5, c16, c32, k]>> (k = words already sent)
          sentlog, \* ghost: packets completely sent, [len, c5, c16, c32]
          reports, \* ghost: verdicts reported so far
          gaps     \* Env: not-valid words inserted so far
vars == <<p, in, cur, sentlog, reports, gaps>>

Payload(n) == [i \in 1..n |-> (53 * i + 7 * n + 1) % 256]
Hdr(n) == <<8, 0, 0, 6, 3, 5, n, 0, 0, 0, 0, 0>>
PktTab == [n \in 0..MaxLen |-> [c5 \in Bool |-> [c16 \in Bool |-> [c32 \in Bool |->
              DataPacketWords(Hdr(n), 2, Payload(n), c5, c16, c32)]]]]
WordsOf(c) == PktTab[c.len][c.c5][c.c16][c.c32]
IdleWord == W(<<0, 0, 0, 0>>, 0)
\* a header packet that is not a data header, as other traffic (CRCs irrelevant to this receiver)
OtherHdr == <<HPSTART, W(<<4, 0, 0, 6>>, 0), IdleWord, IdleWord, W(<<1, 2, 3, 4>>, 0)>>

\* tables for the cfg overrides HdrCrc16 <- McCrc16, Crc32Of <- McCrc32 (built from the bit-serial definitions)
Crc16Tab == [n \in 0..MaxLen |-> Usb3Crc16(Hdr(n))]
Crc32Tab == [n \in 0..MaxLen |-> Usb3Crc32Bytes(Payload(n))]
McCrc16(dw) == IF dw[7] <= MaxLen /\ dw = Hdr(dw[7]) THEN Crc16Tab[dw[7]] ELSE Usb3Crc16(dw)
McCrc32(pl) == IF Len(pl) <= MaxLen /\ pl = Payload(Len(pl)) THEN Crc32Tab[Len(pl)] ELSE Usb3Crc32Bytes(pl)
ASSUME Crc5TableOk
ASSUME Crc32StreamOk

NoRec == [iw |-> NoWord, good |-> FALSE, bad |-> FALSE, sv |-> 0, sd |-> <<0, 0, 0, 0>>, rst |-> FALSE]
Init == p = RxInit /\ in = NoRec /\ cur = <<>> /\ sentlog = <<>> /\ reports = <<>> /\ gaps = 0

\* outputs a conforming receiver may show: payload bytes passed through in the cycle of their word,
\* the owed report now or later
Cycle(w) ==
    \E p0 \in {RxConsume(p, w)} : \E p1 \in {RxResolve(p0)} :
    LET pay == w.v /\ p.ph = "payload" /\ Len(p.got) < p.len
        m   == IF pay THEN LenMask(Min(4, p.len - Len(p.got))) ELSE 0
    IN \E rep \in (IF p1.owe # <<>> THEN Bool ELSE {FALSE}) \cup (IF p1.optbad THEN {TRUE} ELSE {}) :
         LET v == IF p1.owe # <<>> THEN p1.owe[1].v ELSE "bad"
             r == [iw |-> w, good |-> rep /\ v = "good", bad |-> rep /\ v = "bad", sv |-> m, sd |-> w.d, rst |-> FALSE]
         IN \E j \in {JudgeE(p, p1, r)} :
            /\ j.f = "ok"
            /\ p' = j.n
            /\ in' = r
            /\ reports' = IF rep /\ p1.owe # <<>> THEN Append(reports, v) ELSE reports

Gap == /\ gaps < MaxGaps
       /\ \E d \in {<<0, 0, 0, 0>>, <<SHP, SHP, SHP, EPF>>} : Cycle([d |-> d, c |-> IF d[1] = 0 THEN 0 ELSE 15, v |-> FALSE])
       /\ gaps' = gaps + 1 /\ UNCHANGED <<cur, sentlog>>
StartPacket ==
       /\ cur = <<>> /\ Len(sentlog) < MaxPackets
       /\ \E n \in 0..MaxLen, a \in Bool, b \in Bool, c \in Bool :
            LET c0 == [len |-> n, c5 |-> a, c16 |-> b, c32 |-> c, k |-> 1] IN
            /\ Cycle(WordsOf(c0)[1])
            /\ cur' = <<c0>>
       /\ UNCHANGED <<sentlog, gaps>>
NextWord ==
       /\ cur # <<>>
       /\ LET c == cur[1]  ws == WordsOf(c) IN
            /\ Cycle(ws[c.k + 1])
            /\ IF c.k + 1 = Len(ws)
               THEN cur' = <<>> /\ sentlog' = Append(sentlog, [len |-> c.len, c5 |-> c.c5, c16 |-> c.c16, c32 |-> c.c32])
               ELSE cur' = <<[c EXCEPT !.k = c.k + 1]>> /\ UNCHANGED sentlog
       /\ UNCHANGED gaps
Between ==
       /\ cur = <<>>
       /\ Cycle(IdleWord)
       /\ UNCHANGED <<cur, sentlog, gaps>>

Next == Gap \/ StartPacket \/ NextWord \/ Between
Spec == Init /\ [][Next]_vars

-----------------------------------------------------------------------------
(* Prop *)
HdrGood(e) == e.c5 /\ e.c16
\* packets whose verdict is due: completely sent ones, plus the one in progress once its CRC-32 is through
DueLog == [i \in 1..Len(SelectSeq(sentlog, HdrGood)) |->
              LET e == SelectSeq(sentlog, HdrGood)[i] IN IF e.c32 THEN "good" ELSE "bad"]
InProgressDue == IF cur # <<>> /\ HdrGood(cur[1]) /\ p.ph = "idle" /\ cur[1].k >= 6 + ((cur[1].len + 4 + 3) \div 4)
                 THEN <<IF cur[1].c32 THEN "good" ELSE "bad">> ELSE <<>>
OwedSeq == IF p.owe = <<>> THEN <<>> ELSE <<p.owe[1].v>>
\* C40: exactly one report per data packet with a good header, in order, "good" iff the CRC-32 (and the
\* header CRCs) are right -- whatever not-valid words were inserted and whatever follows
ExactlyOnce == reports \o OwedSeq = DueLog \o InProgressDue
TypeOK == p.ph \in {"idle", "dw", "hdrgood", "payload"} /\ Len(p.got) <= MaxLen + 4
=============================================================================
