-------------------------- MODULE OutBoundaryTrace --------------------------
(***************************************************************************)
(* Trace validation for OutBoundary.  Per-cycle records                     *)
(*   [rst                          -- the clock domain's reset in this cycle  *)
(*    iv, inx, ip, ic, ix          -- unprocessed_stream.valid/next/payload, *)
(*                                    complete_in, invalid_in               *)
(*    ov, onx, op, of, ol, oc, ox] -- processed_stream.valid/next/payload,   *)
(*                                    first, last, complete_out, invalid_out *)
(* sampled in the same cycle, before the clock edge.                        *)
(***************************************************************************)
EXTENDS OutBoundary, TLC, TLCExt, Json, IOUtils

Logs == JsonDeserialize(IOEnv.TRACE_FILE)

VARIABLES tid, l, status
tvars == <<vars, tid, l, status>>

ASSUME \A i \in 1..Len(Logs) : TLCSet(i, <<0, "ok">>)

InOf(r)  == [v |-> r.iv, n |-> r.inx, p |-> r.ip, c |-> r.ic, x |-> r.ix]
OutOf(r) == [v |-> r.ov, n |-> r.onx, p |-> r.op, f |-> r.of, l |-> r.ol, c |-> r.oc, x |-> r.ox]

TInit == Init /\ tid \in 1..Len(Logs) /\ l = 1 /\ status = "ok"

TNext == /\ status = "ok"
         /\ l <= Len(Logs[tid])
         /\ LET r == Logs[tid][l]
                i == InOf(r)
                o == OutOf(r)
                f == IF r.rst /\ ~ResetLegal(i) THEN "env_illegal_input" ELSE Failing(i, o)
            IN /\ status' = f
               /\ IF f # "ok" THEN UNCHANGED vars ELSE IF r.rst THEN ResetStep(i, o) ELSE Step(i, o)
         /\ l' = l + 1
         /\ UNCHANGED tid

TSpec == TInit /\ [][TNext]_tvars

TraceProp == /\ TypeOK /\ SameBytesInOrder /\ FirstOnFirst /\ LastOnLast /\ AllOutWhenClosed
             /\ StrobeAfterLast /\ StrobeReflects

\* (the constraint is FALSE after a failure, so the trace is not followed further and the verdict stays)
Verdict == IF status # "ok" THEN status ELSE IF TraceProp THEN "ok" ELSE "prop_invariant"
Progress == TLCSet(tid, <<l - 1, Verdict>>) /\ Verdict = "ok"

Verdicts == JsonSerialize(IOEnv.VERDICT_FILE, [i \in 1..Len(Logs) |-> TLCGet(i)])
=============================================================================
