------------------------------ MODULE CtcRxTrace ------------------------------
(***************************************************************************)
(* Trace validation for C32: per-cycle records from the real CTCSkipRemover *)
(*   [v, w     -- sink.valid, the four input symbols                        *)
(*    ov, ow]  -- source.valid and the four output symbols, sampled before  *)
(*                the clock edge of the same cycle                          *)
(*    rst]     -- the `ss` domain reset is asserted in this cycle (the     *)
(*                harness offers no input word then): what is delivered in  *)
(*                this cycle is still checked; afterwards nothing that was  *)
(*                buffered may ever be delivered (a new stream begins).     *)
(***************************************************************************)
EXTENDS CtcRx, TLC, TLCExt, Json, IOUtils

Logs == JsonDeserialize(IOEnv.TRACE_FILE)

VARIABLES tid, l, status, pend
tvars == <<tid, l, status, pend>>

ASSUME \A i \in 1..Len(Logs) : TLCSet(i, <<0, "ok">>)

Word(x) == <<x[1], x[2], x[3], x[4]>>
InOf(r)  == [valid |-> r.v, w |-> Word(r.w)]
OutOf(r) == [valid |-> r.ov, w |-> Word(r.ow)]

Failing(r) ==
    LET a == Avail(pend, InOf(r)) IN
    IF r.ov /\ Len(a) < 4 THEN "output_without_four_symbols"
    ELSE IF r.ov /\ Word(r.ow) # SubSeq(a, 1, 4) THEN
            (IF \E k \in 1..4 : r.ow[k] = SKP THEN "skp_delivered" ELSE "output_word_mismatch")
    ELSE IF Len(PendNext(pend, InOf(r), OutOf(r))) > Cap THEN "symbols_withheld_beyond_bound"
    ELSE "ok"

TInit == /\ tid \in 1..Len(Logs) /\ l = 1 /\ status = "ok" /\ pend = <<>>

TNext == /\ status = "ok"
         /\ l <= Len(Logs[tid])
         /\ LET r == Logs[tid][l] IN
              /\ status' = Failing(r)
              /\ pend' = IF r.rst THEN <<>> ELSE PendNext(pend, InOf(r), OutOf(r))
         /\ l' = l + 1
         /\ UNCHANGED tid

TSpec == TInit /\ [][TNext]_tvars
\* Prop on every observed state: no SKP is ever held for delivery, buffering stays bounded
TraceProp == /\ \A k \in 1..Len(pend) : pend[k] # SKP
             /\ (status = "ok") => Len(pend) <= Cap
\* a clause failure keeps its name; an invariant failure stops the trace there (it is not followed further)
Verdict == IF status # "ok" THEN status ELSE IF TraceProp THEN "ok" ELSE "prop_invariant"
Progress == TLCSet(tid, <<l - 1, Verdict>>) /\ Verdict = "ok"
Verdicts == JsonSerialize(IOEnv.VERDICT_FILE, [i \in 1..Len(Logs) |-> TLCGet(i)])
=============================================================================
