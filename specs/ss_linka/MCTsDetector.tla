---------------------------- MODULE MCTsDetector ----------------------------
(* Bounded instance of TrainingSets (detector side).  The Env builds the      *)
(* stream from whole sets of several kinds, in any order -- matching sets,    *)
(* sets of another kind that share the first word, near-miss sets differing   *)
(* in one later word, foreign sets -- with idle gaps anywhere (between and    *)
(* inside sets) and a budget of stray, not set-aligned foreign words.         *)
EXTENDS TrainingSets, TLC, FiniteSets

CONSTANTS MaxSets,      \* sets per behaviour
          MaxGaps, MaxStray

VARIABLES s, in,
          cur,      \* Env: the set being sent, <<>> or <<[kind, cfg, k]>> (k words already sent)
          hist,     \* ghost: all valid words so far
          dets,     \* ghost: detections reported
          nsets, ng, nstray
vars == <<s, in, cur, hist, dets, nsets, ng, nstray>>

NoCfg == [hr |-> FALSE, lb |-> FALSE, ns |-> FALSE]
Rec(w, det, cf) == [start |-> FALSE, rdy |-> TRUE, hr |-> FALSE, lb |-> FALSE, ns |-> FALSE, ow |-> NoWord, done |-> FALSE, rst |-> FALSE,
                    iw |-> w, det |-> det, dhr |-> cf.hr, dlb |-> cf.lb, dsd |-> cf.ns]
Init == /\ s = SInit /\ in = Rec(NoWord, FALSE, NoCfg) /\ cur = <<>> /\ hist = <<>> /\ dets = 0
        /\ nsets = 0 /\ ng = 0 /\ nstray = 0

Cfgs == IF HasCfg THEN {0, 9} ELSE {0}
ForeignW == W(<<1, 2, 3, 4>>, 0)
\* word k of a set of the given kind: "m" matching; "o" another kind of set sharing the first word (all
\* later words differ); "n" near-miss: only word SetLen differs; "x" a set sharing nothing (first word: right
\* symbols, wrong K flags); "z": only the K flags of the first word are wrong (FirstCtrl 1 -> all four K)
KindWord(kind, c, k) ==
    LET good == IF HasCfg /\ k = 2 THEN W(<<SetWords[2][1], c, SetWords[2][3], SetWords[2][4]>>, 0)
                ELSE W(SetWords[k], CtrlOf(k))
        off  == W(<<good.d[1], good.d[2], good.d[3], (good.d[4] + 16) % 256>>, 0)
    IN CASE kind = "m" -> good
         [] kind = "o" -> IF k = 1 THEN good ELSE off
         [] kind = "n" -> IF k = SetLen THEN off ELSE good
         [] kind = "x" -> IF k = 1 THEN W(SetWords[1], (FirstCtrl + 14) % 16) ELSE off
         [] kind = "z" -> IF k = 1 THEN W(SetWords[1], (FirstCtrl + 14) % 16) ELSE good   \* only the K flags of word 1 wrong
Kinds == {"m", "o", "n", "x", "z"}

Cycle(w) ==
    \E det \in (IF s.d.owe # <<>> THEN {TRUE, FALSE} ELSE {FALSE}) :
      LET cf == IF det /\ HasCfg THEN CHOOSE c \in s.d.owe[1].cfgs : TRUE ELSE NoCfg
          r  == Rec(w, det, cf)
          j  == Judge(s, r)
      IN /\ j.f = "ok"
         /\ s' = j.n
         /\ in' = r
         /\ dets' = IF det THEN dets + 1 ELSE dets
         /\ hist' = IF w.v THEN Append(hist, w) ELSE hist

Gap == /\ ng < MaxGaps
       /\ Cycle([d |-> SetWords[1], c |-> FirstCtrl, v |-> FALSE])
       /\ ng' = ng + 1 /\ UNCHANGED <<cur, nsets, nstray>>
Stray == /\ nstray < MaxStray
         /\ Cycle(ForeignW)
         /\ nstray' = nstray + 1 /\ UNCHANGED <<cur, nsets, ng>>
BeginSet == /\ nsets < MaxSets              \* (a set in progress may be abandoned: fragments)
            /\ \E kind \in Kinds, c \in Cfgs :
                 /\ Cycle(KindWord(kind, c, 1))
                 /\ cur' = IF SetLen = 1 THEN <<>> ELSE <<[kind |-> kind, cfg |-> c, k |-> 1]>>
            /\ nsets' = nsets + 1 /\ UNCHANGED <<ng, nstray>>
NextOfSet == /\ cur # <<>>
             /\ Cycle(KindWord(cur[1].kind, cur[1].cfg, cur[1].k + 1))
             /\ cur' = IF cur[1].k + 1 = SetLen THEN <<>> ELSE <<[cur[1] EXCEPT !.k = cur[1].k + 1]>>
             /\ UNCHANGED <<nsets, ng, nstray>>
Next == Gap \/ Stray \/ BeginSet \/ NextOfSet
Spec == Init /\ [][Next]_vars

-----------------------------------------------------------------------------
(* Prop, stated backwards over the history of valid words, without the Ref's counters:             *)
(* BackRun(p) = number of complete well-formed sets that end, back to back, at valid word p.       *)
Block(p) == p >= SetLen /\ \A k \in 1..SetLen : IsSetWord(hist[p - SetLen + k], k)
RECURSIVE BackRun(_)
BackRun(p) == IF Block(p) THEN 1 + BackRun(p - SetLen) ELSE 0
Due == Cardinality({p \in 1..Len(hist) : BackRun(p) > 0 /\ BackRun(p) % DetN = 0})
\* C43: one detection for every DetN complete consecutive sets, never anything else
OncePerBurst == dets + Len(s.d.owe) = Due
TypeOK == s.d.k \in 0..(SetLen - 1) /\ s.d.cnt \in 0..(DetN - 1)
=============================================================================
