------------------------------ MODULE SignalIn ------------------------------
(***************************************************************************)
(* Reference specification of a status ("signal") IN endpoint              *)
(* (property C17; luna USBSignalInEndpoint), written from the property     *)
(* statement, the module doc-string and [USB2.0 8.6] (data toggle          *)
(* synchronisation and retry).                                             *)
(*                                                                         *)
(* Grain: one step = one bus-level event or one change of the signal.      *)
(*   Env  : the monitored signal changes (SetSignal); the host polls the   *)
(*          endpoint with an IN token and acknowledges the answer or not   *)
(*          (Poll; `win` = the values the signal had while the request     *)
(*          arrived - more than one if it changed just then); other bus    *)
(*          traffic that is none of the endpoint's business (Other, Sof).  *)
(*   Ref  : toggle, and `pending` = the value sent and not acknowledged.   *)
(*          A fresh poll latches a value of `win`; a retry repeats value   *)
(*          and toggle; the toggle advances exactly on ACK.                *)
(*   Prop : the host-side theorem - a host that checks toggles accepts     *)
(*          every latched value exactly once, in order, even when its ACKs *)
(*          get lost - plus action properties on toggle and latch.         *)
(***************************************************************************)
EXTENDS Naturals, Sequences, FiniteSets

CONSTANTS Configs      \* the endpoint configurations discussed: records [width, bigEndian, epNum, devAddr,
                       \* signalDomain, syncCycles]; signalDomain = clock domain of the monitored signal ("usb" or
                       \* another one); syncCycles = how many cycles before the request a value may still be the
                       \* one reported (0 in the "usb" domain; the synchroniser latency otherwise) - it only
                       \* determines how far back the window `win` of a poll reaches

VARIABLES conf,        \* elaboration-time parameters of the endpoint (chosen at Init, never changes)
          sig,         \* Env: current value of the monitored signal
          toggle,      \* data toggle of the next fresh packet (0 / 1)
          pending,     \* <<v>>: value sent but not yet acknowledged; <<>>: none
          ev,          \* the event that led to this state
          latchedLog,  \* ghost: every value latched by a fresh poll, in order
          hostToggle,  \* ghost: toggle the host expects
          hostLog      \* ghost: values accepted by the host (toggle matched), in order

vars == <<conf, sig, toggle, pending, ev, latchedLog, hostToggle, hostLog>>

Width     == conf.width                  \* width of the signal in bits
BigEndian == conf.bigEndian              \* TRUE: most significant byte first
EpNum     == conf.epNum
DevAddr   == conf.devAddr

NBytes == (Width + 7) \div 8
NLimbs == (Width + 15) \div 16

\* A value of the signal is a sequence of NLimbs 16-bit limbs, least significant limb first (TLC integers are
\* 32-bit; signals may be wider).  Byte k (k = 0: least significant) of a value:
ByteOf(v, k) == (v[(k \div 2) + 1] \div (IF k % 2 = 0 THEN 1 ELSE 256)) % 256
ZeroValue == [i \in 1..NLimbs |-> 0]
IsValue(v) == /\ Len(v) = NLimbs
              /\ \A i \in 1..NLimbs : v[i] \in 0..65535
              /\ v[NLimbs] < 2 ^ (Width - 16 * (NLimbs - 1))

\* the value as it goes onto the wire
Wire(v) == [i \in 1..NBytes |-> IF BigEndian THEN ByteOf(v, NBytes - i) ELSE ByteOf(v, i - 1)]

PidOf(t) == IF t = 0 THEN "DATA0" ELSE "DATA1"
DataResp(pid, payload) == [kind |-> "data", pid |-> pid, payload |-> payload]
NoResp == [kind |-> "none"]

-----------------------------------------------------------------------------
InitState == /\ sig = ZeroValue /\ toggle = 0 /\ pending = <<>>
             /\ ev = [e |-> "init"]
             /\ latchedLog = <<>> /\ hostToggle = 0 /\ hostLog = <<>>
Init == conf \in Configs /\ InitState

SetSignal(v) == /\ sig' = v
                /\ ev' = [e |-> "sig", v |-> v]
                /\ UNCHANGED <<conf, toggle, pending, latchedLog, hostToggle, hostLog>>

TokenPids == {"IN", "OUT", "SETUP", "PING"}
ForUs(tpid, addr, ep) == tpid = "IN" /\ addr = DevAddr /\ ep = EpNum

(* IN token for the endpoint.  val = the value reported; ack = the host then sent an ACK;        *)
(* got = the host received the packet intact (ack => got; got /\ ~ack = the ACK was lost).       *)
Poll(win, val, ack, got) ==
    /\ IF pending = <<>> THEN val \in win ELSE val = pending[1]
    /\ ack => got
    /\ toggle' = IF ack THEN 1 - toggle ELSE toggle
    /\ pending' = IF ack THEN <<>> ELSE <<val>>
    /\ latchedLog' = IF pending = <<>> THEN Append(latchedLog, val) ELSE latchedLog
    /\ hostToggle' = IF got /\ hostToggle = toggle THEN 1 - hostToggle ELSE hostToggle
    /\ hostLog' = IF got /\ hostToggle = toggle THEN Append(hostLog, val) ELSE hostLog
    /\ ev' = [e |-> "tok", pid |-> "IN", addr |-> DevAddr, ep |-> EpNum, win |-> win, ack |-> ack, got |-> got,
              resp |-> DataResp(PidOf(toggle), Wire(val))]
    /\ UNCHANGED conf

(* Bus traffic that does not concern the endpoint: a token that is not an IN token for it - for   *)
(* another endpoint of the same device, for another device address, OUT/SETUP to this endpoint    *)
(* number - possibly a complete transaction: an IN transaction answered by that other endpoint    *)
(* or device and closed by the host ACK meant for *that* answer (ack = TRUE), or an OUT/SETUP     *)
(* token followed by the host's data packet (hd = TRUE); or a SOF.  This endpoint stays silent    *)
(* and nothing changes - in particular an answer of ours that is still unacknowledged stays so.   *)
Other(tpid, addr, ep, ack, hd) ==
    /\ ~ForUs(tpid, addr, ep)
    /\ ack => tpid = "IN"
    /\ hd => tpid \in {"OUT", "SETUP"}
    /\ ev' = [e |-> "tok", pid |-> tpid, addr |-> addr, ep |-> ep, ack |-> ack, hd |-> hd, resp |-> NoResp]
    /\ UNCHANGED <<conf, sig, toggle, pending, latchedLog, hostToggle, hostLog>>

SofEvent == /\ ev' = [e |-> "sof"]
            /\ UNCHANGED <<conf, sig, toggle, pending, latchedLog, hostToggle, hostLog>>

-----------------------------------------------------------------------------
(* Prop *)
TypeOK == toggle \in {0, 1} /\ Len(pending) <= 1 /\ hostToggle \in {0, 1}

IsPrefix(s, t) == Len(s) <= Len(t) /\ SubSeq(t, 1, Len(s)) = s

\* The host accepts exactly the latched values, each once, in order; at most the newest is outstanding.
HostSeesLatchedValuesOnce == /\ IsPrefix(hostLog, latchedLog)
                             /\ Len(latchedLog) - Len(hostLog) <= 1
                             /\ (pending = <<>> => hostLog = latchedLog)

\* Host and endpoint toggles differ exactly while an ACK is outstanding for a packet the host has.
ToggleSync == (hostToggle # toggle) => (pending # <<>> /\ Len(hostLog) = Len(latchedLog))

IsPoll(e) == e.e = "tok" /\ ForUs(e.pid, e.addr, e.ep)

ToggleOnlyOnAck == [][toggle' # toggle <=> (IsPoll(ev') /\ ev'.ack)]_vars

RetryRepeats == [][(IsPoll(ev') /\ pending # <<>>) =>
                      ev'.resp = DataResp(PidOf(toggle), Wire(pending[1]))]_vars

LatchOnlyWhenFresh == [][latchedLog' # latchedLog => (IsPoll(ev') /\ pending = <<>>)]_vars

ConfigNeverChanges == [][conf' = conf]_vars
=============================================================================
