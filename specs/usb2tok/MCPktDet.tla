------------------------------ MODULE MCPktDet ------------------------------
(***************************************************************************)
(* Bounded instance of PktDet.  The host sends up to MaxPackets packets;   *)
(* each is planned as a byte sequence from a small alphabet (chosen so     *)
(* that every branch of Expect is reachable: valid / invalid check nibble, *)
(* token / SOF / non-token PID, own / foreign address, correct (computed)  *)
(* / corrupted CRC5, one byte too many) and then presented cycle by cycle  *)
(* with optional one-cycle rx_valid gaps, and may be cut short at any      *)
(* point.  In every cycle the detector's output is any output Ref allows.  *)
(***************************************************************************)
EXTENDS PktDet, TLC

CONSTANTS PidBytes,     \* first bytes of the planned packets
          Payloads,     \* token mode: 11-bit values (address + 128 * endpoint, or frame number)
          Addrs,        \* device addresses
          MaxPackets,   \* packets per behaviour
          MaxExtra,     \* planned packets are up to MaxExtra bytes longer than a well-formed one
          MaxResets     \* domain resets per behaviour (asserted in any cycle)

VARIABLES plan,         \* bytes the host intends to send in the current packet
          gapped,       \* the previous cycle was an rx_valid gap
          npk,          \* packets started so far
          nrst          \* resets so far

mcvars == <<vars, plan, gapped, npk, nrst>>

\* token payload bytes with the correct CRC5 (computed by the bit-serial definition) or one bit of it flipped
Word(v11, good) == LET c == Usb2Crc5(v11) IN v11 + 2048 * (IF good THEN c ELSE (IF c % 2 = 1 THEN c - 1 ELSE c + 1))
Tails == IF Mode = "token"
         THEN {<<Word(v, g) % 256, Word(v, g) \div 256>> : v \in Payloads, g \in BOOLEAN}
         ELSE {<<>>}
Extras == {[j \in 1..n |-> 0] : n \in 0..MaxExtra}
Plans == {<<b>> \o t \o x : b \in PidBytes, t \in Tails, x \in Extras}

\* memoised CRC5 check for the words the model can send (same values as the definition, see ASSUME)
ModelWords == {t[1] + 256 * t[2] : t \in (Tails \ {<<>>})} \cup {0}
CrcOkTable == [w \in ModelWords |-> Usb2TokenOk(w % 256, w \div 256)]
McTokenCrcOk(b1, b2) == CrcOkTable[b1 + 256 * b2]
ASSUME \A w \in ModelWords : McTokenCrcOk(w % 256, w \div 256) = Usb2TokenOk(w % 256, w \div 256)

\* (while blind the detector may output anything: the model lets it report a token or a frame at will)
Outputs(i, p1) == {o \in {[ev |-> e, frame |-> f, sel |-> s] :
                         e \in {<<>>, <<p1>>} \cup (IF blind > 0 THEN {<<Token(PID_OUT, i.addr, 0)>>, <<Sof(5)>>} ELSE {}),
                         f \in ({frame, p1.x} \cup (IF blind > 0 THEN {5} ELSE {}) \cup (IF frame = FrameUnknown THEN {0} ELSE {})) \ {FrameUnknown},
                         s \in {<<FALSE, FALSE, FALSE, FALSE>>,
                                <<p1.x = PID_IN, p1.x = PID_OUT, p1.x = PID_SETUP, p1.x = PID_PING>>}} :
                 OutViolationP(i, o, p1) = "ok"}

Cycle(i) == /\ EnvViolation(i) = "ok"
            /\ LET p1 == Pend1(i) IN \E o \in Outputs(i, p1) : StepP(i, o, p1)

In(a, v, d) == [a |-> a, v |-> v, d |-> d, addr |-> in.addr, rst |-> FALSE]

Rise  == /\ ~act /\ npk < MaxPackets
         /\ \E p \in Plans : plan' = p
         /\ Cycle(In(TRUE, FALSE, 0))
         /\ gapped' = FALSE /\ npk' = npk + 1 /\ UNCHANGED nrst
Byte  == /\ act /\ Len(pkt) < Len(plan)
         /\ Cycle(In(TRUE, TRUE, plan[Len(pkt) + 1]))
         /\ gapped' = FALSE /\ UNCHANGED <<plan, npk, nrst>>
Gap   == /\ act /\ ~gapped /\ Len(pkt) < Len(plan)
         /\ Cycle(In(TRUE, FALSE, 225))                          \* rx_data is a don't-care (here: an OUT PID) in a gap
         /\ gapped' = TRUE /\ UNCHANGED <<plan, npk, nrst>>
End   == /\ act                                                  \* complete, or cut short
         /\ Cycle(In(FALSE, FALSE, 0))
         /\ gapped' = FALSE /\ UNCHANGED <<plan, npk, nrst>>
Quiet == /\ ~act /\ (quiet < QuietSat \/ pend # NoEvent)         \* (further idle cycles change nothing)
         /\ Cycle(In(FALSE, FALSE, 0))
         /\ UNCHANGED <<plan, gapped, npk, nrst>>
Readdress == /\ ~act /\ npk < MaxPackets
             /\ \E a \in Addrs \ {in.addr} : Cycle([a |-> FALSE, v |-> FALSE, d |-> 0, addr |-> a, rst |-> FALSE])
             /\ UNCHANGED <<plan, gapped, npk, nrst>>

\* a domain reset in any cycle: while idle, in the report window, or in the middle of a packet (the host carries on
\* with its packet: next byte / gap / end as planned)
Reset == /\ nrst < MaxResets
         /\ \E i \in {[In(act, FALSE, 0) EXCEPT !.rst = TRUE],
                       [In(FALSE, FALSE, 0) EXCEPT !.rst = TRUE]} \cup
                      (IF act /\ Len(pkt) < Len(plan) THEN {[In(TRUE, TRUE, plan[Len(pkt) + 1]) EXCEPT !.rst = TRUE]} ELSE {}) :
                Cycle(i)
         /\ gapped' = FALSE /\ nrst' = nrst + 1 /\ UNCHANGED <<plan, npk>>

MCInit == Init /\ plan = <<>> /\ gapped = FALSE /\ npk = 0 /\ nrst = 0
Next == Rise \/ Byte \/ Gap \/ End \/ Quiet \/ Readdress \/ Reset
Spec == MCInit /\ [][Next]_mcvars

-----------------------------------------------------------------------------
(* Static theorems about Expect on the model's packets (evaluated once) *)
ModelPayloads == IF Mode = "token" THEN Payloads ELSE {}

\* a well-formed token for address a / a SOF decodes to exactly its fields
ASSUME \A v \in ModelPayloads : \A p \in TokenPids :
          LET w == Word(v, TRUE) IN
          ExpectToken(<<PidByte(p), w % 256, w \div 256>>, v % 128) = Token(p, v % 128, v \div 128)
ASSUME \A v \in ModelPayloads :
          LET w == Word(v, TRUE) IN
          \A a \in Addrs : ExpectToken(<<PidByte(PID_SOF), w % 256, w \div 256>>, a) = Sof(v)

\* CRC5 detects every single- and double-bit corruption of the 16 bits after the PID, and a corrupted check nibble
\* or a foreign address never yields an event
FlipBit(w, b) == IF (w \div (2 ^ b)) % 2 = 1 THEN w - 2 ^ b ELSE w + 2 ^ b
ASSUME \A v \in ModelPayloads :
          LET w == Word(v, TRUE) IN
          /\ \A b1 \in 0..15 : \A b2 \in b1..15 :
                LET w2 == IF b1 = b2 THEN FlipBit(w, b1) ELSE FlipBit(FlipBit(w, b1), b2)
                IN ~Usb2TokenOk(w2 % 256, w2 \div 256)
          /\ \A n \in 0..7 : LET pb == FlipBit(PidByte(PID_OUT), n)
                             IN ExpectToken(<<pb, w % 256, w \div 256>>, v % 128).k \in {"none", "sof"} \/ PidOk(pb)
          /\ ExpectToken(<<PidByte(PID_OUT), w % 256, w \div 256>>, (v + 1) % 128)
                = (IF FilterByAddress THEN NoEvent ELSE Token(PID_OUT, v % 128, v \div 128))   \* foreign address

\* handshakes: exactly the four one-byte packets, out of all 256 first bytes
ASSUME {b \in 0..255 : ExpectHandshake(<<b>>) # NoEvent} = {210, 90, 30, 150}      \* D2 5A 1E 96
ASSUME /\ ExpectHandshake(<<210>>) = Handshake("ack")   /\ ExpectHandshake(<<90>>)  = Handshake("nak")
       /\ ExpectHandshake(<<30>>)  = Handshake("stall") /\ ExpectHandshake(<<150>>) = Handshake("nyet")
       /\ ExpectHandshake(<<210, 0>>) = NoEvent /\ ExpectHandshake(<<>>) = NoEvent

TypeOK == /\ act \in BOOLEAN /\ age \in 0..(Lat + 1) /\ blind \in 0..(Lat + 1) /\ quiet \in 0..QuietSat /\ frame \in 0..2048
          /\ Len(pkt) <= 3 + MaxExtra
EnvOK == TRUE
=============================================================================
