------------------------------- MODULE IsoIn -------------------------------
(***************************************************************************)
(* Reference specification of an isochronous IN stream endpoint            *)
(* (property C15; luna USBIsochronousStreamInEndpoint), written from the   *)
(* property statement, the module doc-string and [USB2.0 5.9.2 / 5.12.3]  *)
(* (high-bandwidth data PID sequencing).                                   *)
(*                                                                         *)
(* Grain: one step = one bus-level event seen by the endpoint.             *)
(*   Env  : the application changes the `bytes_in_frame` input (SetBif),   *)
(*          the host starts a frame (Sof), sends a damaged SOF (BadSof),   *)
(*          sends an IN token to the endpoint (In) at any time and any     *)
(*          number of times per frame, or a token that is not an IN to     *)
(*          this endpoint (Foreign).  While a packet is sent, the stream   *)
(*          producer chooses per byte slot whether it has data (sv).       *)
(*   Ref  : req/left/npk (bytes requested for the frame, bytes left,       *)
(*          packets answered in the frame) and pos (stream bytes taken).   *)
(*          The answer to an IN token is a function of the state and sv.   *)
(*   Prop : frame-level theorems over the ghost list framePk of the        *)
(*          packets answered in the current frame and the ghost list       *)
(*          taken of stream bytes put on the wire.                         *)
(***************************************************************************)
EXTENDS Naturals, Sequences, FiniteSets

CONSTANTS Configs     \* the endpoint configurations discussed: records [maxPkt, epNum, devAddr]

VARIABLES conf,       \* elaboration-time parameters of the endpoint (chosen at Init, never changes)
          bif,        \* Env: current value of the bytes_in_frame input
          started,    \* a frame has started since reset
          req,        \* bytes requested for the current frame (bif as it was at the SOF)
          left,       \* bytes of the current frame not yet sent
          npk,        \* packets answered in the current frame
          pos,        \* number of bytes taken from the stream so far
          ev,         \* the event (Env choice + Ref-predicted response) that led to this state
          framePk,    \* ghost: <<pid, len>> of every packet answered in the current frame
          taken       \* ghost: every stream byte put on the wire, in order

vars == <<conf, bif, started, req, left, npk, pos, ev, framePk, taken>>

MaxPkt  == conf.maxPkt                   \* the endpoint's max packet size
EpNum   == conf.epNum                    \* the endpoint's number
DevAddr == conf.devAddr                  \* the device's address

MaxReq == 3 * MaxPkt                     \* quantifier of the property: 0 .. 3 x max packet size
Min(a, b) == IF a < b THEN a ELSE b

\* The k-th byte (k = 1, 2, ...) the stream producer hands over.  Never 0, so that stream data
\* and zero fill can be told apart; consecutive values differ, so that loss, duplication and
\* reordering are visible.  (The harness' producer offers exactly this sequence.)
Src(k) == ((37 * k + 11) % 251) + 1

DataPids == {"DATA0", "DATA1", "DATA2", "MDATA"}
PidName(k) == CASE k = 0 -> "DATA0" [] k = 1 -> "DATA1" [] k = 2 -> "DATA2" [] OTHER -> "MDATA"

\* number of TRUE entries among sv[1..i]
CountTrue(sv, i) == Cardinality({j \in 1..i : sv[j]})

\* payload of a packet whose byte slots had (sv[i] = TRUE) / had no (FALSE) stream data,
\* when p stream bytes were taken before: stream bytes in order, zero fill elsewhere
Fill(sv, p) == [i \in 1..Len(sv) |-> IF sv[i] THEN Src(p + CountTrue(sv, i)) ELSE 0]

\* packets the current frame needs: a frame with nothing to send still needs one (zero-length) packet
Need == IF req = 0 THEN 1 ELSE (req + MaxPkt - 1) \div MaxPkt

\* [USB2.0 5.9.2] 3 packets: DATA2 DATA1 DATA0; 2 packets: DATA1 DATA0; 1 packet: DATA0.
\* The PID of an *extra* zero-length packet (more IN tokens than the frame needs) and of a
\* packet sent before any frame started is not fixed by the property.
PidConstrained == started /\ npk < Need
ExpectedPid == PidName(Need - 1 - npk)
PktLen == Min(left, MaxPkt)

DataResp(pid, payload) == [kind |-> "data", pid |-> pid, payload |-> payload]
NoResp == [kind |-> "none"]

-----------------------------------------------------------------------------
InitState == /\ bif = 0 /\ started = FALSE /\ req = 0 /\ left = 0 /\ npk = 0 /\ pos = 0
             /\ ev = [e |-> "init"]
             /\ framePk = <<>> /\ taken = <<>>
Init == conf \in Configs /\ InitState

(* The application may change bytes_in_frame at any time; nothing happens until the next SOF. *)
SetBif(n) == /\ bif' = n
             /\ ev' = [e |-> "bif", n |-> n]
             /\ UNCHANGED <<conf, started, req, left, npk, pos, framePk, taken>>

(* Start of frame: the request is latched, whatever was left of the old frame is forgotten. *)
Sof == /\ started' = TRUE /\ req' = bif /\ left' = bif /\ npk' = 0
       /\ framePk' = <<>>
       /\ ev' = [e |-> "sof"]
       /\ UNCHANGED <<conf, bif, pos, taken>>

(* A SOF with a damaged CRC is no SOF. *)
BadSof == /\ ev' = [e |-> "badsof"]
          /\ UNCHANGED <<conf, bif, started, req, left, npk, pos, framePk, taken>>

(* IN token for the endpoint; sv = per byte slot, whether the stream had data; pid = PID sent. *)
InStep(sv, pid) ==
    /\ Len(sv) = PktLen
    /\ PidConstrained => pid = ExpectedPid
    /\ left' = left - PktLen
    /\ npk' = npk + 1
    /\ pos' = pos + CountTrue(sv, Len(sv))
    /\ framePk' = Append(framePk, [pid |-> pid, len |-> PktLen])
    /\ taken' = taken \o SelectSeq(Fill(sv, pos), LAMBDA b : b # 0)
    /\ UNCHANGED <<conf, bif, started, req>>

\* is a token (pid, addr, ep) an IN token for this endpoint?
TokenPids == {"IN", "OUT", "SETUP", "PING"}
ForUs(tpid, addr, ep) == tpid = "IN" /\ addr = DevAddr /\ ep = EpNum

In(sv, pid) == /\ InStep(sv, pid)
               /\ ev' = [e |-> "tok", pid |-> "IN", addr |-> DevAddr, ep |-> EpNum, sv |-> sv,
                         resp |-> DataResp(pid, Fill(sv, pos))]

(* Any other token (IN to another endpoint or address, OUT/SETUP/PING to this endpoint number): *)
(* the endpoint stays silent and nothing changes.                                              *)
Foreign(tpid, addr, ep) ==
    /\ ~ForUs(tpid, addr, ep)
    /\ ev' = [e |-> "tok", pid |-> tpid, addr |-> addr, ep |-> ep, resp |-> NoResp]
    /\ UNCHANGED <<conf, bif, started, req, left, npk, pos, framePk, taken>>

Next == \/ \E n \in 0..MaxReq : SetBif(n)
        \/ Sof
        \/ BadSof
        \/ \E sv \in [1..PktLen -> BOOLEAN], pid \in DataPids : In(sv, pid)
        \/ \E tpid \in TokenPids, addr \in 0..127, ep \in 0..15 : Foreign(tpid, addr, ep)

Spec == Init /\ [][Next]_vars

-----------------------------------------------------------------------------
(* Prop *)
RECURSIVE SumLen(_)
SumLen(s) == IF s = <<>> THEN 0 ELSE s[1].len + SumLen(Tail(s))

TypeOK == /\ bif \in 0..MaxReq /\ req \in 0..MaxReq /\ left \in 0..req
          /\ npk = Len(framePk)

\* Never more than requested; what was sent plus what is left is the request.
FrameBudget == SumLen(framePk) + left = req

\* Once the host has fetched as many packets as the frame needs, exactly the request was sent.
ExactWhenFetched == Len(framePk) >= Need => (left = 0 /\ SumLen(framePk) = req)

\* Packets are full except the last one; anything after that is a zero-length packet.
Packetisation ==
    \A i \in 1..Len(framePk) :
        framePk[i].len = IF i < Need THEN MaxPkt
                         ELSE IF i = Need THEN req - (Need - 1) * MaxPkt
                         ELSE 0

\* PID sequence by the number of packets the frame needs.
PidSequence ==
    started => \A i \in 1..Min(Len(framePk), Need) :
        framePk[i].pid = (CASE Need = 3 -> <<"DATA2", "DATA1", "DATA0">>
                            [] Need = 2 -> <<"DATA1", "DATA0">>
                            [] OTHER    -> <<"DATA0">>)[i]

\* Stream bytes appear on the wire in order, each exactly once.
StreamInOrder == taken = [k \in 1..pos |-> Src(k)]

\* The request is latched only by a SOF.
LatchedOnlyAtSof == [][req' # req => ev'.e = "sof"]_vars

\* Only an IN token for the endpoint sends anything or takes anything from the stream.
OnlyInSends == [][(left' # left \/ pos' # pos) =>
                      (ev'.e = "sof" \/ (ev'.e = "tok" /\ ForUs(ev'.pid, ev'.addr, ev'.ep)))]_vars

ConfigNeverChanges == [][conf' = conf]_vars
=============================================================================
