"""Engine `usbserial` — C57: the ready-made CDC-ACM USBSerialDevice vs specs/usbserial/UsbSerial.tla.

The real USBSerialDevice is driven over a UTMIInterface by the host model (hosts/utmi.py) while a
per-cycle stream agent feeds the FPGA-side tx stream and consumes the rx stream with back-pressure.
Every control transfer / bulk transaction / batch of stream beats becomes one trace record; TLC decides.
"""
import os
import random

from .. import tlc
from ..core import use_repo
from ..pipeline import validate_group
from ..hosts import utmi

ENGINE = "usbserial"
SPEC_DIR = "usbserial"

META = {
    "C57": {
        "text": "Host-level TLA+ specification of the CDC-ACM device (control transfers, bulk OUT/IN transactions with "
                "toggles/retries/corruption, FPGA-side stream beats). TLC checks exhaustively (MaxPkt 2, 2-value data, "
                "bounded logs, every allowed device answer) that the allowed-answer relation implies exactly-once/in-order "
                "delivery both ways; the real USBSerialDevice (max packet 2, 8 and 64) is driven by TLC-simulated host/stream "
                "schedules and by seeded-random enumeration orders, request mixes, data sizes and back-pressure patterns, "
                "and every recorded transaction is validated by TLC against the specification, ending with a drain check.",
        "note": "Host obeys inter-packet timing; SET_CONFIGURATION is only issued before data traffic; CLEAR_FEATURE(ENDPOINT_HALT) "
                "restarts the addressed direction's toggle (the host restarts its own). Descriptor contents are checked structurally (USB 2.0 ch.9 / CDC): "
                "lengths, vid/pid, endpoint set. Trusted: TLC, amaranth.sim, the UTMI host model.",
        "technique": "TLA+ transaction-level spec, TLC exhaustive + simulate-and-replay + batch trace validation of real-device traces",
        "design_ref": "DESIGN.md §5 C57",
    }
}

VID, PID = 0x1209, 0x5AF1


def _cfg(name):
    with open(os.path.join(tlc.SPECS, SPEC_DIR, name)) as f:
        return f.read()


class Bench:
    """One elaborated USBSerialDevice + host + stream agent; runs many scenarios (sim.reset between)."""

    def __init__(self, maxpkt):
        use_repo()
        from amaranth.sim import Simulator
        from luna.gateware.interface.utmi import UTMIInterface
        from luna.gateware.usb.devices.acm import USBSerialDevice
        self.maxpkt = maxpkt
        self.bus = UTMIInterface()
        self.dut = USBSerialDevice(bus=self.bus, idVendor=VID, idProduct=PID, max_packet_size=maxpkt)
        self.sim = Simulator(self.dut)
        self.sim.add_clock(1 / 12e6, domain="usb")
        self.sim.add_testbench(self._bench)
        self._first = True
        self.cycles = 0

    # -- stream agent: runs every cycle from the host model's probe hook ---------------------
    def _probe(self, ctx, host):
        d = self.dut
        # rx side (device -> FPGA logic)
        if self.rx_timed and host.cycle_no >= self.rx_timed[0][0]:
            self.rx_budget = self.rx_timed.pop(0)[1]
        if self.rx_budget is not None:
            r = 1 if self.rx_budget > 0 else 0
        else:
            r = 1 if self.rng2.random() < self.rx_p else 0
        ctx.set(d.rx.ready, r)
        if r and ctx.get(d.rx.valid):
            self.rx_acc.append(int(ctx.get(d.rx.payload)))
            self.held -= 1
            if self.rx_budget is not None:
                self.rx_budget -= 1
        # tx side (FPGA logic -> device); timed beats are offered from an exact cycle on (race sweeps)
        if self.timed and host.cycle_no >= self.timed[0][0]:
            self.tx_queue += self.timed.pop(0)[1]
            self.tx_force_n = len(self.tx_queue)
        if self.tx_queue and (self.tx_force or self.tx_force_n > 0 or self.rng2.random() < self.tx_p):
            b, last = self.tx_queue[0]
            ctx.set(d.tx.valid, 1)
            ctx.set(d.tx.payload, b)
            ctx.set(d.tx.last, 1 if last else 0)
            if ctx.get(d.tx.ready):
                self.tx_queue.pop(0)
                self.tx_acc.append([b, bool(last)])
                self.tx_force_n = max(0, self.tx_force_n - 1)
        else:
            ctx.set(d.tx.valid, 0)

    def _flush(self, rec):
        if self.tx_acc:
            self.trace.append({"e": "tx", "beats": self.tx_acc})
            self.tx_acc = []
        if rec is not None:
            self.trace.append(rec)
        if self.rx_acc:
            self.trace.append({"e": "rx", "bytes": self.rx_acc})
            self.rx_acc = []

    # -- host operations -----------------------------------------------------------------------
    async def control(self, ctx, host, addr, req, data_out=()):
        """Run a whole control transfer; returns (outcome, data)."""
        bm = (0x80 if req["dirin"] else 0) | (req["type"] << 5) | req["recipient"]
        s8 = utmi.setup_bytes(bm, req["request"], req["value"], req["index"], req["length"])
        r = await host.setup(ctx, addr, s8)
        if r.get("kind") == "none":
            return "no_response", []
        if not (r.get("kind") == "hs" and r.get("pid") == "ACK"):
            return "setup_not_acked:%s" % r.get("kind"), []
        await host.idle(ctx, 3)
        data = []
        await self._poll(ctx, host, addr)
        if req["dirin"] and req["length"] > 0:
            naks = 0
            while True:
                r = await host.in_transaction(ctx, addr, 0, ack=True)
                if r.get("kind") == "hs" and r["pid"] == "STALL":
                    return "stall", data
                if r.get("kind") == "hs" and r["pid"] == "NAK":
                    naks += 1
                    if naks > 30:
                        return "data_stage_nak_forever", data
                    await host.idle(ctx, 5)
                    continue
                if r.get("kind") != "data" or not r.get("crc_ok"):
                    return "data_stage_bad_response:%s" % r.get("kind"), data
                data += r["payload"]
                if len(r["payload"]) < 64 or len(data) >= req["length"]:
                    break
                await self._poll(ctx, host, addr)
            await host.idle(ctx, 3)
            await self._poll(ctx, host, addr)
            r = await host.out_transaction(ctx, addr, 0, "DATA1", [])
            if r.get("kind") == "hs" and r["pid"] == "STALL":
                return "stall", data
            if not (r.get("kind") == "hs" and r["pid"] == "ACK"):
                return "status_out_not_acked:%s" % r.get("kind"), data
            return "ok", data
        ignored = 0
        if (not req["dirin"]) and req["length"] > 0:
            naks = 0
            while True:
                r = await host.out_transaction(ctx, addr, 0, "DATA1", list(data_out))
                if r.get("kind") == "hs" and r["pid"] == "STALL":
                    return "stall", data
                if r.get("kind") == "hs" and r["pid"] == "NAK":
                    naks += 1
                    if naks > 30:
                        return "data_out_nak_forever", data
                    await host.idle(ctx, 5)
                    continue
                if r.get("kind") == "none":
                    # the device ignored the OUT data packet: a host times out and (after retries) moves on;
                    # the request may still be refused with STALL in the status stage [USB2 8.5.3.4]
                    ignored += 1
                    if ignored >= 2:
                        break
                    await host.idle(ctx, 5)
                    continue
                if not (r.get("kind") == "hs" and r["pid"] == "ACK"):
                    return "data_out_bad_response:%s" % r.get("kind"), data
                break
            await host.idle(ctx, 3)
            await self._poll(ctx, host, addr)
        naks = 0
        while True:
            r = await host.in_transaction(ctx, addr, 0, ack=True)
            if r.get("kind") == "hs" and r["pid"] == "STALL":
                return "stall", data
            if r.get("kind") == "hs" and r["pid"] == "NAK":
                naks += 1
                if naks > 30:
                    return "status_in_nak_forever", data
                await host.idle(ctx, 5)
                continue
            if r.get("kind") == "data" and r.get("crc_ok") and r["payload"] == [] and r["pid"] == "DATA1":
                return ("ok" if not ignored else "data_out_ignored_but_status_ok"), data
            return "status_in_bad_response:%s" % r.get("kind"), data

    async def _poll(self, ctx, host, addr):
        """Traffic a real CDC-ACM host interleaves with a control transfer (between its transactions): IN polls
        of the interrupt (EP3) and bulk (EP4) endpoints, and tokens for other devices. The bulk IN polls are
        ordinary "in" events of the trace (the specification's Ctl step is independent of the data state, so
        recording them before the enclosing "ctl" record is exact); the others must leave no trace at all."""
        mode = self.scenario.get("ctl_polls")
        if not mode:
            return
        kinds = {"ep3": ["ep3"], "ep4": ["ep4"], "foreign": ["foreign"]}.get(mode) or \
            [self.rng2.choice(["ep3", "ep4", "foreign", "none"]) for _ in range(self.rng2.randint(1, 2))]
        for kd in kinds:
            if kd == "ep3":
                r = await host.in_transaction(ctx, addr, 3, ack=True)
                self.ep3_resp.append(r.get("pid") if r.get("kind") == "hs" else r.get("kind"))
            elif kd == "ep4":
                rec, _ = await self.bulk_in(ctx, host, addr, True)
                self._flush(rec)
            elif kd == "foreign":
                other = (addr + self.rng2.randint(1, 126)) % 128
                r = await host.in_transaction(ctx, other, self.rng2.choice([0, 3, 4]), ack=False)
                if r.get("kind") != "none":
                    self.ep3_resp.append("answered_foreign_token")
            await host.idle(ctx, self.rng2.randint(2, 5))

    async def bulk_out(self, ctx, host, addr, tog, payload, crc_ok=True):
        r = await host.out_transaction(ctx, addr, 4, "DATA1" if tog else "DATA0", payload, corrupt_crc=not crc_ok)
        if r.get("kind") == "hs":
            resp = r["pid"]
        elif r.get("kind") == "none":
            resp = "none"
        else:
            resp = "bad_" + str(r.get("kind"))
        return {"e": "out", "addr": addr, "tog": tog, "payload": list(payload), "crc_ok": bool(crc_ok), "resp": resp}

    async def bulk_in(self, ctx, host, addr, ack):
        r = await host.in_transaction(ctx, addr, 4, ack=ack)
        resp = {"kind": "bad", "pid": 0, "payload": []}
        if r.get("kind") == "none":
            resp["kind"] = "none"
        elif r.get("kind") == "hs":
            resp["kind"] = r["pid"] if r["pid"] in ("NAK", "STALL") else "bad"
        elif r.get("kind") == "data" and r.get("crc_ok") and r["pid"] in ("DATA0", "DATA1"):
            resp = {"kind": "data", "pid": 1 if r["pid"] == "DATA1" else 0, "payload": r["payload"]}
        return {"e": "in", "addr": addr, "resp": resp, "host_ack": bool(ack and resp["kind"] == "data")}, resp

    # -- scenario interpreter --------------------------------------------------------------------
    async def _bench(self, ctx):
        sc = self.scenario
        rng = sc["rng"]
        self.rng2 = random.Random(rng.random())
        host = utmi.UTMIHost(self.bus, rng, gap_prob=sc.get("gap", 0.0), stall_prob=sc.get("stall", 0.0))
        host.extra_probe = self._probe
        self.host = host
        self.rx_p, self.tx_p = sc.get("rx_p", 1.0), sc.get("tx_p", 1.0)
        self.rx_budget = 0 if sc.get("rx_manual") else None
        self.tx_force = False
        self.tx_queue, self.tx_acc, self.rx_acc, self.trace = [], [], [], []
        self.timed, self.tx_force_n, self.rx_timed = [], 0, []
        self.ep3_resp = []
        self.held, self.exp_tog = 0, 0      # harness-side estimate, used only to keep clean stimuli inside the buffer
        ctx.set(self.dut.connect, 1)
        ctx.set(self.bus.line_state, 1)
        await host.idle(ctx, 8)
        addr = 0
        for op in sc["ops"]:
            k = op[0]
            if k == "ctl":
                _, use_addr, req, dout = op
                a = addr if use_addr is None else use_addr
                if (a == addr and req["type"] == 0 and req["request"] == 1 and req["recipient"] == 2 and not req["dirin"]
                        and req["length"] == 0 and req["value"] == 0 and req["index"] == 0x84):
                    # Env of CLEAR_FEATURE(ENDPOINT_HALT, IN): no IN packet may be waiting for its ACK -> poll (and ACK)
                    # until the endpoint NAKs (also for requests that come from TLC-simulated behaviours)
                    for _ in range(12):
                        rec, resp = await self.bulk_in(ctx, host, addr, True)
                        self._flush(rec)
                        if resp["kind"] != "data":
                            break
                        await host.idle(ctx, 4)
                outcome, data = await self.control(ctx, host, a, req, dout)
                self._flush({"e": "ctl", "addr": a, "req": req, "outcome": outcome, "data": data})
                if (a == addr and outcome == "ok" and req["type"] == 0 and req["request"] == 5
                        and not req["dirin"] and req["length"] == 0):
                    addr = req["value"] & 0x7F
            elif k == "out":
                _, use_addr, tog, payload, crc_ok = op
                a = addr if use_addr is None else use_addr
                if sc.get("avoid_overrun", True) and a == addr:
                    # clean stimuli never ask the endpoint to hold more than it documents (2*MaxPkt-1 bytes):
                    # give the consumer time, and skip the packet if there is still no room
                    buf = 2 * self.maxpkt - 1
                    if self.held + len(payload) > buf:
                        if self.rx_budget is None:
                            for _ in range(600):
                                if self.held + len(payload) <= buf:
                                    break
                                save, self.rx_p = self.rx_p, 1.0
                                await host.cycle(ctx)
                                self.rx_p = save
                        if self.held + len(payload) > buf:
                            self._flush(None)
                            continue
                rec = await self.bulk_out(ctx, host, a, tog, payload, crc_ok)
                if a == addr and crc_ok and rec["resp"] == "ACK" and tog == self.exp_tog:
                    self.held += len(payload)
                    self.exp_tog ^= 1
                self._flush(rec)
            elif k == "in":
                _, use_addr, ack = op
                a = addr if use_addr is None else use_addr
                rec, _ = await self.bulk_in(ctx, host, a, ack)
                self._flush(rec)
            elif k == "in_race":     # IN transaction; `beats` hit the tx stream exactly d cycles after the device's packet ended
                _, ack, dly, beats = op
                await host.token(ctx, "IN", addr, 4)
                r = await host.wait_response(ctx, 40)
                self.timed.append((host.cycle_no + dly, [list(b) for b in beats]))
                resp = {"kind": "bad", "pid": 0, "payload": []}
                if r.get("kind") == "none":
                    resp["kind"] = "none"
                elif r.get("kind") == "hs":
                    resp["kind"] = r["pid"] if r["pid"] in ("NAK", "STALL") else "bad"
                elif r.get("kind") == "data" and r.get("crc_ok") and r["pid"] in ("DATA0", "DATA1"):
                    resp = {"kind": "data", "pid": 1 if r["pid"] == "DATA1" else 0, "payload": r["payload"]}
                    if ack:
                        await host.idle(ctx, 2)
                        await host.handshake(ctx, "ACK")
                await host.idle(ctx, 24)
                self._flush({"e": "in", "addr": addr, "resp": resp, "host_ack": bool(ack and resp["kind"] == "data")})
            elif k == "out_race":    # OUT transaction with the consumer stalled; it opens exactly d cycles after the data packet ended
                _, tog, payload, dly = op
                self.rx_budget = 0
                self.rx_timed = []
                await host.token(ctx, "OUT", addr, 4)
                await host.idle(ctx, 2)
                await host.data(ctx, "DATA1" if tog else "DATA0", payload)
                self.rx_timed.append((host.cycle_no + dly, 10 ** 6))
                r = await host.wait_response(ctx, 40)
                resp = r["pid"] if r.get("kind") == "hs" else ("none" if r.get("kind") == "none" else "bad_" + str(r.get("kind")))
                if resp == "ACK" and tog == self.exp_tog:
                    self.held += len(payload)
                    self.exp_tog ^= 1
                await host.idle(ctx, 30)
                self._flush({"e": "out", "addr": addr, "tog": tog, "payload": list(payload), "crc_ok": True, "resp": resp})
                self.rx_budget = None
            elif k == "tx":          # queue beats for the tx stream; optionally wait until they are taken
                self.tx_queue += [list(b) for b in op[1]]
                if op[2]:
                    self.tx_force = True
                    for _ in range(40 * len(op[1]) + 200):
                        if not self.tx_queue:
                            break
                        await host.cycle(ctx)
                    self.tx_force = False
                    if self.tx_queue:      # device does not take them (buffers full): leave queued, not an error
                        pass
                self._flush(None)
            elif k == "rx":          # manual consumer: let n bytes through
                self.rx_budget = op[1]
                for _ in range(200):
                    if self.rx_budget <= 0:
                        break
                    await host.cycle(ctx)
                self.rx_budget = 0
                self._flush(None)
            elif k == "clear_halt":  # CLEAR_FEATURE(ENDPOINT_HALT) for one direction of the data endpoint (index 0x84 / 0x04)
                index = op[1]
                if index == 0x84:    # Env: no IN packet may be waiting for its ACK -> poll (and ACK) until the endpoint NAKs
                    for _ in range(12):
                        rec, resp = await self.bulk_in(ctx, host, addr, True)
                        self._flush(rec)
                        if resp["kind"] != "data":
                            break
                        await host.idle(ctx, 4)
                q = _mkreq(0, 2, 0, 1, 0, index, 0)
                outcome, data = await self.control(ctx, host, addr, q, ())
                self._flush({"e": "ctl", "addr": addr, "req": q, "outcome": outcome, "data": data})
                if outcome == "ok" and index == 0x04:
                    self.exp_tog = 0
            elif k == "rx_p":
                self.rx_p = op[1]
            elif k == "idle":
                await host.idle(ctx, op[1])
                self._flush(None)
            await host.idle(ctx, rng.randint(2, 6))
        if sc.get("drain", True):
            # quiescence: consumer ready, tx queue drained into the device, IN polled until it NAKs twice
            self.rx_budget = None
            self.rx_p = 1.0
            self.tx_p = 1.0
            naks = 0
            for _ in range(60):
                await host.idle(ctx, 150)
                rec, resp = await self.bulk_in(ctx, host, addr, True)
                self._flush(rec)
                naks = naks + 1 if resp["kind"] == "NAK" else 0
                if naks >= 2 and not self.tx_queue:
                    break
            await host.idle(ctx, 300)
            self._flush({"e": "end"})
        self.cycles += host.cycle_no
        self.result = {"cfg": {"vid": VID, "pid": PID}, "steps": self.trace}
        self.final_addr = addr

    def run(self, scenario):
        self.scenario = scenario
        if not self._first:
            self.sim.reset()
        self._first = False
        self.sim.run()
        return self.result


# ---- stimulus generation ---------------------------------------------------------------------
def req(type_, recipient, dirin, request, value=0, index=0, length=0):
    return {"type": type_, "recipient": recipient, "dirin": bool(dirin), "request": request,
            "value": value, "index": index, "length": length}


_mkreq = req      # (`req` is shadowed by a loop variable inside Bench._bench)


def enumeration_ops(rng, maxpkt):
    """A standard host enumeration in a randomised (but legal) order with randomised wLengths."""
    ops = []
    pre = [("ctl", None, req(0, 0, 1, 6, 0x0100, 0, rng.choice([8, 18, 64])), ())]
    if rng.random() < 0.5:
        pre.append(("ctl", None, req(0, 0, 1, 6, 0x0200, 0, rng.choice([9, 255])), ()))
    rng.shuffle(pre)
    ops += pre
    ops.append(("ctl", None, req(0, 0, 0, 5, rng.randint(1, 127), 0, 0), ()))
    post = [("ctl", None, req(0, 0, 1, 6, 0x0100, 0, 18), ()),
            ("ctl", None, req(0, 0, 1, 6, 0x0200, 0, 9), ()),
            ("ctl", None, req(0, 0, 1, 6, 0x0200, 0, rng.choice([255, 1024, 71, 64, 65])), ()),
            ("ctl", None, req(0, 0, 1, 6, 0x0300, 0, 255), ()),
            ("ctl", None, req(0, 0, 1, 6, 0x0300 + rng.randint(1, 3), 0x0409, 255), ()),
            ("ctl", None, req(0, 0, 1, 8, 0, 0, 1), ()),
            ("ctl", None, req(0, 0, 0, 9, 1, 0, 0), ()),
            ("ctl", None, req(0, 0, 1, 8, 0, 0, 1), ())]
    head, tail = post[:5], post[5:]
    rng.shuffle(head)
    ops += head + tail
    return ops


def class_vendor_ops(rng):
    lc = [rng.randrange(256) for _ in range(7)]
    cands = [
        ("ctl", None, req(1, 1, 0, 0x20, 0, 0, 7), tuple(lc)),                       # SET_LINE_CODING -> ok
        ("ctl", None, req(1, 1, 0, 0x22, rng.randint(0, 3), 0, 0), ()),              # SET_CONTROL_LINE_STATE -> stall
        ("ctl", None, req(1, 1, 1, 0x21, 0, 0, 7), ()),                              # GET_LINE_CODING -> stall
        ("ctl", None, req(1, 1, 0, 0x23, rng.randint(0, 0xFFFF), 0, 0), ()),         # SEND_BREAK -> stall
        ("ctl", None, req(1, rng.randint(0, 3), rng.randint(0, 1), rng.choice([0, 1, 0x1F, 0x21, 0x24, 0xFF]), 0, 0, 0), ()),
        ("ctl", None, req(2, rng.randint(0, 3), 1, rng.randrange(256), rng.randrange(65536), 0, rng.choice([0, 1, 8, 64])), ()),
        ("ctl", None, req(2, rng.randint(0, 3), 0, rng.randrange(256), rng.randrange(65536), 0, 0), ()),
        ("ctl", None, req(2, 0, 0, rng.randrange(256), 0, 0, 4), (1, 2, 3, 4)),
        ("ctl", None, req(3, rng.randint(0, 3), rng.randint(0, 1), rng.randrange(256), 0, 0, 0), ()),
        ("ctl", None, req(1, 1, 0, 0x20, 0, 0, 7), tuple(lc)),
    ]
    n = rng.randint(2, 6)
    return [rng.choice(cands) for _ in range(n)]


def data_ops(rng, maxpkt, buf, n_ops, clean=True):
    """Bulk traffic both ways with retries, corruption, foreign-address probes and back-pressure changes.

    Tracks the host's view of toggles so that "retry" and "in sequence" packets are both generated."""
    ops = []
    out_tog = 0            # toggle of the next new OUT packet (host's view: flips when it saw an ACK ... unknown here)
    sizes = [0, 1, 2, maxpkt - 1, maxpkt, maxpkt, max(1, maxpkt // 2)]
    for _ in range(n_ops):
        c = rng.random()
        if c < 0.30:
            n = min(rng.choice(sizes + [rng.randint(0, maxpkt)]), maxpkt)
            payload = [rng.randrange(256) for _ in range(n)]
            mode = rng.random()
            if mode < 0.08:
                ops.append(("out", None, rng.randint(0, 1), payload, False))            # corrupted
            elif mode < 0.14:
                ops.append(("out", (rng.randint(1, 126)), rng.randint(0, 1), payload, True))   # maybe foreign address
            else:
                ops.append(("out", None, "auto", payload, True))
        elif c < 0.60:
            ops.append(("in", None, rng.random() < 0.8))
        elif c < 0.64:
            ops.append(("in", rng.randint(1, 126), True))
        elif c < 0.84:
            n = rng.choice([1, 2, maxpkt - 1, maxpkt, maxpkt + 1, 2 * maxpkt, rng.randint(1, 2 * maxpkt + 3)])
            n = max(1, n)
            beats = [[rng.randrange(256), False] for _ in range(n)]
            lp = rng.random()
            if lp < 0.75:
                beats[-1][1] = True
            if lp < 0.15 and n > 2:
                beats[rng.randrange(n - 1)][1] = True
            ops.append(("tx", beats, rng.random() < 0.7))
        elif c < 0.92:
            ops.append(("rx_p", rng.choice([1.0, 1.0, 0.5, 0.2, 0.05])))
        else:
            ops.append(("idle", rng.randint(5, 120)))
    return ops


class AutoToggle:
    """Resolves ("out", ..., "auto", ...) ops at run time is not possible (ops are static), so the scenario builder
    pre-computes toggles assuming the documented behaviour: an in-sequence, uncorrupted packet to the right address
    is ACKed unless the buffer lacks room.  To stay independent of that assumption the builder simply alternates
    toggles for 'auto' packets and inserts explicit duplicates (same toggle, same payload) as retries; whichever the
    device's state is, the specification decides from the *observed* responses."""


def resolve_auto(ops, rng):
    out = []
    tog = 0
    last = None
    for op in ops:
        if op[0] == "out" and op[2] == "auto":
            if last is not None and rng.random() < 0.15:
                out.append(last)                                   # host retry of the previous packet (lost ACK)
                continue
            cur = ("out", op[1], tog, op[3], op[4])
            out.append(cur)
            last = cur
            tog ^= 1
        else:
            out.append(op)
    return out


def behaviour_to_ops(beh):
    """Env side of a TLC-simulated behaviour of MCUsbSerial -> scenario ops."""
    ops = []
    for _, st in beh[1:]:
        a = st["act"]
        e = a["e"]
        if e == "tx":
            ops.append(("tx", [[a["beat"][0], a["beat"][1]]], True))
        elif e == "rx":
            ops.append(("rx", a["n"]))
        elif e == "out":
            ops.append(("out", a["addr"], a["tog"], list(a["payload"]), a["crc_ok"]))
        elif e == "in":
            ops.append(("in", a["addr"], a["host_ack"]))
        elif e == "ctl":
            q = a["req"]
            dout = tuple(range(q["length"])) if (not q["dirin"] and q["length"]) else ()
            ops.append(("ctl", a["addr"], dict(q), dout))
    return ops


def classify(trace, matched, status, meta):
    if status.startswith("env_"):       # the stimulus left the assumed Env: a generator bug, never a verdict on the gateware
        raise tlc.TLCError("usbserial stimulus outside Env: %s (%s)" % (status, meta))
    steps = trace["steps"]
    k = matched if status != "ok" else matched + 1
    pattern = "other"
    # normalised cause: was the OUT buffer overrun (more un-delivered ACKed bytes than the endpoint buffers) before the failure?
    held = 0
    overrun = False
    for r in steps[:k]:
        if r["e"] == "out" and r["resp"] == "ACK" and r["crc_ok"]:
            held += len(r["payload"])
            if held > meta["buf"]:
                overrun = True
        elif r["e"] == "rx":
            held -= len(r["bytes"])
    if overrun and status in ("rx_stream_not_host_data_in_order", "host_data_not_delivered_to_rx_stream"):
        pattern = "acked_bytes_exceed_out_buffer_while_consumer_stalled"
    return {"clause": status, "pattern": pattern}


def check_C57(rep):
    quick = rep.tier == "quick"
    rep.rule = ("one case = one host transaction / control transfer / stream batch recorded on the real USBSerialDevice and "
                "accepted by TLC; non-trivial = it moved data or completed a control transfer; distinct by "
                "(record kind, request class or payload length, response kind, toggle, ack)")
    rep.assume("host obeys inter-packet delays; SET_CONFIGURATION only before data traffic; CLEAR_FEATURE(ENDPOINT_HALT) for the IN "
               "direction only while no IN packet is waiting for its ACK; after it the host restarts its own toggle")
    rep.assume("a NAK is always an allowed answer to a bulk token (liveness is judged by the drain check at the end of each trace)")

    # 1. exhaustive exploration of the specification (allowed-answer relation => exactly-once theorems)
    for mode, maxlog in ([("data", 2), ("ctl", 2)] if quick else [("data", 3), ("ctl", 3), ("all", 2)]):
        cfg = tlc.render_cfg(_cfg("MCUsbSerial.cfg.tmpl"), {"MaxLog": maxlog, "Spec": "Spec" + mode.capitalize()})
        res = tlc.model_check(SPEC_DIR, "MCUsbSerial", cfg, timeout=3000)
        rep.add_mc("MCUsbSerial Mode=%s MaxPkt=2 BufBytes=3 Bytes={0,1} MaxLog=%d" % (mode, maxlog), res,
                   {"Mode": mode, "MaxPkt": 2, "BufBytes": 3, "MaxLog": maxlog})

    items = {2: [], 8: [], 64: []}

    # 2. spec -> code: TLC-simulated host/stream schedules replayed into a real device with max packet size 2
    b2 = Bench(2)
    for mode, num, depth in ([("data", 40, 30), ("all", 15, 30)] if quick else [("data", 300, 40), ("all", 100, 40)]):
        cfg = tlc.render_cfg(_cfg("MCUsbSerial_sim.cfg.tmpl"), {"Spec": "Spec" + mode.capitalize()})
        behs = tlc.simulate(SPEC_DIR, "MCUsbSerial", cfg, num=num, depth=depth, seed=rep.seed * 13 + len(mode))
        for i, beh in enumerate(behs):
            ops = behaviour_to_ops(beh)
            sc = {"rng": random.Random("%s-sim-%s-%d" % (rep.seed, mode, i)), "ops": ops, "rx_manual": True,
                  "gap": 0.2, "stall": 0.2}
            tr = b2.run(sc)
            items[2].append((tr, {"maxpkt": 2, "buf": 3, "origin": "tlc-simulate/" + mode, "n": i}))

    # 3. code -> spec: random enumeration orders, request mixes, data sizes and back-pressure
    plans = [(2, 10 if quick else 60, 40), (8, 8 if quick else 40, 50), (64, 6 if quick else 40, 40)]
    benches = {2: b2}
    for maxpkt, count, nops in plans:
        if maxpkt not in benches:
            benches[maxpkt] = Bench(maxpkt)
        bench = benches[maxpkt]
        buf = 2 * maxpkt - 1
        for i in range(count):
            rng = random.Random("%s-rnd-%d-%d" % (rep.seed, maxpkt, i))
            ops = []
            style = i % 3
            if style == 0:
                ops += enumeration_ops(rng, maxpkt) + class_vendor_ops(rng)
            elif style == 1:
                ops += [("ctl", None, req(0, 0, 0, 5, rng.randint(1, 127), 0, 0), ())] + class_vendor_ops(rng)
            else:
                ops += class_vendor_ops(rng)[:2]
            ops += resolve_auto(data_ops(rng, maxpkt, buf, nops), rng)
            sc = {"rng": rng, "ops": ops, "gap": rng.choice([0, 0.2, 0.5]), "stall": rng.choice([0, 0.2, 0.5]),
                  "rx_p": rng.choice([1.0, 0.7, 0.3]), "tx_p": rng.choice([1.0, 0.6, 0.2]),
                  # half of the schedules may overrun the OUT buffer (packets then have to be NAKed, never half-taken)
                  "avoid_overrun": i % 2 == 0}
            tr = bench.run(sc)
            items[maxpkt].append((tr, {"maxpkt": maxpkt, "buf": buf, "origin": "random", "n": i}))

    # 3b. race sweeps: the beat that completes the *next* packet (a `last` byte, or the MaxPkt-th byte) reaches the tx
    #     stream at every cycle offset around the host's ACK of the current packet; likewise with a lost ACK.
    for maxpkt in ((2, 8) if quick else (2, 8, 64)):
        bench = benches[maxpkt]
        shapes = [("last", 3), ("full", maxpkt)] if maxpkt > 2 else [("last", 1), ("full", 2)]
        for shape, nb in shapes:
            for ack in (True, False):
                ops = []
                val = 1
                for dly in range(0, 15):
                    a = [[(val + j) % 256, j == 1] for j in range(2)] if maxpkt > 2 else [[val % 256, True]]
                    val += 7
                    ops.append(("tx", a, True))
                    b = [[(val + j) % 256, False] for j in range(nb)]
                    if shape == "last":
                        b[-1][1] = True
                    val += 11
                    ops.append(("tx", b[:-1], True))
                    ops.append(("in_race", ack, dly, [b[-1]]))
                    ops += [("in", None, True)] * 3
                sc = {"rng": random.Random("%s-race-%d-%s-%s" % (rep.seed, maxpkt, shape, ack)), "ops": ops,
                      "gap": 0.0, "stall": 0.0, "rx_p": 1.0, "tx_p": 1.0}
                tr = bench.run(sc)
                items[maxpkt].append((tr, {"maxpkt": maxpkt, "buf": 2 * maxpkt - 1,
                                           "origin": "race-sweep/%s/ack=%s" % (shape, ack), "n": 0}))

    # 3c. OUT-side sweeps: the rx consumer (stalled, with one packet already buffered) opens at every cycle offset
    #     around the end of the next OUT data packet / its handshake
    for maxpkt in ((2, 8) if quick else (2, 8, 64)):
        bench = benches[maxpkt]
        for plen in sorted({maxpkt, maxpkt - 1, 1}):
            ops = [("rx_p", 0.0)]
            tog = 0
            val = 3
            for dly in range(0, 15):
                ops.append(("rx", 0))
                ops.append(("out_race", tog, [(val + j) % 256 for j in range(plen)], 200))     # buffered, consumer shut
                tog ^= 1
                val += 5
                ops.append(("out_race", tog, [(val + j) % 256 for j in range(plen)], dly))     # consumer opens at offset dly
                tog ^= 1
                val += 5
                ops.append(("idle", 60))
                ops.append(("rx", 4 * maxpkt))                                                  # drain before the next round
            sc = {"rng": random.Random("%s-orace-%d-%d" % (rep.seed, maxpkt, plen)), "ops": ops,
                  "gap": 0.0, "stall": 0.0, "rx_p": 1.0, "tx_p": 1.0, "avoid_overrun": False}
            tr = bench.run(sc)
            items[maxpkt].append((tr, {"maxpkt": maxpkt, "buf": 2 * maxpkt - 1,
                                       "origin": "out-race-sweep/len=%d" % plen, "n": 0}))

    # 3d. overrun family: with the consumer shut the buffer is filled exactly (MaxPkt + MaxPkt-1 bytes), then a packet that
    #     exceeds the free space by k bytes arrives (must be refused whole), the consumer opens, the host retries.
    for maxpkt in ((8,) if quick else (8, 64)):
        bench = benches[maxpkt]
        ops = []
        val = 9
        tog = 0
        for k in (1, 2, 3, maxpkt // 2, maxpkt):
            for fill in ((maxpkt, maxpkt - 1), (maxpkt - 1, maxpkt - 2), (maxpkt, maxpkt // 2)):
                ops.append(("rx", 0))
                for n in fill:
                    ops.append(("out_race", tog, [(val + j) % 256 for j in range(n)], 100000))
                    tog ^= 1
                    val += 13
                free = (2 * maxpkt - 1) - sum(fill)
                over = [(val + j) % 256 for j in range(min(maxpkt, free + k))]
                val += 17
                ops.append(("out_race", tog, over, 100000))            # does not fit: NAK expected, nothing taken
                ops.append(("rx", 4 * maxpkt))                           # consumer drains
                ops.append(("out_race", tog, over, 0))                 # host retry: now it fits
                tog ^= 1
                ops.append(("rx", 4 * maxpkt))
        sc = {"rng": random.Random("%s-overrun-%d" % (rep.seed, maxpkt)), "ops": ops,
              "gap": 0.0, "stall": 0.0, "rx_p": 0.0, "tx_p": 1.0, "avoid_overrun": False}
        tr = bench.run(sc)
        items[maxpkt].append((tr, {"maxpkt": maxpkt, "buf": 2 * maxpkt - 1, "origin": "overrun-family", "n": 0}))

    # 3e. control transfers with the traffic a real CDC-ACM host interleaves between their transactions: IN polls of the
    #     interrupt endpoint (EP3) and of the bulk IN endpoint (EP4, with and without data queued), tokens for other
    #     devices -- after the SETUP transaction, between data-stage packets and before the status stage.
    for maxpkt in ((8,) if quick else (2, 8, 64)):
        bench = benches[maxpkt]
        for mode in ("ep3", "ep4", "foreign", "mix"):
            for i in range(1 if quick else 4):
                rng = random.Random("%s-polls-%d-%s-%d" % (rep.seed, maxpkt, mode, i))
                ops = []
                for op in enumeration_ops(rng, maxpkt) + class_vendor_ops(rng):
                    if rng.random() < 0.4:
                        n = rng.randint(1, maxpkt)
                        ops.append(("tx", [[rng.randrange(256), j == n - 1] for j in range(n)], True))
                    ops.append(op)
                sc = {"rng": rng, "ops": ops, "gap": rng.choice([0, 0.2]), "stall": rng.choice([0, 0.2]),
                      "rx_p": 1.0, "tx_p": 1.0, "ctl_polls": mode}
                tr = bench.run(sc)
                bad = [x for x in bench.ep3_resp if x != "NAK"]
                if bad:
                    rep.violation({"clause": "interleaved_poll_answered_wrongly", "pattern": str(bad[0])},
                                  "USBSerialDevice: interleaved interrupt-IN poll / foreign token during a control "
                                  "transfer answered %r (expected NAK / silence)" % bad[:3], None)
                items[maxpkt].append((tr, {"maxpkt": maxpkt, "buf": 2 * maxpkt - 1,
                                           "origin": "ctl-with-interleaved-polls/" + mode, "n": i}))

    # 3f. CLEAR_FEATURE(ENDPOINT_HALT) in the middle of traffic, for each direction of the data endpoint, after an odd and an
    #     even number of packets in that and in the other direction: only the addressed direction's toggle restarts at DATA0.
    for maxpkt in ((8,) if quick else (2, 8, 64)):
        bench = benches[maxpkt]
        for index in (0x84, 0x04):
            for n_in, n_out in ((1, 1), (2, 1), (1, 2), (3, 3)) if quick else ((1, 1), (2, 1), (1, 2), (2, 2), (3, 3), (0, 1), (1, 0)):
                rng = random.Random("%s-clearhalt-%d-%d-%d-%d" % (rep.seed, maxpkt, index, n_in, n_out))
                ops = [("ctl", None, req(0, 0, 0, 5, rng.randint(1, 127), 0, 0), ()),
                       ("ctl", None, req(0, 0, 0, 9, 1, 0, 0), ())]
                val, otog = rng.randrange(200), 0

                def traffic(n_i, n_o):
                    nonlocal val, otog
                    out = []
                    for _ in range(n_i):
                        n = rng.randint(1, maxpkt - 1) if maxpkt > 2 else 1
                        out.append(("tx", [[(val + j) % 256, j == n - 1] for j in range(n)], True))
                        val += n
                        out += [("in", None, True)] * 2
                    for _ in range(n_o):
                        n = rng.randint(1, maxpkt)
                        out.append(("out", None, otog, [(val + j) % 256 for j in range(n)], True))
                        otog ^= 1
                        val += n
                    return out
                ops += traffic(n_in, n_out)
                ops.append(("clear_halt", index))
                if index == 0x04:
                    otog = 0                       # the host restarts its own OUT toggle [USB2.0 9.4.5]
                ops += traffic(2, 2)
                ops.append(("clear_halt", 0x04 if index == 0x84 else 0x84))
                if index == 0x84:
                    otog = 0
                ops += traffic(1, 1)
                sc = {"rng": rng, "ops": ops, "gap": rng.choice([0, 0.2]), "stall": rng.choice([0, 0.2]),
                      "rx_p": 1.0, "tx_p": 1.0}
                tr = bench.run(sc)
                items[maxpkt].append((tr, {"maxpkt": maxpkt, "buf": 2 * maxpkt - 1,
                                           "origin": "clear-halt/0x%02x/in=%d/out=%d" % (index, n_in, n_out), "n": 0}))

    # 4. TLC decides
    for maxpkt, its in items.items():
        if not its:
            continue
        for tr, meta in its:
            for r in tr["steps"]:
                rep.add_eval()
                if r["e"] == "ctl":
                    q = r["req"]
                    rep.nontriv(("ctl", q["type"], q["request"] if q["type"] < 2 else -1, q["dirin"], min(q["length"], 65), r["outcome"]))
                elif r["e"] == "out":
                    rep.nontriv(("out", len(r["payload"]), r["tog"], r["crc_ok"], r["resp"]))
                elif r["e"] == "in" and r["resp"]["kind"] == "data":
                    rep.nontriv(("in", len(r["resp"]["payload"]), r["resp"]["pid"], r["host_ack"]))
        cfg = tlc.render_cfg(_cfg("UsbSerialTrace.cfg.tmpl"), {"MaxPkt": maxpkt, "BufBytes": 2 * maxpkt - 1})
        validate_group(rep, SPEC_DIR, "UsbSerialTrace", cfg, its, classify=classify,
                       steps_of=lambda t: len(t["steps"]), what_prefix="USBSerialDevice ")
        rep.sample({"maxpkt": maxpkt, "origin": its[0][1]["origin"], "first_records": its[0][0]["steps"][:5]})
    rep.extra["device_cycles_simulated"] = sum(b.cycles for b in benches.values())


CHECKS = {"C57": check_C57}
