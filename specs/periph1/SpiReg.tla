------------------------------- MODULE SpiReg -------------------------------
(***************************************************************************)
(* Reference specification of luna.gateware.interface.spi                  *)
(* .SPIRegisterInterface (with its SPICommandInterface) -- property C51 -- *)
(* written from the doc-string's transaction format                        *)
(*        in:  W AAAA...   VVVV...        out:  XXXX...  RRRR...           *)
(* and the property.                                                       *)
(*                                                                         *)
(* Grain: one step = one bus event of the SPI host (the harness' host model *)
(* expands an event into device clock cycles and collects what the device  *)
(* showed during those cycles):                                            *)
(*   sel    CS asserted                  desel  CS deasserted (SCK low)     *)
(*   bit    one whole SCK pulse with SDI = b; the host samples SDO while    *)
(*          SCK is high                                                     *)
(*   mid    SCK rises with SDI = b, CS is deasserted while SCK is still     *)
(*          high, then SCK falls (an abort in the middle of a bit)          *)
(*   cut    one SCK pulse with SDI = b during which CS is released `off`    *)
(*          device cycles after (off > 0), in the very cycle of (off = 0) or *)
(*          before (off < 0) its rising (at = "rise") or falling (at =       *)
(*          "fall") edge.  The bit counts iff CS was still asserted after    *)
(*          the falling edge (at = "fall", off > 0); otherwise it is an      *)
(*          abort in the middle of a bit, like mid.                          *)
(*   noise  SCK pulses while the chip is not selected (traffic for others)  *)
(*   poke   the external signal behind a read-only register changes         *)
(*   idle   nothing happens for a while                                     *)
(*                                                                         *)
(*   Env  : any sequence of events that respects selection (bits only while *)
(*          selected, noise / poke only while deselected).                  *)
(*   Ref  : the register file `regs` (address, kind, current value), the    *)
(*          command bits / data bits received so far and the value latched  *)
(*          for read-out (`rdval`) when the command completed.              *)
(*   Prop : a transaction reads back the current value of the addressed     *)
(*          register (default value for unassigned / write-only addresses); *)
(*          a completed write updates exactly the addressed register with   *)
(*          the transmitted value and strobes its write strobe exactly once;*)
(*          an aborted transaction (CS released before the last data bit)   *)
(*          changes nothing; extra clocks after the word change nothing.    *)
(*                                                                         *)
(* Values are bit sequences, most-significant bit first (register_size may  *)
(* be 32).  Register kinds: "rw" memory-backed (add_register), "ro" constant *)
(* read-only, "rs" read-only backed by an external signal, "wo" write-only  *)
(* special-function register (write_signal + write_strobe, reads default).  *)
(*                                                                         *)
(* Timing assumption (host model, see the binding): every effect of a bit   *)
(* (SDO for the next bit, write strobe, register update) is visible within  *)
(* the >= 4 device cycles the host leaves after each falling SCK edge.      *)
(***************************************************************************)
EXTENDS Integers, Sequences, Bits

VARIABLES A, R,        \* configuration: address_size, register_size
          dflt,        \* configuration: default_read_value (R bits)
          regs,        \* << [a, k, v], ... >> assigned addresses, kind, current value (R bits; "wo": ignored)
          phase,       \* "idle" (not selected) | "cmd" | "data" | "done" (word exchanged, stalled until deselected)
          cbits,       \* command bits received so far (first = W)
          dbits,       \* data bits received so far
          rdval,       \* value latched for read-out when the command completed
          ev,          \* Env: the event just taken
          obs,         \* what the device showed during the event just taken
          nW, nS       \* ghost: per register, writes completed / write strobes seen

vars == <<A, R, dflt, regs, phase, cbits, dbits, rdval, ev, obs, nW, nS>>

-----------------------------------------------------------------------------
Has(a)  == \E i \in 1..Len(regs) : regs[i].a = a
Idx(a)  == CHOOSE i \in 1..Len(regs) : regs[i].a = a
KindOf(a) == IF Has(a) THEN regs[Idx(a)].k ELSE "none"
ReadValue(a) == IF KindOf(a) \in {"rw", "ro", "rs"} THEN regs[Idx(a)].v ELSE dflt

IsWrite(cb) == cb[1] = 1
AddrOf(cb)  == ValMSB(Tail(cb))

Zeros(n) == [i \in 1..n |-> 0]

InitCfg(a, r, d, rg) ==
    /\ A = a /\ R = r /\ dflt = d /\ regs = rg
    /\ phase = "idle" /\ cbits = <<>> /\ dbits = <<>> /\ rdval = d
    /\ ev = [e |-> "idle"]
    /\ obs = [ws |-> Zeros(Len(rg))]
    /\ nW = Zeros(Len(rg)) /\ nS = Zeros(Len(rg))

\* A bit is clocked in by a whole SCK pulse under CS: CS still asserted after the falling edge.
Clocked(e) == e.e = "bit" \/ (e.e = "cut" /\ e.at = "fall" /\ e.off > 0)
\* Events that end the transaction.
Ends(e) == e.e \in {"desel", "mid", "cut"}

\* Env: which events the host may issue now.  (Releasing CS in the very cycle of the falling edge of
\* the last data bit is excluded: whether that transaction completed is not defined.)
EnvFail(e) ==
    IF e.e = "sel" /\ phase # "idle" THEN "env_select_while_selected"
    ELSE IF e.e \in {"bit", "mid", "desel", "cut"} /\ phase = "idle" THEN "env_clock_or_deselect_while_deselected"
    ELSE IF e.e = "cut" /\ e.at = "fall" /\ e.off = 0 /\ phase = "data" /\ Len(dbits) = R - 1
         THEN "env_cs_released_on_final_falling_edge"
    ELSE IF e.e \in {"noise", "poke"} /\ phase # "idle" THEN "env_noise_or_poke_while_selected"
    ELSE IF e.e = "poke" /\ (KindOf(e.a) # "rs" \/ Len(e.v) # R) THEN "env_poke_of_non_signal_register"
    ELSE "ok"

\* What the reference expects of event e in the current state.
\*   target   index of the register written by this event (0 = none)
\*   regs     the register file after the event
\*   sdo      level the host must sample while SCK is high (2 = not constrained)
\*   ws[i]    cycles the write strobe of regs[i] is high during the event
\*   vals[i]  value of regs[i] at the end of the event ("rw" only, else <<>>)
\*   wv[i]    values on the write_signal of regs[i] in its strobe cycles ("wo" only, else <<>>)
Expect(e) ==
    LET isbit    == Clocked(e)
        cb       == IF isbit /\ phase = "cmd" THEN Append(cbits, e.b) ELSE cbits
        cmdDone  == isbit /\ phase = "cmd" /\ Len(cb) = A + 1
        db       == IF isbit /\ phase = "data" THEN Append(dbits, e.b) ELSE dbits
        wordDone == isbit /\ phase = "data" /\ Len(db) = R
        target   == IF wordDone /\ IsWrite(cbits) /\ KindOf(AddrOf(cbits)) \in {"rw", "wo"}
                    THEN Idx(AddrOf(cbits)) ELSE 0
        poked    == IF e.e = "poke" THEN Idx(e.a) ELSE 0
        regs1    == [i \in 1..Len(regs) |->
                        IF i = target /\ regs[i].k = "rw" THEN [regs[i] EXCEPT !.v = db]
                        ELSE IF i = poked THEN [regs[i] EXCEPT !.v = e.v]
                        ELSE regs[i]]
    IN [target |-> target, regs |-> regs1, cb |-> cb, db |-> db, cmdDone |-> cmdDone, wordDone |-> wordDone,
        sdo  |-> IF isbit /\ phase = "data" THEN rdval[Len(dbits) + 1] ELSE 2,
        ws   |-> [i \in 1..Len(regs) |-> IF i = target THEN 1 ELSE 0],
        vals |-> [i \in 1..Len(regs) |-> IF regs[i].k = "rw" THEN regs1[i].v ELSE <<>>],
        wv   |-> [i \in 1..Len(regs) |-> IF regs[i].k = "wo" /\ i = target THEN <<db>> ELSE <<>>]]

\* Everything one event decides.  o = [sdo_lo, sdo_hi, ws, vals, wv]: what the device showed
\* (sdo_lo / sdo_hi = lowest / highest SDO level seen while SCK was high, bit events only).
OutcomeX(e, o, x) ==
    LET sdoOK == x.sdo = 2 \/ (o.sdo_lo = x.sdo /\ o.sdo_hi = x.sdo)
        wsErr == IF o.ws = x.ws THEN "ok"
                 ELSE IF x.target = 0 THEN (IF phase \in {"cmd", "data"} /\ Ends(e)
                                            THEN "write_strobe_on_aborted_transaction"
                                            ELSE "spurious_write_strobe")
                 ELSE IF o.ws[x.target] = 0 THEN "write_strobe_missing"
                 ELSE IF o.ws[x.target] > 1 THEN "write_strobe_repeated"
                 ELSE "write_strobe_on_other_register"
        err   == IF EnvFail(e) # "ok" THEN EnvFail(e)
                 ELSE IF ~sdoOK THEN "read_data"
                 ELSE IF wsErr # "ok" THEN wsErr
                 ELSE IF o.vals # x.vals THEN (IF x.target = 0 THEN "register_changed_without_write"
                                               ELSE "register_value_after_write")
                 ELSE IF o.wv # x.wv THEN "write_value"
                 ELSE "ok"
    IN [err |-> err,
        regs |-> x.regs,
        phase |-> IF e.e = "sel" THEN "cmd"
                  ELSE IF Ends(e) THEN "idle"
                  ELSE IF x.cmdDone THEN "data"
                  ELSE IF x.wordDone THEN "done"
                  ELSE phase,
        cbits |-> IF e.e = "sel" THEN <<>> ELSE x.cb,
        dbits |-> IF e.e = "sel" THEN <<>> ELSE x.db,
        rdval |-> IF x.cmdDone THEN ReadValue(AddrOf(x.cb)) ELSE rdval,
        nW |-> [i \in 1..Len(regs) |-> nW[i] + (IF i = x.target THEN 1 ELSE 0)],
        nS |-> [i \in 1..Len(regs) |-> nS[i] + o.ws[i]]]

Outcome(e, o) == OutcomeX(e, o, Expect(e))

DoX(e, o, x) ==
    LET r == OutcomeX(e, o, x) IN
    /\ r.err = "ok"
    /\ ev' = e /\ obs' = o
    /\ regs' = r.regs /\ phase' = r.phase /\ cbits' = r.cbits /\ dbits' = r.dbits /\ rdval' = r.rdval
    /\ nW' = r.nW /\ nS' = r.nS
    /\ UNCHANGED <<A, R, dflt>>

Do(e, o) == DoX(e, o, Expect(e))

-----------------------------------------------------------------------------
(* Prop *)
Completing == ev.e = "bit" /\ phase = "done" /\ Len(dbits) = R     \* meaningful in the state after the event

\* A register value only ever changes through a completed write addressed to exactly that register
\* (which stores exactly the transmitted bits) or, for signal-backed registers, through its signal.
OnlyAddressedRegisterChanges ==
    [][\A i \in 1..Len(regs) : regs'[i].v # regs[i].v =>
          \/ /\ Clocked(ev') /\ phase = "data" /\ Len(dbits) = R - 1
             /\ IsWrite(cbits) /\ regs[i].a = AddrOf(cbits) /\ regs[i].k = "rw"
             /\ regs'[i].v = dbits'
          \/ ev'.e = "poke" /\ ev'.a = regs[i].a /\ regs[i].k = "rs"]_vars

\* Every completed write strobes its register's write strobe exactly once, and nothing else ever strobes.
StrobedOncePerWrite == nS = nW

\* An aborted transaction (CS released during the command or before the last data bit) changes nothing.
AbortChangesNothing ==
    [][(Ends(ev') /\ phase \in {"cmd", "data"}
          /\ ~(Clocked(ev') /\ phase = "data" /\ Len(dbits) = R - 1)) =>
          (regs' = regs /\ nS' = nS /\ nW' = nW)]_vars

\* Clocks after the word, clocks while deselected and idling change nothing either.
OnlyBitsOfATransactionAct ==
    [][(ev'.e \in {"noise", "idle", "sel"} \/ (ev'.e = "bit" /\ phase = "done")) =>
          (regs' = regs /\ nS' = nS)]_vars

\* The value shifted out is the addressed register's value at the time the command completed
\* (the register file cannot change between then and the end of the word).
ReadsCurrentValue == phase = "data" => rdval = ReadValue(AddrOf(cbits))

TypeOK == /\ phase \in {"idle", "cmd", "data", "done"}
          /\ Len(cbits) <= A + 1 /\ Len(dbits) <= R
          /\ (phase = "cmd" => Len(cbits) <= A)
          /\ (phase \in {"data", "done"} => Len(cbits) = A + 1)
          /\ Len(rdval) = R
          /\ \A i \in 1..Len(regs) : regs[i].k \in {"rw", "ro", "rs"} => Len(regs[i].v) = R
=============================================================================
