--------------------------- MODULE IdleHandshake ---------------------------
(***************************************************************************)
(* The idle handshake of Polling.Idle / Recovery.Idle [USB3.2 7.5.4.10]    *)
(* (C44, first half): IdleHandshakeHandler of link/idle.py.                *)
(*                                                                         *)
(* The port sends logical idle; the handshake is complete only when at     *)
(* least 8 consecutive idle symbols were received and at least 16 were     *)
(* sent.  On the 32-bit interface a word is 4 symbols: 2 consecutive idle  *)
(* words received, 4 words (cycles) sent since the handshake started.      *)
(* Only *valid* words are received symbols; a not-valid word is no symbol  *)
(* at all (it neither extends nor breaks a run of idle symbols).           *)
(*                                                                         *)
(* Grain: one step = one "ss" clock cycle; record [en, iw, cpl, rst].           *)
(*  Env : enable, any word stream.                                         *)
(*  Ref : sent (cycles enabled so far), run (current run of valid idle     *)
(*        words), seen (a run of 2 was reached while enabled).             *)
(*  Prop: the property is a safety rule -- `complete` only when both       *)
(*        conditions hold -- so the Ref constrains exactly that.           *)
(***************************************************************************)
EXTENDS SsLink

CONSTANTS RxWordsNeeded,   \* 2  (8 symbols)
          TxCyclesNeeded   \* 4  (16 symbols)

IsIdleWord(w) == w.v /\ w.d = <<IDL, IDL, IDL, IDL>> /\ w.c = 0

HsInit == [sent |-> 0, run |-> 0, seen |-> FALSE]

RunWith(h, w) == IF ~w.v THEN h.run ELSE IF IsIdleWord(w) THEN Min(h.run + 1, RxWordsNeeded) ELSE 0
\* the run must be completed by a word received while the handshake is running (where it began is left open)
SeenWith(h, r) == h.seen \/ (r.en /\ IsIdleWord(r.iw) /\ RunWith(h, r.iw) >= RxWordsNeeded)

HsFailing(h, r) ==
    IF ~r.cpl THEN "ok"
    ELSE IF ~r.en THEN "idle_complete_while_not_enabled"
    ELSE IF h.sent < TxCyclesNeeded THEN "idle_complete_before_16_symbols_sent"
    ELSE IF ~SeenWith(h, r) THEN "idle_complete_without_8_valid_idle_symbols"
    ELSE "ok"

HsNext(h, r) ==
    IF r.rst THEN HsInit ELSE        \* clock-domain reset: everything counted so far is forgotten
    [sent |-> IF r.en THEN Min(h.sent + 1, TxCyclesNeeded) ELSE 0,
     run  |-> RunWith(h, r.iw),
     seen |-> r.en /\ SeenWith(h, r)]
=============================================================================
